// `cvh deps` (C18): the dependency listing names every file a compilation reads.
//
// line:  `<case>`  — the abstract include graph in the syntax of lean/ChialispModel/Drv/Deps.lean
//        (see `parse_case`); the harness materialises it as files in a temp directory, runs
//        `gather_dependencies` (what `run -M` / `check_dependencies` print) and then
//        `compile_file` with a CompilerOpts wrapper that records every `read_new_file` call.
// out:   `deps=<ok|err> <listed,…|-> reads=<ok|err> <requested>resolved,…|-> `
//        names are canonicalised: `d<i>/<name>` for a file found in search directory i,
//        the pseudo-file name itself for `*…*` files.
//
// `cvh deps-probe <dir> <file> [search dirs…]` prints the same for files on disk (debugging aid).
use std::cell::RefCell;
use std::collections::HashMap;
use std::fs;
use std::path::Path;
use std::rc::Rc;

use crate::common::each_line;
use chialisp::classic::clvm_tools::clvmc::compile_clvm_text;
use chialisp::classic::clvm_tools::stages::stage_0::DefaultProgramRunner;
use chialisp::compiler::compiler::{compile_file, DefaultCompilerOpts};
use chialisp::compiler::comptypes::{CompileErr, CompilerOpts, HasCompilerOptsDelegation};
use chialisp::compiler::dialect::detect_modern;
use chialisp::compiler::preprocessor::gather_dependencies;
use chialisp::compiler::sexp::decode_string;
use clvmr::allocator::Allocator;

type Log = Rc<RefCell<Vec<(String, Result<String, ()>)>>>;

#[derive(Clone)]
struct RecordingOpts {
    log: Log,
    opts: Rc<dyn CompilerOpts>,
}

impl HasCompilerOptsDelegation for RecordingOpts {
    fn compiler_opts(&self) -> Rc<dyn CompilerOpts> {
        self.opts.clone()
    }

    fn update_compiler_opts<F: FnOnce(Rc<dyn CompilerOpts>) -> Rc<dyn CompilerOpts>>(
        &self,
        f: F,
    ) -> Rc<dyn CompilerOpts> {
        Rc::new(RecordingOpts {
            log: self.log.clone(),
            opts: f(self.opts.clone()),
        })
    }

    fn override_read_new_file(
        &self,
        inc_from: String,
        filename: String,
    ) -> Result<(String, Vec<u8>), CompileErr> {
        let r = self.opts.read_new_file(inc_from, filename.clone());
        self.log
            .borrow_mut()
            .push((filename, r.as_ref().map(|x| x.0.clone()).map_err(|_| ())));
        r
    }
}

/// what clvmc / `run` do before compile_file: dialect detection and the option derivation
fn opts_for(filename: &str, search: &[String], text: &str) -> Result<Rc<dyn CompilerOpts>, String> {
    let mut allocator = Allocator::new();
    let assembled = chialisp::classic::clvm_tools::binutils::assemble(&mut allocator, text)
        .map_err(|e| format!("{e:?}"))?;
    let dialect = detect_modern(&mut allocator, assembled);
    let opts: Rc<dyn CompilerOpts> = Rc::new(DefaultCompilerOpts::new(filename));
    let opts = opts.set_search_paths(search);
    let stepping = dialect.stepping.unwrap_or(21);
    Ok(opts
        .set_dialect(dialect)
        .set_optimize(stepping > 22)
        .set_frontend_opt(stepping == 22))
}

pub struct Observed {
    pub deps: Result<Vec<String>, String>,
    pub reads: Vec<(String, Result<String, ()>)>,
    pub compiled: Result<(), String>,
}

pub fn observe(filename: &str, search: &[String], text: &str, via_clvmc: bool) -> Observed {
    let plain: Rc<dyn CompilerOpts> = Rc::new(DefaultCompilerOpts::new(filename));
    let deps = gather_dependencies(plain.set_search_paths(search), filename, text)
        .map(|l| l.iter().map(|i| decode_string(&i.name)).collect())
        .map_err(|e| format!("{}: {}", e.0, e.1));
    let log: Log = Rc::new(RefCell::new(Vec::new()));
    let compiled = if via_clvmc {
        // the route of clvmc / the python API: dialect detection, then the modern compiler or the
        // classic one (which reads through the opts because classic_with_opts = true)
        let base: Rc<dyn CompilerOpts> = Rc::new(DefaultCompilerOpts::new(filename));
        let rec: Rc<dyn CompilerOpts> = Rc::new(RecordingOpts { log: log.clone(), opts: base.set_search_paths(search) });
        let mut allocator = Allocator::new();
        let mut symbols = HashMap::new();
        compile_clvm_text(&mut allocator, rec.clone(), &mut symbols, text, filename, true)
            .map(|_| ())
            .map_err(|e| e.format(&allocator, rec))
    } else {
        match opts_for(filename, search, text) {
            Err(e) => Err(e),
            Ok(opts) => {
                let rec: Rc<dyn CompilerOpts> = Rc::new(RecordingOpts { log: log.clone(), opts });
                let mut allocator = Allocator::new();
                let mut symbols = HashMap::new();
                compile_file(&mut allocator, Rc::new(DefaultProgramRunner::new()), rec, text, &mut symbols)
                    .map(|_| ())
                    .map_err(|e| format!("{}: {}", e.0, e.1))
            }
        }
    };
    let reads = log.borrow().clone();
    Observed { deps, reads, compiled }
}

pub fn probe(args: &[String]) {
    if args.len() < 2 {
        eprintln!("usage: cvh deps-probe <dir> <file> [search dirs…]");
        std::process::exit(2);
    }
    std::env::set_current_dir(&args[0]).unwrap();
    let text = fs::read_to_string(&args[1]).unwrap();
    let search: Vec<String> = if args.len() > 2 { args[2..].to_vec() } else { vec![".".to_string()] };
    let o = observe(&args[1], &search, &text, true);
    println!("deps: {:?}", o.deps);
    println!("compiled: {:?}", o.compiled);
    for (req, res) in o.reads.iter() {
        println!("read {req} -> {res:?}");
    }
}

// ------------------------------------------------------------------------------------------
// abstract cases (shared syntax with Drv/Deps.lean)
//
//   case   := <dialect> ' ' <order> ' ' <file>(';'<file>)*
//   dialect:= c21 | c22 | c23 | s21          (sigil put into the main program; s21 = strict-cl-21)
//   order  := digits, a permutation / subset of the directory numbers: the search path
//   file   := <dir digit><name> '=' <content>       name: [a-z][a-z0-9]*   main program: `0main`
//   content:= 'D' <hex>                              raw data (embed target)
//           | 'F' <form>*                            a list of forms
//   form   := 'i' <name> '.'                         (include name.clib)   name `*…*` = pseudo-file
//           | 'b'|'h'|'s' <name> '.'                 (embed-file C bin|hex|sexp name)
//           | 'm' <form>* 'e'                        a helper whose body holds a nested (mod …); where in the
//                                                    body (call argument, let binding, lambda body) and whether
//                                                    the main expression uses the helper varies with the position
//           | 'g' <form>* 'e'                        (impl side only) an old-style defmacro whose expansion is a
//                                                    (mod …) with these forms, used by the main expression
//           | 'o'                                    some other helper form
// ------------------------------------------------------------------------------------------

#[derive(Debug, Clone)]
enum Form {
    Include(String),
    Embed(char, String),
    Nested(Vec<Form>),
    Generated(Vec<Form>),
    Other,
}

fn parse_forms(s: &[u8], pos: &mut usize) -> Option<Vec<Form>> {
    let mut out = vec![];
    while *pos < s.len() {
        let c = s[*pos] as char;
        match c {
            'i' | 'b' | 'h' | 's' => {
                *pos += 1;
                let start = *pos;
                while *pos < s.len() && s[*pos] != b'.' {
                    *pos += 1;
                }
                if *pos >= s.len() {
                    return None;
                }
                let name = String::from_utf8(s[start..*pos].to_vec()).ok()?;
                *pos += 1;
                out.push(if c == 'i' { Form::Include(name) } else { Form::Embed(c, name) });
            }
            'm' | 'g' => {
                *pos += 1;
                let inner = parse_forms(s, pos)?;
                if *pos >= s.len() || s[*pos] != b'e' {
                    return None;
                }
                *pos += 1;
                out.push(if c == 'm' { Form::Nested(inner) } else { Form::Generated(inner) });
            }
            'o' => {
                *pos += 1;
                out.push(Form::Other);
            }
            _ => break,
        }
    }
    Some(out)
}

fn file_name(n: &str) -> String {
    if n.starts_with('*') {
        n.to_string()
    } else {
        format!("{n}.clib")
    }
}

struct Gen {
    ctr: usize,
    /// calls of top-level helpers to put into the program's main expression
    calls: Vec<String>,
}

impl Gen {
    fn forms(&mut self, fs: &[Form], out: &mut String, top: bool) {
        for f in fs {
            self.ctr += 1;
            let k = self.ctr;
            match f {
                Form::Include(n) => {
                    if n.starts_with('*') {
                        out.push_str(&format!(" (include {n})"));
                    } else if k % 2 == 0 {
                        out.push_str(&format!(" (include \"{}\")", file_name(n)));
                    } else {
                        out.push_str(&format!(" (include {})", file_name(n)));
                    }
                }
                Form::Embed(c, n) => {
                    let kind = match c {
                        'b' => "bin",
                        'h' => "hex",
                        _ => "sexp",
                    };
                    out.push_str(&format!(" (embed-file emb{k} {kind} {}.dat)", n));
                }
                Form::Nested(inner) => {
                    let mut body = String::new();
                    self.forms(inner, &mut body, false);
                    let m = format!("(mod (Y){body} (+ Y {k}))");
                    // the syntactic positions collect_include_forms_bodyform has to look into
                    match k % 3 {
                        0 => out.push_str(&format!(" (defun nest{k} (X) (a {m} (c X ())))")),
                        1 => out.push_str(&format!(" (defun nest{k} (X) (let ((P {m}) (Q {k})) (a P (c X Q))))")),
                        _ => out.push_str(&format!(" (defun nest{k} (X) (lambda ((& X) Z) (a {m} (c Z X))))")),
                    }
                    // every other one is used by the main expression (the rest is dead code)
                    if top && (k / 3) % 2 == 0 {
                        self.calls.push(format!("(nest{k} A)"));
                    }
                }
                Form::Generated(inner) => {
                    let mut body = String::new();
                    self.forms(inner, &mut body, false);
                    out.push_str(&format!(" (defmacro mk{k} () (qq (mod (Y){body} (+ Y {k}))))"));
                    if top {
                        self.calls.push(format!("(a (mk{k}) (c A ()))"));
                    }
                }
                Form::Other => out.push_str(&format!(" (defun fun{k} (X) (+ X {k}))")),
            }
        }
    }
}

fn canon(root: &Path, name: &str) -> String {
    // resolved names are `<root>/d<i>/<file>` (PathBuf::push of the search dir and the name)
    let r = root.to_string_lossy().to_string();
    match name.strip_prefix(&r) {
        Some(rest) => rest.trim_start_matches('/').to_string(),
        None => name.to_string(),
    }
}

fn case_line(l: &str) -> String {
    let parts: Vec<&str> = l.splitn(3, ' ').collect();
    if parts.len() != 3 {
        return "bad-input".to_string();
    }
    let sigil = match parts[0] {
        "c21" => "*standard-cl-21*",
        "c22" => "*standard-cl-22*",
        "c23" => "*standard-cl-23*",
        "s21" => "*strict-cl-21*",
        "cl" => "",
        _ => return "bad-input".to_string(),
    };
    let top = tempfile::Builder::new().prefix("cvh-c18-").tempdir().unwrap();
    let root = top.path().to_path_buf();
    let mut main_text = None;
    let mut ndirs = 0usize;
    for f in parts[2].split(';') {
        let Some((lhs, rhs)) = f.split_once('=') else {
            return "bad-input".to_string();
        };
        let lb = lhs.as_bytes();
        if lb.is_empty() || !lb[0].is_ascii_digit() {
            return "bad-input".to_string();
        }
        let d = (lb[0] - b'0') as usize;
        ndirs = ndirs.max(d + 1);
        let name = &lhs[1..];
        let dir = root.join(format!("d{d}"));
        fs::create_dir_all(&dir).unwrap();
        let rb = rhs.as_bytes();
        if rb.is_empty() {
            return "bad-input".to_string();
        }
        if rb[0] == b'D' {
            if rb.len() < 3 {
                return "bad-input".to_string();
            }
            let data = hex::decode(&rhs[3..]).unwrap_or_default();
            fs::write(dir.join(format!("{name}.dat")), data).unwrap();
        } else {
            let mut pos = 1;
            let Some(forms) = parse_forms(rb, &mut pos) else {
                return "bad-input".to_string();
            };
            if pos != rb.len() {
                return "bad-input".to_string();
            }
            let mut g = Gen { ctr: d * 1000 + name.len() * 37, calls: vec![] };
            let mut body = String::new();
            g.forms(&forms, &mut body, name == "main");
            if name == "main" {
                let sig = if sigil.is_empty() { String::new() } else { format!(" (include {sigil})") };
                let calls: String = g.calls.iter().map(|c| format!(" {c}")).collect();
                main_text = Some(format!("(mod (A){sig}{body} (+ A 1{calls}))"));
            } else {
                fs::write(dir.join(format!("{name}.clib")), format!("({body}\n)")).unwrap();
            }
        }
    }
    let Some(text) = main_text else {
        return "bad-input".to_string();
    };
    for d in 0..ndirs.max(10) {
        let _ = fs::create_dir_all(root.join(format!("d{d}")));
    }
    let search: Vec<String> = parts[1]
        .bytes()
        .filter(|b| b.is_ascii_digit())
        .map(|b| root.join(format!("d{}", b - b'0')).to_string_lossy().to_string())
        .collect();
    let main_path = root.join("d0").join("main.clsp");
    fs::write(&main_path, &text).unwrap();
    let o = observe(&main_path.to_string_lossy(), &search, &text, sigil.is_empty());
    let deps = match &o.deps {
        Ok(l) => format!(
            "deps=ok {}",
            if l.is_empty() { "-".to_string() } else { l.iter().map(|n| canon(&root, n)).collect::<Vec<_>>().join(",") }
        ),
        Err(_) => "deps=err -".to_string(),
    };
    let mut reads: Vec<String> = o
        .reads
        .iter()
        .filter_map(|(_, res)| res.as_ref().ok().map(|full| canon(&root, full)))
        .collect();
    reads.sort();
    reads.dedup();
    // for the oracle: which request resolved to what (first-match check), in call order
    let mut pairs: Vec<String> = o
        .reads
        .iter()
        .map(|(req, res)| match res {
            Ok(full) => format!("{req}>{}", canon(&root, full)),
            Err(()) => format!("{req}>!"),
        })
        .collect();
    pairs.dedup();
    format!(
        "{deps} reads={} {} calls={}",
        if o.compiled.is_ok() { "ok" } else { "err" },
        if reads.is_empty() || o.compiled.is_err() { "-".to_string() } else { reads.join(",") },
        if pairs.is_empty() { "-".to_string() } else { pairs.join(",") }
    )
}

pub fn run(_args: &[String]) {
    each_line(case_line);
}
