// `cvh conv` (C07): rich <-> CLVM conversion, tree hashes, equality / Hash.
//   `v <mode> <hex>`  -> `<rich> <hex back> <compiler sha256tree> <consensus hash> <build_table hash>`
//                        (+ ` !<what>` markers when two implementation hashes that must agree differ)
//   `r <mode> <rich>` -> `<hex> <compiler sha256tree> <consensus hash of converted> <build_table hash> <->`
//   `e <rich> <rich>` -> `<== 0|1> <std Hash equal 0|1> <clvm(fixed) bytes equal 0|1>`
use std::collections::hash_map::DefaultHasher;
use std::collections::HashMap;
use std::hash::{Hash, Hasher};
use std::rc::Rc;

use crate::common::*;
use crate::rich::*;
use chialisp::classic::clvm_tools::sha256tree::sha256tree as classic_sha256tree;
use chialisp::compiler::clvm::{convert_from_clvm_rs, convert_to_clvm_rs, sha256tree, NewStyleIntConversion};
use chialisp::compiler::debug::build_swap_table_mut;
use clvmr::allocator::{Allocator, NodePtr, SExp as CSExp};
use sha2::{Digest, Sha256};

/// consensus tree hash computed directly with sha2 on the clvmr node
pub fn direct_hash(a: &Allocator, n: NodePtr) -> Vec<u8> {
    match a.sexp(n) {
        CSExp::Pair(l, r) => {
            let lh = direct_hash(a, l);
            let rh = direct_hash(a, r);
            let mut h = Sha256::new();
            h.update([2]);
            h.update(&lh);
            h.update(&rh);
            h.finalize().to_vec()
        }
        CSExp::Atom => {
            let mut h = Sha256::new();
            h.update([1]);
            h.update(a.atom(n).as_ref());
            h.finalize().to_vec()
        }
    }
}

fn std_hash(s: &chialisp::compiler::sexp::SExp) -> u64 {
    let mut h = DefaultHasher::new();
    s.hash(&mut h);
    h.finish()
}

pub fn run(_args: &[String]) {
    each_line(|l| {
        let parts: Vec<&str> = l.split_whitespace().collect();
        if parts.len() != 3 {
            return "bad-input".to_string();
        }
        let mut a = Allocator::new();
        match parts[0] {
            "v" => {
                let _mode = NewStyleIntConversion::new(parts[1] == "1");
                let Some(n) = node_of_hex(&mut a, parts[2]) else {
                    return "bad-input".to_string();
                };
                let r = match convert_from_clvm_rs(&mut a, loc(), n) {
                    Ok(r) => r,
                    Err(_) => return "err-from".to_string(),
                };
                let back = match convert_to_clvm_rs(&mut a, r.clone()) {
                    Ok(b) => b,
                    Err(_) => return "err-to".to_string(),
                };
                let h_rich = sha256tree(r.clone());
                let h_cons = direct_hash(&a, n);
                let h_classic = classic_sha256tree(&mut a, n);
                let mut tbl = HashMap::new();
                let h_tbl = build_swap_table_mut(&mut tbl, &r);
                let mut out = format!(
                    "{} {} {} {} {}",
                    rich_string(&r),
                    hex_of_node(&a, back),
                    hex::encode(&h_rich),
                    hex::encode(&h_cons),
                    h_tbl.hex()
                );
                if h_classic.hex() != hex::encode(&h_cons) {
                    out.push_str(" !classic-hash-differs");
                }
                out
            }
            "r" => {
                let _mode = NewStyleIntConversion::new(parts[1] == "1");
                let Some(r) = dec_rich(parts[2]) else {
                    return "bad-input".to_string();
                };
                let r = Rc::new(r);
                let n = match convert_to_clvm_rs(&mut a, r.clone()) {
                    Ok(b) => b,
                    Err(_) => return "err-to".to_string(),
                };
                let h_rich = sha256tree(r.clone());
                let h_cons = direct_hash(&a, n);
                let mut tbl = HashMap::new();
                let h_tbl = build_swap_table_mut(&mut tbl, &r);
                format!(
                    "{} {} {} {}",
                    hex_of_node(&a, n),
                    hex::encode(&h_rich),
                    hex::encode(&h_cons),
                    h_tbl.hex()
                )
            }
            "e" => {
                let _mode = NewStyleIntConversion::new(true);
                let (Some(x), Some(y)) = (dec_rich(parts[1]), dec_rich(parts[2])) else {
                    return "bad-input".to_string();
                };
                let eq = x == y;
                let heq = std_hash(&x) == std_hash(&y);
                let nx = convert_to_clvm_rs(&mut a, Rc::new(x));
                let ny = convert_to_clvm_rs(&mut a, Rc::new(y));
                let beq = match (nx, ny) {
                    (Ok(p), Ok(q)) => hex_of_node(&a, p) == hex_of_node(&a, q),
                    _ => return "err-to".to_string(),
                };
                format!("{} {} {}", eq as u8, heq as u8, beq as u8)
            }
            _ => "bad-input".to_string(),
        }
    });
}
