// `cvh cldb-tree` (C12): the two views of the `cldb` command on one compiled program — the plain row stream
// (`CldbRun::step` loop) and the hierarchical `-t` view (`cmds::cldb_hierarchy`, the function the command calls) —
// next to the consensus evaluator.
//   `<hex of the utf-8 source text> <args, consensus-serialised hex>`
//     -> `P rows=<n> ops=<n> end=<E> | T top=<n> out=<n> ops=<n> end=<E> msg=<hex of what the call printed> | <consensus>`
//        E = `F:<clvm hex of the Final text>` | `X` (Failure) | `T` (Throw) | `none` | `limit`
//        rows = rows of the plain stream; top = entries of the list cldb -t prints; out = `Output` entries anywhere in it;
//        ops = rows carrying an Operator.   `err` when the source does not compile.
// `cldb_hierarchy` prints its run-time error with println!: file descriptor 1 is pointed at a scratch file while the
// library runs, the protocol lines go to a duplicate of the real stdout.
use std::collections::{BTreeMap, HashMap};
use std::fs::File;
use std::io::{BufRead, Read, Seek, SeekFrom, Write};
use std::os::unix::io::{AsRawFd, FromRawFd};
use std::rc::Rc;

use crate::common::*;
use crate::step::{consensus_limited, STEP_LIMIT};
use chialisp::classic::clvm_tools::cmds::{cldb_hierarchy, CldbHierarchyArgs, YamlElement};
use chialisp::classic::clvm_tools::stages::stage_0::{DefaultProgramRunner, TRunProgram};
use chialisp::compiler::cldb::{hex_to_modern_sexp, CldbNoOverride, CldbRun, CldbRunEnv};
use chialisp::compiler::clvm::{convert_to_clvm_rs, start_step};
use chialisp::compiler::compiler::{compile_file, DefaultCompilerOpts};
use chialisp::compiler::comptypes::CompilerOpts;
use chialisp::compiler::prims::prim_map;
use chialisp::compiler::sexp::parse_sexp;
use chialisp::compiler::srcloc::Srcloc;
use clvmr::allocator::Allocator;

fn parse_back(s: &str) -> String {
    match parse_sexp(Srcloc::start("*row*"), s.bytes()) {
        Ok(v) if v.len() == 1 => {
            let mut a = Allocator::new();
            match convert_to_clvm_rs(&mut a, v[0].clone()) {
                Ok(n) => hex_of_node(&a, n),
                Err(_) => "!".to_string(),
            }
        }
        _ => "!".to_string(),
    }
}

#[derive(Default)]
struct TreeSum {
    out: usize,
    ops: usize,
    end: Option<String>,
}

fn end_of_strings(get: &dyn Fn(&str) -> Option<String>) -> Option<String> {
    if let Some(f) = get("Final") {
        return Some(format!("F:{}", parse_back(&f)));
    }
    if get("Failure").is_some() {
        return Some("X".to_string());
    }
    if get("Throw").is_some() {
        return Some("T".to_string());
    }
    None
}

fn walk_map(m: &BTreeMap<String, YamlElement>, acc: &mut TreeSum) {
    let get = |k: &str| match m.get(k) {
        Some(YamlElement::String(s)) => Some(s.clone()),
        _ => None,
    };
    if let Some(e) = end_of_strings(&get) {
        acc.end = Some(e);
    }
    if m.contains_key("Operator") {
        acc.ops += 1;
    }
    for (k, v) in m.iter() {
        if k == "Output" {
            acc.out += 1;
        }
        if k == "Function-Args" {
            continue;
        }
        walk(v, acc);
    }
}

fn walk(y: &YamlElement, acc: &mut TreeSum) {
    match y {
        YamlElement::String(_) => {}
        YamlElement::Array(v) => {
            for x in v.iter() {
                walk(x, acc);
            }
        }
        YamlElement::Subtree(m) => walk_map(m, acc),
    }
}

pub fn run(_args: &[String]) {
    // protocol output goes to a duplicate of stdout; fd 1 itself collects what the library prints
    std::io::stdout().flush().ok();
    let saved = unsafe { libc::dup(1) };
    let mut scratch = tempfile::tempfile().expect("scratch file");
    unsafe {
        libc::dup2(scratch.as_raw_fd(), 1);
    }
    let mut out = unsafe { File::from_raw_fd(saved) };
    std::panic::set_hook(Box::new(|_| {}));
    let stdin = std::io::stdin();
    for line in stdin.lock().lines() {
        let line = line.unwrap();
        let r = std::panic::catch_unwind(std::panic::AssertUnwindSafe(|| one(line.trim(), &mut scratch)));
        match r {
            Ok(s) => writeln!(out, "{s}").unwrap(),
            Err(_) => writeln!(out, "panic").unwrap(),
        }
    }
    out.flush().unwrap();
}

fn take_printed(scratch: &mut File) -> String {
    std::io::stdout().flush().ok();
    let mut s = String::new();
    scratch.seek(SeekFrom::Start(0)).ok();
    scratch.read_to_string(&mut s).ok();
    scratch.set_len(0).ok();
    scratch.seek(SeekFrom::Start(0)).ok();
    s
}

fn one(l: &str, scratch: &mut File) -> String {
    let parts: Vec<&str> = l.split_whitespace().collect();
    if parts.len() != 2 {
        return "bad-input".to_string();
    }
    let Ok(bytes) = hex::decode(parts[0]) else {
        return "bad-input".to_string();
    };
    let Ok(src) = String::from_utf8(bytes) else {
        return "bad-input".to_string();
    };
    let mut a = Allocator::new();
    let runner: Rc<dyn TRunProgram> = Rc::new(DefaultProgramRunner::new());
    let opts: Rc<dyn CompilerOpts> = Rc::new(DefaultCompilerOpts::new("*verif*"));
    let mut syms: HashMap<String, String> = HashMap::new();
    let prog = match compile_file(&mut a, runner.clone(), opts, &src, &mut syms) {
        Ok(r) => Rc::new(r),
        Err(_) => return "err".to_string(),
    };
    let Ok(env) = hex_to_modern_sexp(&mut a, &HashMap::new(), Srcloc::start("*args*"), parts[1]) else {
        return "bad-input".to_string();
    };
    let mut a2 = Allocator::new();
    let right = match (convert_to_clvm_rs(&mut a2, prog.clone()), convert_to_clvm_rs(&mut a2, env.clone())) {
        (Ok(pn), Ok(en)) => consensus_limited(&mut a2, pn, en),
        _ => "fail".to_string(),
    };
    let lines: Rc<Vec<String>> = Rc::new(src.lines().map(|x| x.to_string()).collect());

    // plain view
    let cenv = CldbRunEnv::new(None, lines.clone(), Box::new(CldbNoOverride::new_symbols(syms.clone())));
    let mut cldbrun = CldbRun::new(runner.clone(), prim_map(), Box::new(cenv), start_step(prog.clone(), env.clone()));
    let (mut rows, mut ops, mut steps) = (0usize, 0usize, 0usize);
    let mut pend = "none".to_string();
    loop {
        if cldbrun.is_ended() {
            break;
        }
        if steps >= STEP_LIMIT {
            pend = "limit".to_string();
            break;
        }
        steps += 1;
        if let Some(row) = cldbrun.step(&mut a) {
            rows += 1;
            if row.contains_key("Operator") {
                ops += 1;
            }
            let get = |k: &str| row.get(k).cloned();
            if let Some(e) = end_of_strings(&get) {
                pend = e;
            }
        }
    }
    if pend == "limit" {
        return format!("P rows={rows} ops={ops} end=limit | T skipped | {right}");
    }

    // hierarchical view: the function `cldb -t` calls
    take_printed(scratch);
    let result = cldb_hierarchy(CldbHierarchyArgs {
        runner,
        prim_map: prim_map(),
        input_file_name: None,
        lines,
        symbol_table: Rc::new(syms),
        prog,
        args: env,
        flags: 0,
    });
    let printed = take_printed(scratch);
    let mut sum = TreeSum::default();
    for m in result.iter() {
        walk_map(m, &mut sum);
    }
    format!(
        "P rows={rows} ops={ops} end={pend} | T top={} out={} ops={} end={} msg={} | {right}",
        result.len(),
        sum.out,
        sum.ops,
        sum.end.unwrap_or_else(|| "none".to_string()),
        hex::encode(printed.trim().as_bytes())
    )
}
