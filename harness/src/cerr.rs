// `cvh cerr <include dir>...` (C15, compiler-error clause): where do compiler errors point?
//   `e <hex source>`  -> the dialect is detected from the source exactly as
//                        `compile_clvm_text` does; then `compile_file` with the library's
//                        option derivation.  result:
//                        `ok` | `classic` | `unreadable` |
//                        `err <hex file name> <line>,<col>,<until> <hex message>`
//   `pseudo`          -> built-in pseudo-files: `<hex name>=<hex content>,...`
//                        (`*macros*` twice: the standard and the strict text)
use std::borrow::Borrow;
use std::collections::HashMap;
use std::rc::Rc;

use crate::common::*;
use crate::reader::hex_arg;
use chialisp::classic::clvm_tools::binutils::assemble_from_ir;
use chialisp::classic::clvm_tools::ir::reader::read_ir;
use chialisp::classic::clvm_tools::stages::stage_0::DefaultProgramRunner;
use chialisp::compiler::compiler::{
    compile_file, DefaultCompilerOpts, ADVANCED_MACROS, STANDARD_MACROS,
};
use chialisp::compiler::comptypes::{CompileErr, CompilerOpts};
use chialisp::compiler::dialect::{detect_modern, KNOWN_DIALECTS};
use clvmr::allocator::Allocator;

pub const INPUT_NAME: &str = "*verif-input*";

fn compile(dirs: &[String], src: &str) -> String {
    let mut a = Allocator::new();
    let Ok(ir) = read_ir(src) else {
        return "unreadable".to_string();
    };
    let Ok(assembled) = assemble_from_ir(&mut a, Rc::new(ir)) else {
        return "unreadable".to_string();
    };
    let dialect = detect_modern(&mut a, assembled);
    let Some(stepping) = dialect.stepping else {
        return "classic".to_string();
    };
    let runner = Rc::new(DefaultProgramRunner::new());
    let opts: Rc<dyn CompilerOpts> = Rc::new(DefaultCompilerOpts::new(INPUT_NAME));
    let opts = opts
        .set_search_paths(dirs)
        .set_dialect(dialect)
        .set_optimize(true)
        .set_frontend_opt(stepping == 22);
    let mut syms = HashMap::new();
    match compile_file(&mut a, runner, opts, src, &mut syms) {
        Ok(_) => "ok".to_string(),
        Err(CompileErr(l, m)) => {
            let f: &String = l.file.borrow();
            let u = match &l.until {
                None => "-".to_string(),
                Some(u) => format!("{},{}", u.line, u.col),
            };
            format!(
                "err {} {},{},{} {}",
                hex::encode(f.as_bytes()),
                l.line,
                l.col,
                u,
                hex::encode(m.as_bytes())
            )
        }
    }
}

pub fn run(args: &[String]) {
    let dirs: Vec<String> = args.to_vec();
    each_line(|l| {
        let parts: Vec<&str> = l.split_whitespace().collect();
        match (parts.first().copied(), parts.len()) {
            (Some("e"), 2) => {
                let Some(t) = hex_arg(parts[1]) else {
                    return "bad-input".to_string();
                };
                let Ok(src) = String::from_utf8(t) else {
                    return "bad-input".to_string();
                };
                compile(&dirs, &src)
            }
            (Some("pseudo"), 1) => {
                let mut v: Vec<String> = Vec::new();
                v.push(format!(
                    "{}={}",
                    hex::encode("*macros*"),
                    hex::encode(STANDARD_MACROS.as_bytes())
                ));
                v.push(format!(
                    "{}={}",
                    hex::encode("*macros*"),
                    hex::encode(ADVANCED_MACROS.as_bytes())
                ));
                let mut names: Vec<&String> = KNOWN_DIALECTS.keys().collect();
                names.sort();
                for n in names {
                    v.push(format!(
                        "{}={}",
                        hex::encode(n.as_bytes()),
                        hex::encode(KNOWN_DIALECTS[n].content.as_bytes())
                    ));
                }
                v.join(",")
            }
            _ => "bad-input".to_string(),
        }
    });
}
