// `cvh purity` (C05): the same compilation repeated under different process histories.
//
//   `u <threads> <seed> <path> <incdir>*`
//       compiles the file (library entry `compile_clvm_text`, include dirs as given) as
//         base       counter 0, ambient mode as in a fresh process
//         ctr:<v>    after ARGNAME_CTR.store(v)                       (several v)
//         mode:0/1   while the caller holds NewStyleIntConversion::new(false/true)
//         hist       after a history of other compilations (other dialects, classic, failing
//                    ones; order drawn from <seed>), counter left where the history put it
//         hist0      after such a history, counter put back to 0 (nothing else may be remembered)
//         thr:<i>    on <threads> threads at once (shared counter, fresh per-thread hash seeds and
//                    conversion-mode cells), while another thread compiles other programs
//       -> `dialect=<..> base=<hex>|<symbols> <variant>=same|<hex>|<symbols> ...`
//       <symbols> = the user-visible symbol entries, canonical (sorted `key=value`, hex encoded)
//   `b <path> <incdir>*`  -> `base=<hex>|<symbols>` only (run in several fresh processes: fresh hash seeds)
//   `s <path> <incdir>*`  -> raw sorted symbol table (diagnosis)
use std::collections::HashMap;
use std::rc::Rc;
use std::sync::atomic::Ordering;

use crate::common::*;
use chialisp::classic::clvm_tools::binutils::assemble;
use chialisp::classic::clvm_tools::clvmc::compile_clvm_text;
use chialisp::compiler::clvm::NewStyleIntConversion;
use chialisp::compiler::compiler::DefaultCompilerOpts;
use chialisp::compiler::comptypes::CompilerOpts;
use chialisp::compiler::dialect::detect_modern;
use chialisp::compiler::gensym::ARGNAME_CTR;
use clvmr::allocator::Allocator;

const HISTORY: &[&str] = &[
    "(mod (X) (include *standard-cl-21*) (defun F (A) (let ((B (+ A 1))) (* B B))) (F X))",
    "(mod (X Y) (include *standard-cl-22*) (defun-inline sq (A) (* A A)) (defun g (P Q) (let ((R (+ P Q))) (if (> R 10) (sq R) (list P Q R)))) (g X Y))",
    "(mod (X) (include *standard-cl-23*) (defun F (A) (assign B (+ A 1) C (* B 2) (list B C))) (F X))",
    "(mod (X) (include *standard-cl-23.1*) (defconstant K 0x00) (list K X))",
    "(mod (X) (include *standard-cl-24*) (defun F (A) (a (lambda ((& A) Q) (+ A Q)) (list 3))) (F X))",
    "(mod (X) (defun F (A) (if A (F (r A)) 99)) (F X))",
    "(mod (X) (include *strict-cl-21*) (defun F (A) (+ A NOT_BOUND_ANYWHERE)) (F X))",
    "(mod (X) (include *standard-cl-23*) (defun F (A) (+ A NOT_BOUND_ANYWHERE)) (F X))",
    "(mod (X) (include *standard-cl-21*) (include nowhere-to-be-found.clib) X)",
    "(mod (X) (include *standard-cl-23*) (defun F (A (+ A 1)) (F X)",
    "(mod (X) (defmacro M (A) (qq (+ 1 (unquote A)))) (M (M X)))",
];

fn base_opts(name: &str, sp: &[String]) -> Rc<dyn CompilerOpts> {
    Rc::new(DefaultCompilerOpts::new(name)).set_search_paths(sp)
}

/// user-visible symbol entries, canonical. Generated names (`…_$_<n>`) are not user visible: an
/// entry whose VALUE is such a name (a synthetic function) is dropped together with the
/// `<hash>_arguments` / `<hash>_left_env` entries of the same hash; inside other values the
/// counter suffix is blanked (renamed parameters of user functions).
fn symbols_canon(st: &HashMap<String, String>) -> String {
    let gen = |v: &str| -> bool {
        if let Some(i) = v.rfind("_$_") {
            let tail = &v[i + 3..];
            !tail.is_empty() && tail.bytes().all(|c| c.is_ascii_digit())
        } else {
            false
        }
    };
    let mut dropped: Vec<String> = Vec::new();
    for (k, v) in st.iter() {
        if gen(v) {
            dropped.push(k.clone());
        }
    }
    let blank = |v: &str| -> String {
        // replace `_$_<digits>` by `_$_#`
        let b = v.as_bytes();
        let mut out = String::new();
        let mut i = 0;
        while i < b.len() {
            if b[i..].starts_with(b"_$_") {
                let mut j = i + 3;
                while j < b.len() && b[j].is_ascii_digit() {
                    j += 1;
                }
                if j > i + 3 {
                    out.push_str("_$_#");
                    i = j;
                    continue;
                }
            }
            out.push(b[i] as char);
            i += 1;
        }
        out
    };
    let mut v: Vec<String> = Vec::new();
    for (k, val) in st.iter() {
        if dropped.iter().any(|d| k == d || k.starts_with(&format!("{d}_"))) {
            continue;
        }
        v.push(format!("{k}={}", blank(val)));
    }
    v.sort();
    hex::encode(v.join("\n"))
}

fn compile_once(text: &str, path: &str, sp: &[String]) -> String {
    let mut a = Allocator::new();
    let mut st = HashMap::new();
    match compile_clvm_text(&mut a, base_opts(path, sp), &mut st, text, path, false) {
        Ok(n) => format!("{}|{}", hex_of_node(&a, n), symbols_canon(&st)),
        Err(e) => format!("E:{}|", hex::encode(e.format(&a, base_opts(path, sp)))),
    }
}

struct Lcg(u64);
impl Lcg {
    fn next(&mut self) -> u64 {
        self.0 = self.0.wrapping_mul(6364136223846793005).wrapping_add(1442695040888963407);
        self.0 >> 33
    }
}

fn run_history(rng: &mut Lcg, n: usize) {
    for _ in 0..n {
        let h = HISTORY[(rng.next() as usize) % HISTORY.len()];
        let mut a = Allocator::new();
        let mut st = HashMap::new();
        let _ = std::panic::catch_unwind(std::panic::AssertUnwindSafe(|| {
            let _ = compile_clvm_text(&mut a, base_opts("*history*", &[]), &mut st, h, "*history*", false);
        }));
    }
}

fn u_line(parts: &[&str]) -> String {
    if parts.len() < 4 {
        return "bad-input".to_string();
    }
    let threads: usize = parts[1].parse().unwrap_or(2);
    let seed: u64 = parts[2].parse().unwrap_or(1);
    let path = parts[3].to_string();
    let sp: Vec<String> = parts[4..].iter().map(|s| s.to_string()).collect();
    let Ok(text) = std::fs::read_to_string(&path) else {
        return "unreadable".to_string();
    };
    let mut out: Vec<String> = Vec::new();
    {
        let mut a = Allocator::new();
        let d = match assemble(&mut a, &text) {
            Ok(n) => {
                let d = detect_modern(&mut a, n);
                format!("{}:{}:{}", d.stepping.map(|s| s.to_string()).unwrap_or_else(|| "-".into()), d.strict as u8, d.int_fix as u8)
            }
            Err(_) => "unassemblable".to_string(),
        };
        out.push(format!("dialect={d}"));
    }
    ARGNAME_CTR.store(0, Ordering::SeqCst);
    let base = compile_once(&text, &path, &sp);
    out.push(format!("base={base}"));
    let mut push = |name: String, r: String| {
        if r == base {
            out.push(format!("{name}=same"));
        } else {
            out.push(format!("{name}={r}"));
        }
    };
    // the counter
    for v in [1usize, 54, 4294967295] {
        ARGNAME_CTR.store(v, Ordering::SeqCst);
        push(format!("ctr:{v}"), compile_once(&text, &path, &sp));
    }
    // the ambient conversion mode
    for m in [false, true] {
        ARGNAME_CTR.store(0, Ordering::SeqCst);
        let _g = NewStyleIntConversion::new(m);
        push(format!("mode:{}", m as u8), compile_once(&text, &path, &sp));
    }
    // histories
    let mut rng = Lcg(seed);
    ARGNAME_CTR.store(0, Ordering::SeqCst);
    run_history(&mut rng, 3);
    push("hist".to_string(), compile_once(&text, &path, &sp));
    run_history(&mut rng, 3);
    ARGNAME_CTR.store(0, Ordering::SeqCst);
    push("hist0".to_string(), compile_once(&text, &path, &sp));
    // threads
    ARGNAME_CTR.store(0, Ordering::SeqCst);
    let noise = {
        let s = seed;
        std::thread::spawn(move || {
            let mut r = Lcg(s ^ 0x9e3779b97f4a7c15);
            run_history(&mut r, 3);
        })
    };
    let mut hs = Vec::new();
    for _ in 0..threads {
        let (t, p, s) = (text.clone(), path.clone(), sp.clone());
        hs.push(
            std::thread::Builder::new()
                .stack_size(64 * 1024 * 1024)
                .spawn(move || compile_once(&t, &p, &s))
                .unwrap(),
        );
    }
    for (i, h) in hs.into_iter().enumerate() {
        let r = h.join().unwrap_or_else(|_| "panic".to_string());
        push(format!("thr:{i}"), r);
    }
    let _ = noise.join();
    out.join(" ")
}

// ---- the guard, driven by the same little programs as the Lean model (Sys/Purity.lean `Code`) ----

enum Code {
    Skip,
    Observe,
    StopErr,
    StopEarly,
    StopUnwind,
    Seq(Box<Code>, Box<Code>),
    Guarded(bool, Box<Code>),
}

fn parse_code(b: &[u8], i: &mut usize) -> Option<Code> {
    let c = *b.get(*i)?;
    *i += 1;
    Some(match c {
        b'K' => Code::Skip,
        b'O' => Code::Observe,
        b'E' => Code::StopErr,
        b'R' => Code::StopEarly,
        b'P' => Code::StopUnwind,
        b';' => {
            let a = parse_code(b, i)?;
            let c2 = parse_code(b, i)?;
            Code::Seq(Box::new(a), Box::new(c2))
        }
        b'G' => {
            let v = *b.get(*i)? == b'1';
            *i += 1;
            Code::Guarded(v, Box::new(parse_code(b, i)?))
        }
        _ => return None,
    })
}

/// `NewStyleIntConversion::setting()` is private: observe it through what it controls
/// (`convert_to_clvm_rs` maps Integer 0 to nil exactly in the new mode).
fn observe_mode() -> bool {
    let mut a = Allocator::new();
    let zero = Rc::new(chialisp::compiler::sexp::SExp::Integer(
        chialisp::compiler::srcloc::Srcloc::start("*g*"),
        num_bigint::BigInt::from(0),
    ));
    match chialisp::compiler::clvm::convert_to_clvm_rs(&mut a, zero) {
        Ok(n) => a.atom_len(n) == 0,
        Err(_) => false,
    }
}

enum Flow {
    Normal,
    Early,
}

fn fail() -> Result<Flow, ()> {
    Err(())
}

fn interp(c: &Code, seen: &std::cell::RefCell<Vec<bool>>) -> Result<Flow, ()> {
    match c {
        Code::Skip => Ok(Flow::Normal),
        Code::Observe => {
            seen.borrow_mut().push(observe_mode());
            Ok(Flow::Normal)
        }
        Code::StopErr => {
            fail()?;
            Ok(Flow::Normal)
        }
        Code::StopEarly => Ok(Flow::Early),
        Code::StopUnwind => panic!("unwind"),
        Code::Seq(a, b) => {
            if let Flow::Early = interp(a, seen)? {
                return Ok(Flow::Early);
            }
            interp(b, seen)
        }
        Code::Guarded(v, body) => {
            let _g = NewStyleIntConversion::new(*v);
            interp(body, seen)
        }
    }
}

fn g_line(parts: &[&str]) -> String {
    if parts.len() != 3 {
        return "bad-input".to_string();
    }
    let mut i = 0;
    let Some(code) = parse_code(parts[2].as_bytes(), &mut i) else {
        return "bad-input".to_string();
    };
    if i != parts[2].len() {
        return "bad-input".to_string();
    }
    let _outer = NewStyleIntConversion::new(parts[1] == "1");
    let seen = std::cell::RefCell::new(Vec::new());
    let r = std::panic::catch_unwind(std::panic::AssertUnwindSafe(|| interp(&code, &seen)));
    let outcome = match r {
        Ok(Ok(Flow::Normal)) => "ok",
        Ok(Ok(Flow::Early)) => "early",
        Ok(Err(())) => "err",
        Err(_) => "unwind",
    };
    let after = observe_mode();
    let bits: String = seen.borrow().iter().map(|b| if *b { '1' } else { '0' }).collect();
    format!("{} {} {}", after as u8, outcome, bits)
}

pub fn run(_args: &[String]) {
    // the same roomy stack for every variant (deep programs; a crash there is C14's subject)
    let h = std::thread::Builder::new().stack_size(1 << 30).spawn(run_lines).unwrap();
    if h.join().is_err() {
        std::process::exit(101);
    }
}

fn run_lines() {
    each_line(|l| {
        let parts: Vec<&str> = l.split_whitespace().collect();
        if parts.is_empty() {
            return "bad-input".to_string();
        }
        match parts[0] {
            "u" => u_line(&parts),
            "g" => g_line(&parts),
            "y" => {
                // `y <name hex> <counter>` -> gensym's name and the counter afterwards
                if parts.len() != 3 {
                    return "bad-input".to_string();
                }
                let (Ok(name), Ok(ctr)) = (hex::decode(parts[1]), parts[2].parse::<usize>()) else {
                    return "bad-input".to_string();
                };
                ARGNAME_CTR.store(ctr, Ordering::SeqCst);
                let n = chialisp::compiler::gensym::gensym(name);
                format!("{} {}", hex::encode(n), ARGNAME_CTR.load(Ordering::SeqCst))
            }
            "b" => {
                // base only (a fresh process = fresh hash seeds): `b <path> <incdir>*`
                if parts.len() < 2 {
                    return "bad-input".to_string();
                }
                let sp: Vec<String> = parts[2..].iter().map(|s| s.to_string()).collect();
                let Ok(text) = std::fs::read_to_string(parts[1]) else {
                    return "unreadable".to_string();
                };
                ARGNAME_CTR.store(0, Ordering::SeqCst);
                format!("base={}", compile_once(&text, parts[1], &sp))
            }
            "s" => {
                if parts.len() < 2 {
                    return "bad-input".to_string();
                }
                let sp: Vec<String> = parts[2..].iter().map(|s| s.to_string()).collect();
                let Ok(text) = std::fs::read_to_string(parts[1]) else {
                    return "unreadable".to_string();
                };
                let mut a = Allocator::new();
                let mut st = HashMap::new();
                ARGNAME_CTR.store(0, Ordering::SeqCst);
                let r = compile_clvm_text(&mut a, base_opts(parts[1], &sp), &mut st, &text, parts[1], false);
                let mut v: Vec<String> = st.iter().map(|(k, v)| format!("{k}={v}")).collect();
                v.sort();
                format!("{} {}", r.is_ok(), v.join(" ;; ").replace('\n', " "))
            }
            _ => "bad-input".to_string(),
        }
    });
}
