// `cvh tables` (C20): the runtime operator tables and one-operator programs.
//
//   `dump`                       -> one JSON object: keyword_from_atom(v) / keyword_to_atom(v) for v = 0..3
//                                   (sorted), prims() in order, prim_map() sorted, OPERATORS_LATEST_VERSION
//   `op <name hex> <args hex>`   -> what every part of the tools makes of the operator NAME applied to the
//                                   argument values (a CLVM list, consensus hex):
//        asm=<atom the classic assembler reads NAME as>  prim=<atom of prim_map()[NAME] | ->
//        dis0..dis3=<hex of the text disassemble((atom), version) prints>
//        cc=<classic compile of (mod (A0..) (NAME A0..))>  mc=<modern compile, *standard-cl-21*>
//        ref=<clvmr ChiaDialect, all operators enabled, on (atom (q . a0) ..)>
//        r0 r1 r2 rd=<DefaultProgramRunner with operators_version 0,1,2 / default on the same program>
//        st=<stepping evaluator compiler::clvm::run on the same program>
//        rcc rmc=<compiled programs run on the argument list by the default runner>
//      outcomes are `ok:<hex>`, `unimpl` (unknown operator), `err`
//   `scan <version|d|s> <atom hex>` -> outcome of (atom (q . 1) (q . 2)) under DefaultProgramRunner(version),
//                                   the default runner (d) or the stepping evaluator (s)
use std::collections::HashMap;
use std::rc::Rc;

use crate::common::*;
use crate::rich::loc;
use chialisp::classic::clvm::{keyword_from_atom, keyword_to_atom, OPERATORS_LATEST_VERSION};
use chialisp::classic::clvm_tools::binutils::{assemble, disassemble};
use chialisp::classic::clvm_tools::clvmc::compile_clvm_text;
use chialisp::classic::clvm_tools::stages::stage_0::{DefaultProgramRunner, RunProgramOption, TRunProgram};
use chialisp::compiler::clvm::{convert_from_clvm_rs, convert_to_clvm_rs, run as step_run};
use chialisp::compiler::compiler::DefaultCompilerOpts;
use chialisp::compiler::comptypes::CompilerOpts;
use chialisp::compiler::prims::{prim_map, prims};
use chialisp::compiler::sexp::SExp;
use clvmr::allocator::{Allocator, NodePtr};
use clvmr::chia_dialect::{ChiaDialect, ENABLE_KECCAK_OPS_OUTSIDE_GUARD, NO_UNKNOWN_OPS};
use clvmr::reduction::Response;
use clvmr::run_program::run_program;

fn outcome(a: &Allocator, r: Response) -> String {
    match r {
        Ok(red) => format!("ok:{}", hex_of_node(a, red.1)),
        Err(e) => {
            if e.to_string().contains("unimplemented operator") {
                "unimpl".to_string()
            } else {
                "err".to_string()
            }
        }
    }
}

fn sexp_int(s: &SExp) -> String {
    match s {
        SExp::Integer(_, i) => i.to_string(),
        other => format!("?{other}"),
    }
}

fn dump() -> String {
    let mut from = serde_json::Map::new();
    let mut to = serde_json::Map::new();
    for v in 0..4usize {
        let mut f: Vec<(String, String)> = keyword_from_atom(v)
            .iter()
            .map(|(k, n)| (hex::encode(k), hex::encode(n.as_bytes())))
            .collect();
        f.sort();
        from.insert(v.to_string(), serde_json::json!(f));
        let mut t: Vec<(String, String)> = keyword_to_atom(v)
            .iter()
            .map(|(n, k)| (hex::encode(n.as_bytes()), hex::encode(k)))
            .collect();
        t.sort();
        to.insert(v.to_string(), serde_json::json!(t));
    }
    let p: Vec<(String, String)> = prims().iter().map(|(n, s)| (hex::encode(n), sexp_int(s))).collect();
    let mut pm: Vec<(String, String)> = prim_map().iter().map(|(n, s)| (hex::encode(n), sexp_int(s))).collect();
    pm.sort();
    serde_json::json!({"latest": OPERATORS_LATEST_VERSION, "from": from, "to": to, "prims": p, "prim_map": pm}).to_string()
}

fn list_items(a: &Allocator, mut n: NodePtr) -> Vec<NodePtr> {
    let mut out = Vec::new();
    while let clvmr::allocator::SExp::Pair(f, r) = a.sexp(n) {
        out.push(f);
        n = r;
    }
    out
}

fn quoted_call(a: &mut Allocator, op: NodePtr, args: &[NodePtr]) -> NodePtr {
    let mut tail = NodePtr::NIL;
    for x in args.iter().rev() {
        let one = a.one();
        let q = a.new_pair(one, *x).unwrap();
        tail = a.new_pair(q, tail).unwrap();
    }
    a.new_pair(op, tail).unwrap()
}

fn run_version(a: &mut Allocator, prog: NodePtr, env: NodePtr, v: Option<usize>) -> String {
    let runner = DefaultProgramRunner::new();
    let opt = v.map(|v| RunProgramOption {
        operators_version: v,
        ..RunProgramOption::default()
    });
    let r = runner.run_program(a, prog, env, opt);
    outcome(a, r)
}

fn run_stepper(a: &mut Allocator, prog: NodePtr, env: NodePtr) -> String {
    let p = match convert_from_clvm_rs(a, loc(), prog) {
        Ok(p) => p,
        Err(_) => return "err-conv".to_string(),
    };
    let e = match convert_from_clvm_rs(a, loc(), env) {
        Ok(p) => p,
        Err(_) => return "err-conv".to_string(),
    };
    let runner: Rc<dyn TRunProgram> = Rc::new(DefaultProgramRunner::new());
    match step_run(a, runner, prim_map(), p, e, None, Some(100000)) {
        Ok(v) => match convert_to_clvm_rs(a, v) {
            Ok(n) => format!("ok:{}", hex_of_node(a, n)),
            Err(_) => "err-conv".to_string(),
        },
        Err(e) => {
            let msg = match e {
                chialisp::compiler::runtypes::RunFailure::RunErr(_, m) => m,
                chialisp::compiler::runtypes::RunFailure::RunExn(_, _) => "raise".to_string(),
            };
            if std::env::var("CVH_DEBUG").is_ok() {
                eprintln!("stepper error: {msg}");
            }
            if msg.contains("unimplemented operator") {
                "unimpl".to_string()
            } else {
                "err".to_string()
            }
        }
    }
}

fn compile(a: &mut Allocator, text: &str) -> Option<NodePtr> {
    let opts: Rc<dyn CompilerOpts> = Rc::new(DefaultCompilerOpts::new("*verif*"));
    let mut syms = HashMap::new();
    compile_clvm_text(a, opts, &mut syms, text, "*verif*", false).ok()
}

pub fn run(_args: &[String]) {
    each_line(|l| {
        let parts: Vec<&str> = l.split_whitespace().collect();
        let mut a = Allocator::new();
        match parts.as_slice() {
            ["dump"] => dump(),
            ["op", name_hex, args_hex] => {
                let Ok(name_b) = hex::decode(name_hex) else {
                    return "bad-input".to_string();
                };
                let Ok(name) = String::from_utf8(name_b.clone()) else {
                    return "bad-input".to_string();
                };
                let Some(args) = node_of_hex(&mut a, args_hex) else {
                    return "bad-input".to_string();
                };
                let argv = list_items(&a, args);
                let mut out: Vec<String> = Vec::new();
                let asm = match assemble(&mut a, &name) {
                    Ok(n) => n,
                    Err(_) => return "asm=err".to_string(),
                };
                out.push(format!("asm={}", hex::encode(a.atom(asm).as_ref())));
                let prim = prim_map().get(&name_b).map(|s| match s.as_ref() {
                    SExp::Integer(_, _) => match convert_to_clvm_rs(&mut a, s.clone()) {
                        Ok(n) => hex::encode(a.atom(n).as_ref()),
                        Err(_) => "err".to_string(),
                    },
                    _ => "notint".to_string(),
                });
                out.push(format!("prim={}", prim.unwrap_or_else(|| "-".to_string())));
                let as_list = a.new_pair(asm, NodePtr::NIL).unwrap();
                for v in 0..4usize {
                    out.push(format!("dis{v}={}", hex::encode(disassemble(&a, as_list, Some(v)).as_bytes())));
                }
                let params: Vec<String> = (0..argv.len()).map(|i| format!("A{i}")).collect();
                let ps = params.join(" ");
                let ctext = format!("(mod ({ps}) ({name} {ps}))");
                let mtext = format!("(mod ({ps}) (include *standard-cl-21*) ({name} {ps}))");
                let cc = compile(&mut a, &ctext);
                let mc = compile(&mut a, &mtext);
                out.push(format!("cc={}", cc.map(|n| hex_of_node(&a, n)).unwrap_or_else(|| "err".to_string())));
                out.push(format!("mc={}", mc.map(|n| hex_of_node(&a, n)).unwrap_or_else(|| "err".to_string())));
                let prog = quoted_call(&mut a, asm, &argv);
                out.push(format!("prog={}", hex_of_node(&a, prog)));
                let d = ChiaDialect::new(NO_UNKNOWN_OPS | ENABLE_KECCAK_OPS_OUTSIDE_GUARD);
                let r = run_program(&mut a, &d, prog, NodePtr::NIL, 0);
                out.push(format!("ref={}", outcome(&a, r)));
                for v in 0..3usize {
                    out.push(format!("r{v}={}", run_version(&mut a, prog, NodePtr::NIL, Some(v))));
                }
                out.push(format!("rd={}", run_version(&mut a, prog, NodePtr::NIL, None)));
                out.push(format!("st={}", run_stepper(&mut a, prog, NodePtr::NIL)));
                out.push(format!(
                    "rcc={}",
                    cc.map(|n| run_version(&mut a, n, args, None)).unwrap_or_else(|| "-".to_string())
                ));
                out.push(format!(
                    "rmc={}",
                    mc.map(|n| run_version(&mut a, n, args, None)).unwrap_or_else(|| "-".to_string())
                ));
                out.join(" ")
            }
            ["from", v, atom] => {
                let (Ok(v), Some(h)) = (v.parse::<usize>(), atom.strip_prefix('x')) else {
                    return "bad-input".to_string();
                };
                let Ok(b) = hex::decode(h) else {
                    return "bad-input".to_string();
                };
                match keyword_from_atom(v).get(&b) {
                    Some(n) => format!("x{}", hex::encode(n.as_bytes())),
                    None => "-".to_string(),
                }
            }
            ["to", v, name] => {
                let (Ok(v), Some(h)) = (v.parse::<usize>(), name.strip_prefix('x')) else {
                    return "bad-input".to_string();
                };
                let Ok(b) = hex::decode(h) else {
                    return "bad-input".to_string();
                };
                let Ok(n) = String::from_utf8(b) else {
                    return "-".to_string();
                };
                match keyword_to_atom(v).get(&n) {
                    Some(k) => format!("x{}", hex::encode(k)),
                    None => "-".to_string(),
                }
            }
            ["dis", v, atom] => {
                // the text disassemble prints for (atom) between the parentheses
                let (Ok(v), Some(h)) = (v.parse::<usize>(), atom.strip_prefix('x')) else {
                    return "bad-input".to_string();
                };
                let Ok(b) = hex::decode(h) else {
                    return "bad-input".to_string();
                };
                let op = a.new_atom(&b).unwrap();
                let l = a.new_pair(op, NodePtr::NIL).unwrap();
                let t = disassemble(&a, l, Some(v));
                let inner = t.trim_start_matches('(').trim_end_matches(')');
                format!("x{}", hex::encode(inner.as_bytes()))
            }
            ["prim", name] => {
                let Some(h) = name.strip_prefix('x') else {
                    return "bad-input".to_string();
                };
                let Ok(b) = hex::decode(h) else {
                    return "bad-input".to_string();
                };
                match prim_map().get(&b) {
                    Some(s) => match convert_to_clvm_rs(&mut a, s.clone()) {
                        Ok(n) => format!("x{}", hex::encode(a.atom(n).as_ref())),
                        Err(_) => "err".to_string(),
                    },
                    None => "-".to_string(),
                }
            }
            ["impl", v, atom] => {
                let (Ok(v), Some(h)) = (v.parse::<usize>(), atom.strip_prefix('x')) else {
                    return "bad-input".to_string();
                };
                let Ok(b) = hex::decode(h) else {
                    return "bad-input".to_string();
                };
                let op = a.new_atom(&b).unwrap();
                let one = a.new_atom(&[1]).unwrap();
                let two = a.new_atom(&[2]).unwrap();
                let prog = quoted_call(&mut a, op, &[one, two]);
                let o = run_version(&mut a, prog, NodePtr::NIL, Some(v));
                (if o == "unimpl" { "0" } else { "1" }).to_string()
            }
            ["stepimpl", atom] => {
                let Some(h) = atom.strip_prefix('x') else {
                    return "bad-input".to_string();
                };
                let Ok(b) = hex::decode(h) else {
                    return "bad-input".to_string();
                };
                let op = a.new_atom(&b).unwrap();
                let one = a.new_atom(&[1]).unwrap();
                let two = a.new_atom(&[2]).unwrap();
                let prog = quoted_call(&mut a, op, &[one, two]);
                let o = run_stepper(&mut a, prog, NodePtr::NIL);
                (if o == "unimpl" { "0" } else { "1" }).to_string()
            }
            ["prog", text_hex] => {
                // compile a source text (as the command line does), run the result on () with the
                // default runner and with the stepping evaluator
                let Ok(text) = String::from_utf8(hex::decode(text_hex).unwrap_or_default()) else {
                    return "bad-input".to_string();
                };
                match compile(&mut a, &text) {
                    Some(n) => {
                        let code = hex_of_node(&a, n);
                        let rd = run_version(&mut a, n, NodePtr::NIL, None);
                        let st = run_stepper(&mut a, n, NodePtr::NIL);
                        format!("code={code} rd={rd} st={st}")
                    }
                    None => "compile-error".to_string(),
                }
            }
            ["scan", how, atom_hex] => {
                let Ok(atom) = hex::decode(atom_hex) else {
                    return "bad-input".to_string();
                };
                let op = a.new_atom(&atom).unwrap();
                let one = a.new_atom(&[1]).unwrap();
                let two = a.new_atom(&[2]).unwrap();
                let prog = quoted_call(&mut a, op, &[one, two]);
                match *how {
                    "d" => run_version(&mut a, prog, NodePtr::NIL, None),
                    "s" => run_stepper(&mut a, prog, NodePtr::NIL),
                    v => match v.parse::<usize>() {
                        Ok(v) => run_version(&mut a, prog, NodePtr::NIL, Some(v)),
                        Err(_) => "bad-input".to_string(),
                    },
                }
            }
            _ => "bad-input".to_string(),
        }
    });
}
