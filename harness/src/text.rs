// `cvh text` (C09): printers and readers of both syntaxes on the real code.
//   `d <ver> <hex>`     -> `<text hex> <assemble(text): ok <hex> | err:<kind>>`            classic pair
//   `m <hex>`           -> modern triple on `convert_from_clvm_rs(v)` (fixed integer mode)
//   `r <rich>`          -> modern triple on the given rich value
//        triple = `<text hex> P:<ok <hex>,<hex>… | err:<kind>> A:<ok <hex> | err:<kind>> <hex of convert_to_clvm_rs(r)>`
//   `p <text hex>`      -> `parse_sexp(text)`: `ok <rich>,<rich>…` | `err:<kind>`
//   `a <text hex>`      -> `assemble(text)`:   `ok <hex>` | `err:<kind>`   (text must be UTF-8)
//   `k`                 -> dump of the keyword tables and prims (sorted)
//   `c <opt 0|1> <program text hex>` -> compile like the command line (`compile_modern`), then
//        `<rich of result> <printed text hex> <library bytes of compile_clvm_text, or - >` | `err`
use std::collections::HashMap;
use std::rc::Rc;

use crate::common::*;
use crate::rich::*;
use chialisp::classic::clvm::{keyword_from_atom, keyword_to_atom};
use chialisp::classic::clvm_tools::binutils::{assemble, assemble_from_ir, disassemble};
use chialisp::classic::clvm_tools::clvmc::compile_clvm_text;
use chialisp::classic::clvm_tools::ir::reader::read_ir;
use chialisp::classic::clvm_tools::stages::stage_0::DefaultProgramRunner;
use chialisp::compiler::clvm::{convert_from_clvm_rs, convert_to_clvm_rs, NewStyleIntConversion};
use chialisp::compiler::compiler::{compile_file, DefaultCompilerOpts};
use chialisp::compiler::comptypes::CompilerOpts;
use chialisp::compiler::dialect::detect_modern;
use chialisp::compiler::optimize::maybe_finalize_program_via_classic_optimizer;
use chialisp::compiler::prims::prims;
use chialisp::compiler::sexp::{parse_sexp, SExp};
use clvmr::allocator::Allocator;
use clvmr::error::EvalErr;

fn classic_err_kind(e: &EvalErr) -> &'static str {
    let msg = match e {
        EvalErr::InternalError(_, m) => m.clone(),
        other => format!("{other:?}"),
    };
    if msg.starts_with("unterminated string") {
        "unterminated"
    } else if msg.starts_with("missing )") {
        "missingParen"
    } else if msg.starts_with("empty stream") {
        "emptyStream"
    } else if msg.contains(" in '") || msg.contains("Invalid") || msg.contains("Odd number") {
        "badHex"
    } else {
        "other"
    }
}

fn modern_err_kind(msg: &str) -> &'static str {
    match msg {
        "Too many close parens" => "tooManyCloseParens",
        "Dot can't appear directly after begin paren" => "dotAfterOpen",
        "Dot expressions disallowed in structured lists" => "dotInStructured",
        "Dot as first element of list?" => "dotFirst",
        "found object during termlist" => "objectInTermList",
        "Illegal state during term list." => "illegalTermState",
        "Multiple dots in list notation are illegal" => "multipleDots",
        m if m.starts_with("unterminated") || m.starts_with("Unterminated") || m.starts_with("Unclosed") => {
            "unterminated"
        }
        _ => "other",
    }
}

fn assemble_line(a: &mut Allocator, text: &str) -> String {
    match assemble(a, text) {
        Ok(n) => format!("ok {}", hex_of_node(a, n)),
        Err(e) => format!("err:{}", classic_err_kind(&e)),
    }
}

fn parse_to_clvm_line(a: &mut Allocator, text: &[u8]) -> String {
    match parse_sexp(loc(), text.iter().copied()) {
        Ok(forms) => {
            let mut out = Vec::new();
            for f in forms.iter() {
                match convert_to_clvm_rs(a, f.clone()) {
                    Ok(n) => out.push(hex_of_node(a, n)),
                    Err(_) => out.push("!conv".to_string()),
                }
            }
            format!("ok {}", out.join(",")).trim_end().to_string()
        }
        Err((_, m)) => format!("err:{}", modern_err_kind(&m)),
    }
}

fn modern_triple(a: &mut Allocator, r: Rc<SExp>) -> String {
    let text = r.to_string();
    let own = match convert_to_clvm_rs(a, r.clone()) {
        Ok(n) => hex_of_node(a, n),
        Err(_) => "!conv".to_string(),
    };
    let p = parse_to_clvm_line(a, text.as_bytes());
    let asm = assemble_line(a, &text);
    format!("{} P:{} A:{} {}", hex::encode(text.as_bytes()), p, asm, own)
}

fn tables_dump() -> String {
    let mut out = Vec::new();
    for ver in 0..4usize {
        let mut rows: Vec<String> = keyword_from_atom(ver)
            .iter()
            .map(|(k, v)| format!("{}={}", hex::encode(k), hex::encode(v.as_bytes())))
            .collect();
        rows.sort();
        out.push(format!("F{}:{}", ver, rows.join(",")));
        let mut rows: Vec<String> = keyword_to_atom(ver)
            .iter()
            .map(|(k, v)| format!("{}={}", hex::encode(k.as_bytes()), hex::encode(v)))
            .collect();
        rows.sort();
        out.push(format!("T{}:{}", ver, rows.join(",")));
    }
    let rows: Vec<String> = prims()
        .iter()
        .map(|(k, v)| format!("{}={}", hex::encode(k), rich_string(v)))
        .collect();
    out.push(format!("P:{}", rows.join(",")));
    out.join(" ")
}

fn compile_line(do_optimize: bool, text: &str) -> String {
    let mut a = Allocator::new();
    // exactly what RunAndCompileInputData::new + compile_modern do for `run <text>`
    let Ok(ir) = read_ir(text) else {
        return "err:read".to_string();
    };
    let Ok(parsed) = assemble_from_ir(&mut a, Rc::new(ir)) else {
        return "err:read".to_string();
    };
    let dialect = detect_modern(&mut a, parsed);
    let Some(stepping) = dialect.stepping else {
        return "err:classic".to_string();
    };
    let opts: Rc<dyn CompilerOpts> = Rc::new(DefaultCompilerOpts::new("*command*"))
        .set_dialect(dialect.clone())
        .set_optimize(do_optimize)
        .set_optimize(do_optimize || stepping > 22)
        .set_frontend_opt(stepping == 22);
    let runner = Rc::new(DefaultProgramRunner::new());
    let mut symbol_table = HashMap::new();
    let unopt = match compile_file(&mut a, runner.clone(), opts.clone(), text, &mut symbol_table) {
        Ok(r) => r,
        Err(_) => return "err:compile".to_string(),
    };
    let res = match maybe_finalize_program_via_classic_optimizer(&mut a, runner, opts, do_optimize, &unopt) {
        Ok(r) => r,
        Err(_) => return "err:finalize".to_string(),
    };
    // the library / file-writing path (always optimises): compile_clvm_text -> bytes
    let lib = if do_optimize {
        let mut a2 = Allocator::new();
        let mut st = HashMap::new();
        let lopts: Rc<dyn CompilerOpts> = Rc::new(DefaultCompilerOpts::new("*command*"));
        match compile_clvm_text(&mut a2, lopts, &mut st, text, "*command*", false) {
            Ok(n) => hex_of_node(&a2, n),
            Err(_) => "!lib".to_string(),
        }
    } else {
        "-".to_string()
    };
    format!("{} {} {}", rich_string(&res), hex::encode(res.to_string().as_bytes()), lib)
}

pub fn run(_args: &[String]) {
    // one allocator for the whole run, reset per line (Allocator::new reserves 1 MiB each time)
    let mut alloc = Allocator::new();
    let fresh = alloc.checkpoint();
    each_line(|l| {
        let parts: Vec<&str> = l.split_whitespace().collect();
        if parts.is_empty() {
            return "bad-input".to_string();
        }
        alloc.restore_checkpoint(&fresh);
        let a = &mut alloc;
        let _mode = NewStyleIntConversion::new(true);
        match (parts[0], parts.len()) {
            ("d", 3) => {
                let Ok(ver) = parts[1].parse::<usize>() else {
                    return "bad-input".to_string();
                };
                let Some(n) = node_of_hex(a, parts[2]) else {
                    return "bad-input".to_string();
                };
                let text = disassemble(a, n, Some(ver));
                format!("{} {}", hex::encode(text.as_bytes()), assemble_line(a, &text))
            }
            ("m", 2) => {
                let Some(n) = node_of_hex(a, parts[1]) else {
                    return "bad-input".to_string();
                };
                match convert_from_clvm_rs(a, loc(), n) {
                    Ok(r) => modern_triple(a, r),
                    Err(_) => "err-from".to_string(),
                }
            }
            ("r", 2) => {
                let Some(r) = dec_rich(parts[1]) else {
                    return "bad-input".to_string();
                };
                modern_triple(a, Rc::new(r))
            }
            ("p", 2) | ("p", 1) => {
                let Ok(text) = hex::decode(parts.get(1).copied().unwrap_or("")) else {
                    return "bad-input".to_string();
                };
                match parse_sexp(loc(), text.iter().copied()) {
                    Ok(forms) => {
                        let v: Vec<String> = forms.iter().map(|f| rich_string(f)).collect();
                        format!("ok {}", v.join(",")).trim_end().to_string()
                    }
                    Err((_, m)) => format!("err:{}", modern_err_kind(&m)),
                }
            }
            ("a", 2) | ("a", 1) => {
                let Ok(text) = hex::decode(parts.get(1).copied().unwrap_or("")) else {
                    return "bad-input".to_string();
                };
                let Ok(s) = String::from_utf8(text) else {
                    return "bad-input".to_string();
                };
                assemble_line(a, &s)
            }
            ("k", 1) => tables_dump(),
            ("c", 3) => {
                let Ok(text) = hex::decode(parts[2]) else {
                    return "bad-input".to_string();
                };
                let Ok(s) = String::from_utf8(text) else {
                    return "bad-input".to_string();
                };
                compile_line(parts[1] == "1", &s)
            }
            _ => "bad-input".to_string(),
        }
    });
}
