// `cvh reader` (C15, reader part of C14): the modern reader on the real code.
//   `w <hex text>`        -> parse_sexp(Srcloc::start("*verif*"), bytes)
//   `s <hex text>`        -> ParsePartialResult::new / push per byte / finalize
//   `c <hex> <hex> ...`   -> push per byte over the chunks in turn, finalize
//        result: `ok <ltree>*` | `err <hex message> <loc>`
//   `p`                   -> prims() as `hexname=value,...`
//   `o <loc> <loc>`       -> `<a.ext(b)> <b.ext(a)> <a.overlap(b) 0|1> <a.ending()> <a.len()|->`
//   `a <hex text>`        -> Srcloc::start advanced over the bytes
// located trees: `N@L;` | `C@L;<a><d>` | `I<dec>@L;` | `Q<qq><hex>@L;` | `A<hex>@L;`
// locations: `file,line,col,-` | `file,line,col,uline,ucol`; file 0 = the input, 1 = *prims*,
// 9 = anything else.
use std::borrow::Borrow;
use std::rc::Rc;

use crate::common::*;
use chialisp::compiler::prims::prims;
use chialisp::compiler::sexp::{parse_sexp, ParsePartialResult, SExp};
use chialisp::compiler::srcloc::{Srcloc, Until};

pub const INPUT_NAME: &str = "*verif*";

pub fn enc_loc(l: &Srcloc, out: &mut String) {
    let f: &String = l.file.borrow();
    let fno = if f == INPUT_NAME {
        0
    } else if f == "*prims*" {
        1
    } else {
        9
    };
    out.push_str(&format!("{},{},{},", fno, l.line, l.col));
    match &l.until {
        None => out.push('-'),
        Some(u) => out.push_str(&format!("{},{}", u.line, u.col)),
    }
}

pub fn enc_l(s: &SExp, out: &mut String) {
    let mut cur: &SExp = s;
    loop {
        match cur {
            SExp::Nil(l) => {
                out.push_str("N@");
                enc_loc(l, out);
                out.push(';');
                return;
            }
            SExp::Integer(l, i) => {
                out.push('I');
                out.push_str(&i.to_string());
                out.push('@');
                enc_loc(l, out);
                out.push(';');
                return;
            }
            SExp::QuotedString(l, q, b) => {
                out.push('Q');
                out.push_str(&hex::encode([*q]));
                out.push_str(&hex::encode(b));
                out.push('@');
                enc_loc(l, out);
                out.push(';');
                return;
            }
            SExp::Atom(l, b) => {
                out.push('A');
                out.push_str(&hex::encode(b));
                out.push('@');
                enc_loc(l, out);
                out.push(';');
                return;
            }
            SExp::Cons(l, a, d) => {
                out.push_str("C@");
                enc_loc(l, out);
                out.push(';');
                enc_l(a.borrow(), out);
                cur = d.borrow();
            }
        }
    }
}

pub fn show_result(r: Result<Vec<Rc<SExp>>, (Srcloc, String)>) -> String {
    match r {
        Ok(fs) => {
            let mut out = "ok".to_string();
            for f in fs.iter() {
                out.push(' ');
                enc_l(f.borrow(), &mut out);
            }
            out
        }
        Err((l, m)) => {
            let mut out = format!("err {} ", hex::encode(m.as_bytes()));
            enc_loc(&l, &mut out);
            out
        }
    }
}

fn dec_loc(s: &str) -> Option<Srcloc> {
    let p: Vec<&str> = s.split(',').collect();
    let file = Rc::new(
        match *p.first()? {
            "0" => INPUT_NAME,
            "1" => "*prims*",
            _ => "*other*",
        }
        .to_string(),
    );
    let line = p.get(1)?.parse().ok()?;
    let col = p.get(2)?.parse().ok()?;
    let until = if p.len() == 4 && p[3] == "-" {
        None
    } else if p.len() == 5 {
        Some(Until {
            line: p[3].parse().ok()?,
            col: p[4].parse().ok()?,
        })
    } else {
        return None;
    };
    Some(Srcloc {
        file,
        line,
        col,
        until,
    })
}

pub fn hex_arg(h: &str) -> Option<Vec<u8>> {
    if h == "-" {
        Some(vec![])
    } else {
        hex::decode(h).ok()
    }
}

fn stream(chunks: &[Vec<u8>]) -> Result<Vec<Rc<SExp>>, (Srcloc, String)> {
    let mut p = ParsePartialResult::new(Srcloc::start(INPUT_NAME));
    for c in chunks.iter() {
        for b in c.iter() {
            p.push(*b)?;
        }
    }
    p.finalize()
}

pub fn run(_args: &[String]) {
    each_line(|l| {
        let parts: Vec<&str> = l.split_whitespace().collect();
        if parts.is_empty() {
            return "bad-input".to_string();
        }
        match (parts[0], parts.len()) {
            ("w", 2) => {
                let Some(t) = hex_arg(parts[1]) else {
                    return "bad-input".to_string();
                };
                show_result(parse_sexp(Srcloc::start(INPUT_NAME), t.iter().copied()))
            }
            ("s", 2) => {
                let Some(t) = hex_arg(parts[1]) else {
                    return "bad-input".to_string();
                };
                show_result(stream(&[t]))
            }
            ("c", _) => {
                let mut chunks = Vec::new();
                for h in parts[1..].iter() {
                    let Some(t) = hex_arg(h) else {
                        return "bad-input".to_string();
                    };
                    chunks.push(t);
                }
                show_result(stream(&chunks))
            }
            ("p", 1) => {
                let v: Vec<String> = prims()
                    .iter()
                    .map(|(n, v)| {
                        let val = match v {
                            SExp::Integer(_, i) => i.to_string(),
                            _ => "?".to_string(),
                        };
                        format!("{}={}", hex::encode(n), val)
                    })
                    .collect();
                v.join(",")
            }
            ("o", 3) => {
                let (Some(a), Some(b)) = (dec_loc(parts[1]), dec_loc(parts[2])) else {
                    return "bad-input".to_string();
                };
                let mut out = String::new();
                enc_loc(&a.ext(&b), &mut out);
                out.push(' ');
                enc_loc(&b.ext(&a), &mut out);
                out.push_str(if a.overlap(&b) { " 1 " } else { " 0 " });
                enc_loc(&a.ending(), &mut out);
                match a.len() {
                    Some(n) => out.push_str(&format!(" {n}")),
                    None => out.push_str(" -"),
                }
                out
            }
            ("a", 2) => {
                let Some(t) = hex_arg(parts[1]) else {
                    return "bad-input".to_string();
                };
                let mut l = Srcloc::start(INPUT_NAME);
                for b in t.iter() {
                    l = l.advance(*b);
                }
                let mut out = String::new();
                enc_loc(&l, &mut out);
                out
            }
            _ => "bad-input".to_string(),
        }
    });
}
