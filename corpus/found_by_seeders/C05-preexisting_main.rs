// Pre-existing C05 violation on the unmodified tree: cl23 output depends on ARGNAME_CTR.
// usage: c05_pre FILE.clsp            -> compiles FILE twice in a row (counter just advances)
//        c05_pre FILE.clsp N1 N2 ...  -> sets ARGNAME_CTR to each N before compiling FILE
use std::collections::HashMap;
use std::rc::Rc;
use std::sync::atomic::Ordering;

use clvmr::allocator::Allocator;

use chialisp::classic::clvm::__type_compatibility__::Stream;
use chialisp::classic::clvm::serialize::sexp_to_stream;
use chialisp::classic::clvm_tools::clvmc::compile_clvm_text;
use chialisp::compiler::compiler::DefaultCompilerOpts;
use chialisp::compiler::comptypes::CompilerOpts;
use chialisp::compiler::gensym::ARGNAME_CTR;

fn compile(path: &str, text: &str) -> String {
    let mut allocator = Allocator::new();
    let mut symbols = HashMap::new();
    let opts: Rc<dyn CompilerOpts> = Rc::new(DefaultCompilerOpts::new(path));
    match compile_clvm_text(&mut allocator, opts.clone(), &mut symbols, text, path, true) {
        Ok(node) => {
            let mut s = Stream::new(None);
            sexp_to_stream(&mut allocator, node, &mut s);
            s.get_value().hex()
        }
        Err(e) => format!("ERROR {}", e.format(&allocator, opts)),
    }
}

fn main() {
    let args: Vec<String> = std::env::args().collect();
    let text = std::fs::read_to_string(&args[1]).expect("read");
    if args.len() == 2 {
        for i in 1..=2 {
            let before = ARGNAME_CTR.load(Ordering::SeqCst);
            println!("compile #{i} (ARGNAME_CTR={before} before): {}", compile(&args[1], &text));
        }
    }
    for n in args.iter().skip(2) {
        ARGNAME_CTR.store(n.parse().unwrap(), Ordering::SeqCst);
        println!("ARGNAME_CTR={n}: {}", compile(&args[1], &text));
    }
}
