#!/usr/bin/env python3
"""Generator of well-scoped Chialisp programs (source trees), their text rendering, their
`Rich` encoding for the Lean source interpreter, and argument values fitted to the
parameter pattern.

Source tree nodes:
  ('sym', 'name') | ('int', n) | ('str', b'..') | ('hex', b'..') | ('nil',) |
  ('list', [items], tail_or_None)          -- tail None = proper list
"""
import random

import gen

SIGILS = {
    "classic": None,
    "cl21": "*standard-cl-21*",
    "strict21": "*strict-cl-21*",
    "cl22": "*standard-cl-22*",
    "cl23": "*standard-cl-23*",
    "cl23.1": "*standard-cl-23.1*",
    "cl24": "*standard-cl-24*",
}
MODERN = ["cl21", "strict21", "cl22", "cl23", "cl23.1", "cl24"]


def S(name):
    return ("sym", name)


def I(n):
    return ("int", n)


def L(*items, tail=None):
    return ("list", list(items), tail)


NILT = ("nil",)


# ---- rendering -----------------------------------------------------------------------------

def text(t):
    k = t[0]
    if k == "sym":
        return t[1]
    if k == "int":
        return str(t[1])
    if k == "str":
        return '"' + t[1].decode("latin1") + '"'
    if k == "hex":
        return "0x" + t[1].hex()
    if k == "nil":
        return "()"
    items = [text(x) for x in t[1]]
    if t[2] is not None:
        items += [".", text(t[2])]
    return "(" + " ".join(items) + ")"


def rich(t):
    """the encoding of what the modern reader produces for `text(t)`."""
    k = t[0]
    if k == "sym":
        return "A" + t[1].encode().hex() + ";"
    if k == "int":
        return "N" if t[1] == 0 else f"I{t[1]};"
    if k == "str":
        return "Q22" + t[1].hex() + ";"
    if k == "hex":
        return "Q78" + t[1].hex() + ";"
    if k == "nil":
        return "N"
    out = []
    for x in t[1]:
        out.append("C" + rich(x))
    out.append(rich(t[2]) if t[2] is not None else "N")
    return "".join(out)


# ---- types -----------------------------------------------------------------------------------
# value types used to keep programs mostly value-returning: 'int', 'bytes', 'ilist' (proper
# list of ints), 'any'

def gen_value(rng, ty):
    if ty == "guard":
        # a condition that is false about half of the time
        return b"" if rng.random() < 0.55 else gen.int_atom(rng.choice([1, 1, 2, 7]))
    if ty == "maybe":
        # either a value a partial expression (f (f (r X))), (/ 100 X) … is defined on, or one it fails on
        r = rng.random()
        if r < 0.3:
            return b""
        if r < 0.45:
            return gen.int_atom(rng.choice([0, 1, 5]))
        return gen.lst([gen.int_atom(rng.randint(1, 9)), gen.lst([gen.int_atom(rng.randint(1, 9)), gen.int_atom(rng.randint(1, 9))]),
                        gen.int_atom(rng.randint(1, 9))])
    if ty == "int":
        r = rng.random()
        if r < 0.7:
            return gen.int_atom(rng.randint(-20, 60))
        if r < 0.85:
            return gen.int_atom(rng.choice([0, 1, -1, 127, 128, 255, 256, -128, -129, 32767, 32768, 65535, 2 ** 31, 2 ** 63, -2 ** 63]))
        return gen.int_atom(rng.randint(-2 ** 40, 2 ** 40))
    if ty == "bytes":
        r = rng.random()
        if r < 0.5:
            return bytes(rng.choice(b"abcdefghijklmnopqrstuvwxyz") for _ in range(rng.randint(0, 6)))
        if r < 0.8:
            return gen.int_atom(rng.randint(-300, 300))
        return bytes(rng.randrange(256) for _ in range(rng.randint(1, 8)))
    if ty == "ilist":
        return gen.lst([gen.int_atom(rng.randint(-9, 30)) for _ in range(rng.randint(0, 4))])
    return gen.rand_tree(rng, 2, small=True)


def shape_value(rng, s):
    """an argument value fitting a parameter shape."""
    if s[0] == "leaf":
        return gen_value(rng, s[2])
    if s[0] == "cap":
        return shape_value(rng, s[2])
    tail = shape_value(rng, s[2]) if s[2] is not None else b""
    return gen.lst([shape_value(rng, x) for x in s[1]], tail)


class Scope:
    def __init__(self, vars_=None):
        self.vars = dict(vars_ or {})      # name -> type

    def of(self, ty):
        return [n for n, t in self.vars.items() if t == ty or ty == "any"]

    def extend(self, more):
        s = Scope(self.vars)
        s.vars.update(more)
        return s


class ProgGen:
    """one generated program; `features` selects the stratum."""

    ALL_FEATURES = ["functions", "inlines", "lets", "assign", "destructure", "captures", "rest", "lambda",
                    "constants", "macros", "literals", "qq", "applydata", "manyparams", "shadow", "guarded", "nilparam"]

    def __init__(self, rng, dialect, features=None, nparams=None):
        self.rng = rng
        self.dialect = dialect
        self.classic = dialect == "classic"
        self.features = set(features if features is not None else self.ALL_FEATURES)
        if self.classic:
            self.features -= {"lets", "assign", "lambda", "rest", "captures"}
        self.nparams = nparams
        self.fns = []          # (name, inline, [param types], ret type, pattern tree, body)
        self.consts = []       # (name, type, form)
        self.macros = []       # (name, nargs)
        self.ctr = 0
        self.used_features = set()

    # -- helpers
    def fresh(self, prefix):
        self.ctr += 1
        return f"{prefix}{self.ctr}"

    def has(self, f):
        return f in self.features

    def bind_name(self, sc, prefix, avoid=()):
        """a name for a new binding: usually fresh, sometimes one already in scope (shadowing)."""
        if self.has("shadow") and sc.vars and self.rng.random() < 0.3:
            cands = [n for n in sc.vars if n not in avoid and not n.startswith("K")]
            if cands:
                self.use("shadow")
                return self.rng.choice(cands)
        return self.fresh(prefix)

    def use(self, f):
        self.used_features.add(f)

    # -- parameter patterns: returns (pattern tree, {name: type}, value generator)
    def pattern(self, n, allow_nested=True, prefix="P"):
        rng = self.rng
        names = []
        types = {}

        def leaf():
            nm = self.fresh(prefix)
            ty = rng.choice(["int", "int", "int", "bytes", "ilist", "any"])
            names.append(nm)
            types[nm] = ty
            return ("leaf", nm, ty)

        def build(k, depth):
            # a list-shaped pattern of k positions
            items = []
            for idx in range(k):
                if depth == 0 and prefix == "A" and getattr(self, "force_multi", False) and idx < 2:
                    # several DESTRUCTURED parameters in one function (each gets its own hidden capture
                    # when the function is inline)
                    self.use("destructure")
                    items.append(build(rng.randint(1, 3), depth + 1))
                    continue
                if self.has("nilparam") and rng.random() < 0.06:
                    # `()` in a parameter position: binds nothing, takes up the position
                    self.use("nilparam")
                    items.append(("plist", [], None))
                    continue
                if allow_nested and depth < 2 and self.has("destructure") and rng.random() < 0.2:
                    self.use("destructure")
                    sub = build(rng.randint(1, 3), depth + 1)
                    if self.has("captures") and rng.random() < 0.35:
                        self.use("captures")
                        cap = self.fresh(prefix)
                        names.append(cap)
                        types[cap] = "any"
                        items.append(("cap", cap, sub))
                    else:
                        items.append(sub)
                else:
                    items.append(leaf())
            tail = None
            if depth == 0 and prefix == "A" and self.has("captures") and self.has("rest") and rng.random() < 0.12:
                # the parameter list ENDS in a capture: (K L @ others (P Q)) — `others` is the rest of the
                # arguments, P and Q its first two
                self.use("captures")
                self.use("destructure")
                cap = self.fresh(prefix)
                names.append(cap)
                types[cap] = "any"
                tail = ("cap", cap, ("plist", [leaf() for _ in range(rng.randint(1, 2))], None))
            elif self.has("destructure") and rng.random() < 0.15:
                self.use("destructure")
                tail = leaf()
                if self.has("dotcall") and prefix == "A" and depth == 0:
                    # a tail parameter that can take surplus call arguments: a list
                    types[tail[1]] = "ilist"
                    tail = ("leaf", tail[1], "ilist")
            elif self.has("dotcall") and prefix == "A" and depth == 0 and rng.random() < 0.25:
                self.use("destructure")
                tail = leaf()
                types[tail[1]] = "ilist"
                tail = ("leaf", tail[1], "ilist")
            return ("plist", items, tail)

        shape = build(n, 0)
        for nm, ty in (getattr(self, "extra_main_leaves", []) if prefix == "P" else []):
            names.append(nm)
            types[nm] = ty
            shape[1].append(("leaf", nm, ty))
        if getattr(self, "force_capture", False) and self.has("captures") and not any(x[0] == "cap" for x in shape[1]):
            # make sure there is an (@ name (sub pattern)) parameter
            self.use("captures")
            self.use("destructure")
            cap = self.fresh(prefix)
            names.append(cap)
            types[cap] = "any"
            sub = ("plist", [leaf() for _ in range(rng.randint(1, 3))], None)
            shape[1].insert(rng.randrange(len(shape[1]) + 1), ("cap", cap, sub))

        def to_tree(s):
            if s[0] == "leaf":
                return S(s[1])
            if s[0] == "cap":
                return L(S("@"), S(s[1]), to_tree(s[2]))
            items = [to_tree(x) for x in s[1]]
            if not items and s[2] is None:
                return NILT
            return ("list", items, to_tree(s[2]) if s[2] is not None else None)

        def value(s):
            if s[0] == "leaf":
                return gen_value(rng, s[2])
            if s[0] == "cap":
                return value(s[2])
            if s[2] is not None:
                tail = value(s[2])
            elif rng.random() < 0.2:
                # more structure than the pattern names (visible only through an (@ name pat) capture)
                tail = gen_value(rng, rng.choice(["int", "ilist", "bytes"]))
            else:
                tail = b""
            return gen.lst([value(x) for x in s[1]], tail)

        return to_tree(shape), types, (lambda: value(shape)), shape

    # -- expressions
    def lit(self, ty):
        rng = self.rng
        if ty == "int" or ty == "bool":
            r = rng.random()
            if self.has("literals") and r < 0.15:
                self.use("literals")
                return I(rng.choice([0, 1, -1, 63, 64, 65, 127, 128, -128, -129, 255, 256, 65535, 65536, 2 ** 31 - 1, 2 ** 31, 2 ** 64, -2 ** 64 + 5, 10 ** 30]))
            return I(rng.randint(-5, 40))
        if ty == "bytes":
            r = rng.random()
            if self.has("literals") and r < 0.3:
                self.use("literals")
                return ("hex", bytes(rng.randrange(1, 256) for _ in range(rng.randint(1, 5))))
            return ("str", bytes(rng.choice(b"abcdefghijklmnopqrstuvwxyz0123456789 _") for _ in range(rng.randint(1, 8))))
        if ty == "ilist":
            return L(S("q"), tail=self.datalit([rng.randint(0, 30) for _ in range(rng.randint(0, 4))]))
        return self.lit(rng.choice(["int", "bytes", "ilist"]))

    def datalit(self, ints):
        if not ints:
            return NILT
        return ("list", [I(x) for x in ints], None)

    def expr(self, sc, ty, depth):
        e = self.expr_(sc, ty, depth)
        if e[0] == "list" and len(text(e)) > 8:
            rec = self.__dict__.setdefault("recent", [])
            rec.append((ty, frozenset(sc.vars.items()), e))
            del rec[:-12]
        return e

    def expr_(self, sc, ty, depth):
        rng = self.rng
        if ty == "bool":
            return self.boolexpr(sc, depth)
        if depth > 0 and rng.random() < 0.06:
            # the same non-trivial subexpression again (what common-subexpression elimination looks for)
            cur = set(sc.vars.items())
            cands = [e for (t, vs, e) in self.__dict__.get("recent", []) if t == ty and vs <= cur]
            if cands:
                self.use("dupexpr")
                return rng.choice(cands)
        vs = sc.of(ty) if ty != "any" else list(sc.vars)
        if depth <= 0 or rng.random() < 0.12:
            if vs and rng.random() < 0.75:
                return S(rng.choice(vs))
            cs = [c for c in self.consts if c[1] == ty or ty == "any"]
            if cs and rng.random() < 0.5:
                self.use("constants")
                return S(rng.choice(cs)[0])
            return self.lit(ty)
        d = depth - 1
        if self.has("dense") and self.fns and rng.random() < 0.3:
            # dense stratum: many calls (of inline functions in particular) and lets
            c = self.call(sc, ty, d)
            if c is not None:
                return c
        if self.has("dense") and self.has("lets") and rng.random() < 0.12:
            return self.letform(sc, ty, d)
        r = rng.random()
        # shared forms
        if r < 0.10:
            return L(S("if"), self.boolexpr(sc, d), self.expr(sc, ty, d), self.expr(sc, ty, d))
        if r < 0.18 and self.has("lets"):
            return self.letform(sc, ty, d)
        if r < 0.23 and self.has("assign") and not self.classic:
            return self.assignform(sc, ty, d)
        if r < 0.36:
            c = self.call(sc, ty, d)
            if c is not None:
                return c
        if r < 0.40 and self.has("lambda"):
            return self.lambdaform(sc, ty, d)
        if r < 0.43 and self.has("applydata") and ty == "int":
            self.use("applydata")
            # (a (q . (+ 2 5)) (list x y)) — raw CLVM as data
            return L(S("a"), L(S("q"), tail=L(I(16), I(2), I(5))), L(S("list"), self.expr(sc, "int", d), self.expr(sc, "int", d)))
        if r < 0.47 and self.macros:
            self.use("macros")
            m = rng.choice(self.macros)
            if m[2] == ty or ty == "any":
                return L(S(m[0]), *[self.macroarg(sc, d) for _ in range(m[1])])
        if ty == "int":
            op = rng.choice(["+", "-", "*", "+", "-", "strlen", "f", "logand", "logior", "logxor", "lognot", "/", "ash", "sha-len", "divmod-f", "raw-i"])
            if op == "raw-i":
                # the strict operator i (both branches evaluated), not the lazy `if` macro
                return L(S("i"), self.boolexpr(sc, d), self.expr(sc, "int", d), self.expr(sc, "int", d))
            if op in ("+", "-", "*", "logand", "logior", "logxor"):
                return L(S(op), *[self.expr(sc, "int", d) for _ in range(rng.randint(1, 3))])
            if op == "strlen":
                return L(S("strlen"), self.expr(sc, "bytes", d))
            if op == "f":
                return L(S("f"), L(S("c"), self.expr(sc, "int", d), self.expr(sc, "ilist", d)))
            if op == "lognot":
                return L(S("lognot"), self.expr(sc, "int", d))
            if op == "/":
                return L(S("/"), self.expr(sc, "int", d), I(rng.choice([1, 2, 3, 7, -2, -5])))
            if op == "ash":
                return L(S("ash"), self.expr(sc, "int", d), I(rng.randint(-3, 5)))
            if op == "sha-len":
                return L(S("strlen"), L(S("sha256"), self.expr(sc, "bytes", d)))
            return L(S("f"), L(S("divmod"), self.expr(sc, "int", d), I(rng.choice([3, 5, -4]))))
        if ty == "bytes":
            op = rng.choice(["concat", "sha256", "substr", "concat"])
            if op == "concat":
                return L(S("concat"), *[self.expr(sc, "bytes", d) for _ in range(rng.randint(1, 3))])
            if op == "sha256":
                return L(S("sha256"), self.expr(sc, "bytes", d))
            return L(S("substr"), L(S("concat"), ("str", b"pad"), self.expr(sc, "bytes", d)), I(rng.randint(0, 2)), I(3))
        if ty == "ilist":
            op = rng.choice(["list", "c", "r", "qq", "list"])
            if op == "list":
                return L(S("list"), *[self.expr(sc, "int", d) for _ in range(rng.randint(0, 3))])
            if op == "c":
                return L(S("c"), self.expr(sc, "int", d), self.expr(sc, "ilist", d))
            if op == "r":
                return L(S("r"), L(S("c"), self.expr(sc, "int", d), self.expr(sc, "ilist", d)))
            if self.has("qq"):
                self.use("qq")
                return L(S("qq"), L(I(rng.randint(2, 30)), L(S("unquote"), self.expr(sc, "int", d)), I(rng.randint(0, 9))))
            return L(S("list"), self.expr(sc, "int", d))
        # any
        sub = rng.choice(["int", "bytes", "ilist", "pair"])
        if sub == "pair":
            return L(S("c"), self.expr(sc, "any", d), self.expr(sc, "any", d))
        return self.expr(sc, sub, d)

    def macroarg(self, sc, d):
        # macro arguments are source forms: keep to variables, integers and calls (strings would
        # lose their quoting when passed through a classic macro)
        vs = sc.of("int")
        strict = self.dialect in ("strict21", "cl23", "cl23.1", "cl24")
        if vs and (strict or self.rng.random() < 0.5):
            return S(self.rng.choice(vs))
        if strict:
            return L(S("+"), self.expr(sc, "int", d), L(S("strlen"), ("str", b"ab")))
        if self.rng.random() < 0.5:
            return I(self.rng.randint(2, 50))
        return L(S("+"), self.expr(sc, "int", d), I(self.rng.randint(2, 9)))

    def boolexpr(self, sc, depth):
        rng = self.rng
        d = max(0, depth - 1)
        op = rng.choice(["=", ">", ">s", "l", "not", "any", "all", "var"])
        if op == "=":
            t = rng.choice(["int", "bytes"])
            return L(S("="), self.expr(sc, t, d), self.expr(sc, t, d))
        if op == ">":
            return L(S(">"), self.expr(sc, "int", d), self.expr(sc, "int", d))
        if op == ">s":
            return L(S(">s"), self.expr(sc, "bytes", d), self.expr(sc, "bytes", d))
        if op == "l":
            return L(S("l"), self.expr(sc, "any", d))
        if op == "not":
            return L(S("not"), self.expr(sc, "any", d))
        if op in ("any", "all"):
            return L(S(op), *[self.expr(sc, "int", d) for _ in range(rng.randint(1, 3))])
        vs = list(sc.vars)
        return S(rng.choice(vs)) if vs else I(1)

    def letform(self, sc, ty, d):
        rng = self.rng
        self.use("lets")
        kind = rng.choice(["let", "let*"])
        n = rng.randint(1, 3)
        binds = []
        cur = sc
        new = {}
        for _ in range(n):
            nm = self.bind_name(cur if kind == "let*" else sc, "V", avoid=(new if kind == "let" else ()))
            t = rng.choice(["int", "int", "bytes", "ilist"])
            e = self.expr(cur if kind == "let*" else sc, t, d)
            binds.append(L(S(nm), e))
            new[nm] = t
            if kind == "let*":
                cur = cur.extend({nm: t})
        inner_sc = sc.extend(new)
        if self.has("shadow") and new and rng.random() < 0.35:
            # rebinding of one of this let's own names in a nested binding form that uses it
            self.use("shadow")
            nm = rng.choice(sorted(new))
            t = new[nm]
            rebound = self.expr(inner_sc, t, max(1, d))
            use = self.expr(inner_sc, ty, d)
            form = rng.choice(["let", "let*", "assign"] if self.has("assign") and not self.classic else ["let", "let*"])
            if form == "assign":
                other = self.fresh("V")
                body = L(S("assign"), S(other), rebound, S(nm), S(other), use)
            else:
                body = L(S(form), L(L(S(nm), rebound)), use)
        else:
            body = self.expr(inner_sc, ty, d)
        return L(S(kind), ("list", binds, None) if binds else NILT, body)

    def assignform(self, sc, ty, d):
        rng = self.rng
        self.use("assign")
        kw = rng.choice(["assign", "assign", "assign-inline", "assign-lambda"])
        n = rng.randint(1, 3)
        new = {}
        forms = []
        cur = sc
        pairs = []
        for _ in range(n):
            if rng.random() < 0.25 and self.has("destructure"):
                a, b = self.fresh("V"), self.fresh("V")
                pat = L(S(a), S(b))
                e = L(S("list"), self.expr(cur, "int", d), self.expr(cur, "int", d))
                add = {a: "int", b: "int"}
            else:
                nm = self.bind_name(sc, "V", avoid=new)
                t = rng.choice(["int", "int", "bytes", "ilist"])
                pat = S(nm)
                e = self.expr(cur, t, d)
                add = {nm: t}
            pairs.append((pat, e))
            new.update(add)
            cur = cur.extend(add)
        if rng.random() < 0.4:
            rng.shuffle(pairs)      # order of bindings is free: dependencies decide
        for pat, e in pairs:
            forms += [pat, e]
        body = self.expr(sc.extend(new), ty, d)
        return L(S(kw), *forms, body)

    def lambdaform(self, sc, ty, d):
        rng = self.rng
        self.use("lambda")
        caps = rng.sample(list(sc.vars), min(len(sc.vars), rng.randint(0, 2)))
        p = self.bind_name(sc, "L", avoid=caps)
        pt = rng.choice(["int", "bytes", "ilist"])
        inner = Scope({c: sc.vars[c] for c in caps}).extend({p: pt})
        body = self.expr(inner, ty, d)
        if caps:
            params = L(L(S("&"), *[S(c) for c in caps]), S(p))
        else:
            params = L(S(p))
        return L(S("a"), L(S("lambda"), params, body), L(S("list"), self.expr(sc, pt, d)))

    def call(self, sc, ty, d):
        rng = self.rng
        cands = [f for f in self.fns if f["ret"] == ty or ty == "any"]
        if not cands:
            return None
        f = rng.choice(cands)
        self.use("inlines" if f["inline"] else "functions")
        return self.callform(sc, f, d)

    def callform(self, sc, f, d):
        rng = self.rng
        shape = f["shape"]

        def arg(s, extra=0.2):
            if s[0] == "leaf":
                return self.expr(sc, s[2], d)
            if s[0] == "cap":
                return arg(s[2], 0.5)
            items = [arg(x) for x in s[1]]
            tl = arg(s[2]) if s[2] is not None else NILT
            # build the sub-structure with list/c
            res = tl
            if s[2] is None:
                if rng.random() < extra:
                    # an argument with more elements than the sub-pattern names
                    res = L(S("q"), tail=self.datalit([rng.randint(0, 30) for _ in range(rng.randint(1, 2))]))
                    for it in reversed(items):
                        res = L(S("c"), it, res)
                    return res
                return L(S("list"), *items)
            for it in reversed(items):
                res = L(S("c"), it, res)
            return res
        items = [arg(x) for x in shape[1]]
        if shape[2] is not None:
            if self.has("dotcall") and (not self.has("rest") or rng.random() < 0.5):
                # surplus positional arguments become the dotted tail parameter
                self.use("dotcall")
                extra = []
                if shape[2][0] == "leaf" and shape[2][2] in ("ilist", "any"):
                    extra = [self.expr(sc, "int", d) for _ in range(rng.choice([0, 1, 1, 2, 2, 3]))]
                return L(S(f["name"]), *items, *extra)
            if self.has("rest") and not self.classic:
                self.use("rest")
                return L(S(f["name"]), *items, S("&rest"), arg(shape[2]))
            return None
        if self.has("dotcall") and rng.random() < 0.08:
            # a surplus positional argument (ignored by a proper parameter list)
            self.use("dotcall")
            return L(S(f["name"]), *items, self.expr(sc, "int", d))
        if self.has("rest") and not self.classic and len(items) >= 2 and rng.random() < 0.2:
            self.use("rest")
            k = rng.randint(1, len(items) - 1)
            fixed = items[:k]
            if rng.random() < 0.3:
                # constant fixed arguments, the tail decides: (F 1 2 &rest <expr>)
                fixed = [self.lit(s[2]) if s[0] == "leaf" else it for s, it in zip(shape[1][:k], fixed)]
            tail = L(S("list"), *items[k:])
            if rng.random() < 0.3 and len(items) - k == 1:
                c = self.boolexpr(sc, max(0, d - 1))
                tail = L(S("i"), c, L(S("list"), items[k]), L(S("list"), self.expr(sc, "int", max(0, d - 1))))
            return L(S(f["name"]), *fixed, S("&rest"), tail)
        return L(S(f["name"]), *items)

    # -- helpers
    def make_function(self, inline):
        rng = self.rng
        name = self.fresh("fi_" if inline else "fn_")
        self.force_capture = self.has("captures") and self.has("lets") and not self.classic and rng.random() < 0.2
        self.forced_now = self.force_capture
        self.force_multi = self.has("destructure") and rng.random() < (0.3 if inline else 0.1)
        multi = self.force_multi
        pat, types, _, shape = self.pattern(rng.randint(2, 4) if multi else rng.randint(1, 4), prefix="A")
        self.force_capture = False
        self.force_multi = False
        ret = rng.choice(["int", "int", "bytes", "ilist", "any"])
        body = self.expr(Scope(types), ret, rng.randint(1, 2) if self.has("dense") else rng.randint(1, 3))
        if self.has("dotcall") and shape[2] is not None and rng.random() < 0.6:
            # use the tail parameter
            t = S(shape[2][1])
            first = L(S("if"), t, L(S("f"), t), I(0))
            if ret == "int":
                body = L(S("+"), body, first, L(S("if"), t, L(S("if"), L(S("r"), t), I(100), I(10)), I(0)))
            elif ret == "bytes":
                body = L(S("concat"), body, L(S("if"), t, L(S("if"), L(S("r"), t), ("str", b"2"), ("str", b"1")), ("str", b"0")))
            elif ret == "ilist":
                body = L(S("c"), first, body)
            else:
                body = L(S("c"), body, t)
        if multi:
            # use a variable of EACH destructured parameter
            def leaves(sh, acc):
                if sh[0] == "leaf":
                    acc.append(sh[1])
                elif sh[0] == "cap":
                    leaves(sh[2], acc)
                else:
                    for x in sh[1]:
                        leaves(x, acc)
                    if sh[2] is not None:
                        leaves(sh[2], acc)
                return acc
            picks = [rng.choice(ls) for ls in (leaves(shape[1][0], []), leaves(shape[1][1], [])) if ls]
            if picks:
                body = L(S("c"), L(S("list"), *[S(n) for n in picks]), body)
                ret = "any"
        caps = [n for n, t in types.items() if t == "any" and ("(@ " + n + " ") in text(pat)]
        forced = self.has("captures") and "(@ " in text(pat) and getattr(self, "forced_now", False)
        if caps and self.has("lets") and not self.classic and (forced or rng.random() < 0.5):
            # a capture name used inside a binding form of the function body (the binding form is
            # hoisted into a helper whose environment has to be rebuilt from the parameter pattern)
            self.use("lets")
            self.use("captures")
            v = self.fresh("V")
            kind = rng.choice(["let", "let*", "assign"] if self.has("assign") else ["let", "let*"])
            e = self.expr(Scope(types), "int", 1)
            inner = L(S("c"), S(v), L(S("c"), S(rng.choice(caps)), body if ret != "any" or rng.random() < 0.5 else NILT))
            body = L(S("assign"), S(v), e, inner) if kind == "assign" else L(S(kind), L(L(S(v), e)), inner)
            ret = "any"
        f = {"name": name, "inline": inline, "ret": ret, "pattern": pat, "shape": shape, "body": body}
        self.fns.append(f)
        if self.forced_now or multi:
            # functions with a forced feature (capture + binding form, several destructured parameters) are
            # called from the main expression whatever else is generated
            self.__dict__.setdefault("cap_fns", []).append(f)
        self.forced_now = False
        return L(S("defun-inline" if inline else "defun"), S(name), pat, body)

    def make_guarded(self):
        """a function whose body repeats a PARTIAL expression (one that fails on some arguments) in several
        branches, each occurrence protected by its own guard: what an optimiser that hoists common
        subexpressions, or evaluates a branch early, must not break."""
        rng = self.rng
        self.use("guarded")
        inline = self.has("inlines") and rng.random() < 0.25
        name = self.fresh("fi_" if inline else "fn_")
        g1, g2, x = self.fresh("A"), self.fresh("A"), self.fresh("A")
        X = S(x)
        partial = rng.choice([
            L(S("f"), L(S("f"), L(S("r"), X))),
            L(S("f"), L(S("r"), L(S("f"), L(S("r"), X)))),
            L(S("+"), L(S("f"), X), L(S("f"), L(S("r"), L(S("r"), X)))),
            L(S("/"), I(1000), L(S("f"), X)),
            L(S("strlen"), L(S("f"), L(S("r"), X))),
        ])
        E = lambda k: L(S("+"), I(k), partial)
        shape_kind = rng.choice(["nested", "nested", "sibling", "triple", "letdup", "guardexpr"])
        G1, G2 = S(g1), S(g2)
        if shape_kind == "nested":
            body = L(S("if"), G1, E(1), L(S("if"), G2, E(2), I(0)))
        elif shape_kind == "sibling":
            body = L(S("+"), L(S("if"), G1, partial, I(0)), L(S("if"), G2, partial, I(0)))
        elif shape_kind == "triple":
            body = L(S("if"), G1, L(S("if"), G2, E(1), E(3)), L(S("if"), G2, L(S("*"), partial, partial), I(0)))
        elif shape_kind == "letdup" and self.has("lets") and not self.classic:
            v = self.fresh("V")
            body = L(S("if"), G1, L(S("let"), L(L(S(v), partial)), L(S("+"), S(v), S(v))), L(S("if"), G2, E(2), I(0)))
        else:
            # the guard itself is what makes the expression defined
            body = L(S("if"), L(S("l"), X), L(S("if"), L(S("l"), L(S("r"), X)), L(S("if"), L(S("l"), L(S("f"), L(S("r"), X))),
                     L(S("+"), partial, partial), I(0)), I(0)), I(0))
            if partial[1][0] != ("sym", "f") or text(partial) != text(L(S("f"), L(S("f"), L(S("r"), X)))):
                body = L(S("if"), G1, E(1), L(S("if"), G2, E(2), I(0)))
        pat = L(S(g1), S(g2), S(x))
        shape = ("plist", [("leaf", g1, "guard"), ("leaf", g2, "guard"), ("leaf", x, "maybe")], None)
        f = {"name": name, "inline": inline, "ret": "int", "pattern": pat, "shape": shape, "body": body}
        self.fns.append(f)
        self.guarded_fns = getattr(self, "guarded_fns", []) + [f]
        return L(S("defun-inline" if inline else "defun"), S(name), pat, body)

    def make_recursive(self):
        """structurally recursive list functions (terminating)."""
        rng = self.rng
        name = self.fresh("rec_")
        kind = rng.choice(["sum", "len", "map", "rev"])
        acc = self.fresh("A")
        lst = self.fresh("A")
        if kind == "sum":
            body = L(S("if"), S(lst), L(S("+"), L(S("f"), S(lst)), L(S(name), S(acc), L(S("r"), S(lst)))), S(acc))
            ret = "int"
        elif kind == "len":
            body = L(S("if"), S(lst), L(S("+"), I(1), L(S(name), S(acc), L(S("r"), S(lst)))), I(0))
            ret = "int"
        elif kind == "map":
            body = L(S("if"), S(lst), L(S("c"), L(S("*"), S(acc), L(S("f"), S(lst))), L(S(name), S(acc), L(S("r"), S(lst)))), NILT)
            ret = "ilist"
        else:
            body = L(S("if"), S(lst), L(S(name), L(S("c"), L(S("f"), S(lst)), S(acc)), L(S("r"), S(lst))), S(acc))
            ret = "ilist"
        accty = "ilist" if kind == "rev" else "int"
        shape = ("plist", [("leaf", acc, accty), ("leaf", lst, "ilist")], None)
        f = {"name": name, "inline": False, "ret": ret, "pattern": L(S(acc), S(lst)), "shape": shape, "body": body}
        self.fns.append(f)
        return L(S("defun"), S(name), L(S(acc), S(lst)), body)

    def make_constant(self):
        rng = self.rng
        name = self.fresh("K")
        kw = rng.choice(["defconstant", "defconst"]) if not self.classic else "defconstant"
        t = rng.choice(["int", "bytes"])
        prev = [c for c in self.consts if c[1] == "int"]
        if kw == "defconst" and t == "int" and prev and rng.random() < 0.5:
            form = L(S("+"), S(rng.choice(prev)[0]), I(rng.randint(1, 9)))
        elif t == "int":
            form = I(rng.randint(1, 1000))
        else:
            form = ("str", bytes(rng.choice(b"abcdefgh") for _ in range(rng.randint(1, 6))))
        self.consts.append((name, t, form))
        return L(S(kw), S(name), form)

    def make_constant_chain(self):
        """constants evaluated at compile time (defconst) that reach another constant only THROUGH an
        inline function or a macro: (defun-inline bump (V) (+ V BASE)) (defconst BASE 1000)
        (defconst D1 (bump 1)) — the compiler has to work out the order in which to evaluate them."""
        rng = self.rng
        self.use("constants")
        self.use("inlines")
        base = self.fresh("K")
        basev = rng.randint(100, 1000)
        forms = [L(S(rng.choice(["defconst", "defconstant"])), S(base), I(basev))]
        via = self.fresh("fi_")
        a = self.fresh("A")
        if self.has("macros") and rng.random() < 0.3:
            self.use("macros")
            forms.append(L(S("defmacro"), S(via), L(S(a)), L(S("qq"), L(S("+"), L(S("unquote"), S(a)), S(base)))))
            self.macros.append((via, 1, "int"))
        else:
            body = L(S("+"), S(a), S(base))
            forms.append(L(S("defun-inline"), S(via), L(S(a)), body))
            self.fns.append({"name": via, "inline": True, "ret": "int", "pattern": L(S(a)),
                             "shape": ("plist", [("leaf", a, "int")], None), "body": body})
        prev = None
        for _ in range(rng.randint(1, 3)):
            k = self.fresh("K")
            arg = S(prev) if prev is not None and rng.random() < 0.5 else I(rng.randint(1, 9))
            forms.append(L(S("defconst"), S(k), L(S(via), arg)))
            self.consts.append((k, "int", None))
            prev = k
        self.consts.append((base, "int", None))
        self.chain_last = prev
        rng.shuffle(forms)
        return forms

    def make_macro(self):
        rng = self.rng
        name = self.fresh("mac_")
        n = rng.randint(1, 2)
        ps = [self.fresh("M") for _ in range(n)]
        if n == 1:
            tmpl = L(S("+"), L(S("unquote"), S(ps[0])), I(rng.randint(1, 9)))
        else:
            tmpl = L(S("*"), L(S("unquote"), S(ps[0])), L(S("+"), L(S("unquote"), S(ps[1])), I(1)))
        self.macros.append((name, n, "int"))
        return L(S("defmacro"), S(name), L(*[S(p) for p in ps]), L(S("qq"), tmpl))

    def program(self):
        rng = self.rng
        n = self.nparams if self.nparams is not None else rng.choice([1, 2, 2, 3, 3, 4, 5, 8])
        if self.has("manyparams") and self.nparams is None and rng.random() < 0.08:
            self.use("manyparams")
            n = rng.randint(9, 40)
        want_guarded = self.has("guarded") and self.has("functions") and rng.random() < 0.3
        if want_guarded:
            self.extra_main_leaves = [(self.fresh("P"), "guard"), (self.fresh("P"), "guard"), (self.fresh("P"), "maybe")]
        pat, types, argv, shape = self.pattern(n, allow_nested=(n <= 8), prefix="P")
        if n >= 12 and not self.classic:
            # the modern compiler needs from tens of seconds (cl21) to many minutes (cl23+) for nested binding
            # forms under very wide parameter lists (each hoisted binding form carries the whole parameter
            # list): a compile-time matter (C14's subject), and it would dominate every run; wide parameter
            # lists are kept, binding forms go with the narrower ones
            self.features -= {"lets", "assign", "lambda"}
        helpers = []
        if self.has("constants"):
            for _ in range(rng.randint(0, 2)):
                helpers.append(self.make_constant())
        if self.has("macros") and rng.random() < 0.3:
            helpers.append(self.make_macro())
        nf = rng.randint(0, 3)
        if self.has("dense"):
            nf = rng.randint(2, 6)
        for _ in range(nf):
            r = rng.random()
            if self.has("dense") and self.has("inlines") and rng.random() < 0.45:
                helpers.append(self.make_function(True))
                continue
            if r < 0.25 and self.has("functions"):
                helpers.append(self.make_recursive())
            elif r < 0.6 and self.has("inlines"):
                helpers.append(self.make_function(True))
            elif self.has("functions"):
                helpers.append(self.make_function(False))
        if self.has("constants") and self.has("inlines") and rng.random() < 0.25:
            helpers += self.make_constant_chain()
        if want_guarded:
            for _ in range(rng.randint(1, 2)):
                helpers.append(self.make_guarded())
        ret = rng.choice(["int", "int", "bytes", "ilist", "any"])
        body = self.expr(Scope(types), ret, rng.randint(1, 3) if self.has("dense") else rng.randint(1, 4))
        for f in self.__dict__.get("cap_fns", []):
            c = self.callform(Scope(types), f, 1)      # make sure the capture-and-binding-form function is called
            if c is not None:
                body = L(S("c"), c, body)
        for f in self.__dict__.get("guarded_fns", []):
            (a1, _), (a2, _), (a3, _) = self.extra_main_leaves
            args = [S(a1), S(a2), S(a3)]
            if rng.random() < 0.3:
                args[rng.randrange(2)] = rng.choice([NILT, I(1)])
            body = L(S("c"), L(S(f["name"]), *args), body)
        if getattr(self, "chain_last", None) and rng.random() < 0.7:
            body = L(S("c"), S(self.chain_last), body)      # make sure the computed constant is used
        forms = [S("mod"), pat]
        sig = SIGILS[self.dialect]
        if sig:
            forms.append(L(S("include"), S(sig)))
        # helpers may come in any order in the source
        if rng.random() < 0.3:
            rng.shuffle(helpers)
        forms += helpers
        forms.append(body)
        tree = ("list", forms, None)
        return {"tree": tree, "pattern": pat, "argv": argv, "types": types, "features": sorted(self.used_features),
                "dialect": self.dialect, "nfns": len(self.fns), "shape": shape,
                "fns": [{"name": f["name"], "inline": f["inline"], "shape": f["shape"], "pattern": f["pattern"]} for f in self.fns]}


def gen_program(rng, dialect, features=None, nparams=None):
    return ProgGen(rng, dialect, features, nparams).program()
