#!/bin/sh
# tools/merge3.sh <work-dir> <base-commit> : three-way merge of a builder's work copy into /verif
# (files unchanged in /verif since <base-commit> are copied; files changed on both sides go through git merge-file)
w=$1; base=$2
sh /verif/tools/mergework.sh $w | while read kind f; do
  f=${f#./}
  case "$f" in MANIFEST.json|evidence/*|replays/*|harness/Cargo.lock|lean/lake-manifest.json|*.orig|tmp/*) continue;; esac
  if [ "$kind" = NEW ]; then
    mkdir -p /verif/$(dirname $f); cp $w/$f /verif/$f; echo "new    $f"; continue
  fi
  if git -C /verif show $base:$f > /tmp/merge3_base 2>/dev/null; then
    if cmp -s /tmp/merge3_base /verif/$f; then cp $w/$f /verif/$f; echo "copy   $f"
    elif cmp -s /tmp/merge3_base $w/$f; then echo "keep   $f (unchanged by builder)"
    else
      if git merge-file -q /verif/$f /tmp/merge3_base $w/$f; then echo "merged $f"; else echo "CONFLICT $f"; fi
    fi
  else
    echo "BOTH-NEW $f"
  fi
done
