"""clgen.py — small Chialisp program generator for the entry-point / purity checks (C11, C05).

Programs are built from a scope-tracking expression grammar over a conservative vocabulary that
every dialect accepts (classic, *standard-cl-21*, *strict-cl-21*, *standard-cl-22*,
*standard-cl-23*, *standard-cl-23.1*, *standard-cl-24*), plus dialect-gated features
(let / let* / assign / lambda / defmac / defconstant kinds).  All names are upper-case or
prefixed so that they never shadow operators.  A program can use an include file that must be
found through the search path."""

DIALECTS = [None, "*standard-cl-21*", "*strict-cl-21*", "*standard-cl-22*",
            "*standard-cl-23*", "*standard-cl-23.1*", "*standard-cl-24*"]


def stepping(d):
    if d is None:
        return None
    return {"*standard-cl-21*": 21, "*strict-cl-21*": 21, "*standard-cl-22*": 22, "*standard-cl-23*": 23,
            "*standard-cl-23.1*": 23, "*standard-cl-24*": 24}[d]


def is_strict(d):
    return d in ("*strict-cl-21*", "*standard-cl-23*", "*standard-cl-23.1*", "*standard-cl-24*")


INCLUDE_FILE = """(
  (defconstant INC_K 77)
  (defun inc_fn (IA IB) (+ IA (* IB INC_K)))
  (defun-inline inc_inl (IA) (c IA INC_K))
)
"""

INCLUDE_FILE_SHADOW = """(
  (defconstant INC_K 99)
  (defun inc_fn (IA IB) (- IA IB))
  (defun-inline inc_inl (IA) (c INC_K IA))
)
"""


class Scope:
    def __init__(self, vars_, funs, consts):
        self.vars = list(vars_)
        self.funs = list(funs)      # (name, arity)
        self.consts = list(consts)

    def with_vars(self, more):
        return Scope(self.vars + list(more), self.funs, self.consts)


class ProgGen:
    def __init__(self, rng, dialect, use_include=False, features=None):
        self.rng = rng
        self.d = dialect
        self.st = stepping(dialect)
        self.use_include = use_include
        self.counter = 0
        self.features = set()
        self.want = features or set()

    def fresh(self, p):
        self.counter += 1
        return f"{p}{self.counter}"

    # ---- literals -----------------------------------------------------------------------
    def literal(self):
        r = self.rng
        k = r.randrange(12)
        if k < 4:
            return str(r.choice([0, 1, 2, 3, 5, 7, 10, 100, 127, 128, 255, 256, 1000]))
        if k == 4:
            return str(-r.choice([1, 2, 127, 128, 129, 255, 256, 70000]))
        if k == 5:
            return str(r.randrange(1 << 40, 1 << 72))
        if k == 6:
            self.features.add("hex-literal")
            return "0x" + "".join(r.choice("0123456789abcdef") for _ in range(2 * r.randrange(1, 9)))
        if k == 7:
            self.features.add("string")
            return '"' + r.choice(["hello", "a b", "x", "Chia", "semi;colon", "1", "paren(", "it's"]) + '"'
        if k == 8:
            return "()"
        if k == 9:
            self.features.add("quoted-list")
            return "(q . (" + " ".join(str(r.randrange(20)) for _ in range(r.randrange(1, 4))) + "))"
        if k == 10:
            self.features.add("quoted-atom")
            return "(q . " + r.choice(["foo", "bar", "1", "0x00", "0x0080", '"s"', "+", "q", "sha256"]) + ")"
        return str(r.randrange(50))

    # ---- expressions --------------------------------------------------------------------
    def expr(self, sc, depth):
        r = self.rng
        if depth <= 0 or r.random() < 0.18:
            c = r.random()
            if sc.vars and c < 0.6:
                return r.choice(sc.vars)
            if sc.consts and c < 0.72:
                return r.choice(sc.consts)
            return self.literal()
        e = lambda: self.expr(sc, depth - 1)  # noqa: E731
        prods = [(22, "arith"), (8, "cons"), (6, "fr"), (8, "if"), (6, "list"), (4, "sha"), (4, "i"),
                 (3, "divmod"), (2, "concat")]
        if sc.funs:
            prods.append((16, "call"))
        if self.d is not None:
            prods.append((10, "let"))
        if self.st is not None and self.st >= 23:
            prods += [(6, "assign"), (4, "lambda")]
        tot = sum(w for w, _ in prods)
        x = r.randrange(tot)
        for w, k in prods:
            if x < w:
                break
            x -= w
        if k == "arith":
            op = r.choice(["+", "-", "*"])
            return f"({op} {e()} {e()})"
        if k == "cons":
            return f"(c {e()} {e()})"
        if k == "fr":
            return f"({r.choice(['f', 'r'])} (c {e()} {e()}))"
        if k == "if":
            self.features.add("if")
            cond = r.choice([f"(= {e()} {e()})", f"(> {e()} {e()})", f"(l {e()})", f"(not {e()})", e()])
            return f"(if {cond} {e()} {e()})"
        if k == "list":
            self.features.add("list")
            return "(list " + " ".join(e() for _ in range(r.randrange(0, 4))) + ")"
        if k == "sha":
            self.features.add("sha256")
            return f"(sha256 {e()} {e()})"
        if k == "i":
            return f"(i {e()} {e()} {e()})"
        if k == "call":
            name, ar = r.choice(sc.funs)
            self.features.add("call")
            return f"({name} " + " ".join(e() for _ in range(ar)) + ")"
        if k == "let":
            self.features.add("let")
            n = r.randrange(1, 3)
            names = [self.fresh("L") for _ in range(n)]
            kind = r.choice(["let", "let*"])
            binds = []
            inner = sc
            for nm in names:
                binds.append(f"({nm} {self.expr(inner if kind == 'let*' else sc, depth - 1)})")
                if kind == "let*":
                    inner = inner.with_vars([nm])
            body = self.expr(sc.with_vars(names), depth - 1)
            return f"({kind} ({' '.join(binds)}) {body})"
        if k == "assign":
            self.features.add("assign")
            a, b = self.fresh("V"), self.fresh("V")
            e1 = self.expr(sc, depth - 1)
            e2 = self.expr(sc.with_vars([a]), depth - 1)
            body = self.expr(sc.with_vars([a, b]), depth - 1)
            return f"(assign {a} {e1} {b} {e2} {body})"
        if k == "lambda":
            self.features.add("lambda")
            cap = r.choice(sc.vars) if sc.vars else None
            p = self.fresh("P")
            if cap:
                body = self.expr(Scope([cap, p], sc.funs, sc.consts), depth - 1)
                return f"(a (lambda ((& {cap}) {p}) {body}) (list {e()}))"
            body = self.expr(Scope([p], sc.funs, sc.consts), depth - 1)
            return f"(a (lambda ({p}) {body}) (list {e()}))"
        if k == "divmod":
            self.features.add("divmod")
            return f"(f (divmod {e()} (+ 1 (* {e()} {e()}))))"
        return f"(concat {self.literal()} {self.literal()})"

    # ---- whole programs -----------------------------------------------------------------
    def params(self):
        r = self.rng
        shape = r.randrange(6)
        names = [self.fresh("X") for _ in range(r.randrange(1, 4))]
        if shape == 0 and len(names) >= 2:
            self.features.add("dotted-params")
            return "(" + " ".join(names[:-1]) + " . " + names[-1] + ")", names
        if shape == 1 and len(names) >= 2:
            self.features.add("nested-params")
            return "(" + names[0] + " (" + " ".join(names[1:]) + "))", names
        if shape == 2:
            self.features.add("atom-params")
            return names[0], names[:1]
        return "(" + " ".join(names) + ")", names

    def program(self, depth=3):
        r = self.rng
        ptxt, pnames = self.params()
        forms = []
        if self.d is not None:
            forms.append(f"(include {self.d})")
        consts, funs = [], []
        if self.use_include:
            forms.append("(include gen_inc.clinc)")
            consts.append("INC_K")
            funs += [("inc_fn", 2), ("inc_inl", 1)]
            self.features.add("include-file")
        for _ in range(r.randrange(0, 3)):
            nm = self.fresh("K")
            if r.random() < 0.5:
                forms.append(f"(defconstant {nm} {self.literal()})")
            else:
                self.features.add("computed-constant")
                forms.append(f"(defconstant {nm} {self.expr(Scope([], [], list(consts)), 2)})")
            consts.append(nm)
        nfun = r.randrange(0, 4)
        for i in range(nfun):
            nm = self.fresh("fn_")
            ar = r.randrange(1, 4)
            args = [self.fresh("A") for _ in range(ar)]
            inline = r.random() < 0.35
            # functions call only earlier functions (no unbounded recursion) ...
            body = self.expr(Scope(args, list(funs), consts), depth)
            if not inline and r.random() < 0.3:
                # ... except through this structurally recursive template (terminates on any input)
                step = self.expr(Scope(args[1:] or args, list(funs), consts), depth - 1)
                rest = " ".join(args[1:])
                body = f"(if (l {args[0]}) (c {step} ({nm} (r {args[0]}){' ' + rest if rest else ''})) {body})"
                self.features.add("recursion")
            kw = "defun-inline" if inline else "defun"
            self.features.add(kw)
            forms.append(f"({kw} {nm} ({' '.join(args)}) {body})")
            funs.append((nm, ar))
        if r.random() < 0.25:
            m = self.fresh("mac_")
            if is_strict(self.d):
                self.features.add("defmac")
                forms.append(f"(defmac {m} (MA MB) (qq (+ (unquote MA) (* 2 (unquote MB)))))")
            else:
                self.features.add("defmacro")
                forms.append(f"(defmacro {m} (MA MB) (qq (+ (unquote MA) (* 2 (unquote MB)))))")
            funs.append((m, 2))
        main = self.expr(Scope(pnames, funs, consts), depth + 1)
        body = "\n  ".join(forms + [main])
        return f"(mod {ptxt}\n  {body}\n)\n", pnames

    def args_for(self, pnames):
        # a generic argument tree; shapes that do not fit just make the run fail the same way
        # in both debugger invocations
        r = self.rng
        vals = [str(r.choice([0, 1, 2, 5, 9, 100, 1000, -3])) for _ in range(3)]
        k = r.randrange(3)
        if k == 0:
            return "(" + " ".join(vals) + ")"
        if k == 1:
            return f"({vals[0]} ({vals[1]} {vals[2]}) 7)"
        return f"(({vals[0]} {vals[1]}) {vals[2]} 3)"


def broken_variants(rng, src):
    """a few malformed / ill-scoped mutants of a program: every entry point must refuse alike"""
    out = []
    out.append(("unbound", src.replace(")\n)\n", " UNBOUND_NAME_ZZ)\n)\n", 1) if ")\n)\n" in src else src + " ZZ"))
    out.append(("missing-paren", src.rstrip()[:-1] + "\n"))
    out.append(("missing-include", src.replace("(mod ", "(mod ", 1).replace("\n  ", "\n  (include not_there_zz.clinc)\n  ", 1)))
    return out
