"""Shared machinery of the compiler-family checks (C01, C02, C03, C13, C16, C17): program
generation, differential runs (real compiler + clvmr vs the Lean source semantics),
classification of failures into known-finding signatures."""
import re

import gen
import lib
import progen


def gen_programs(rng, dialect, n, nargs=3, features=None):
    progs = []
    for _ in range(n):
        feats = features
        if feats is None:
            allf = progen.ProgGen.ALL_FEATURES
            feats = [f for f in allf if rng.random() < 0.7]
        p = progen.gen_program(rng, dialect, feats)
        p["args"] = [p["argv"]() for _ in range(nargs)]
        p["text"] = progen.text(p["tree"])
        p["rich"] = progen.rich(p["tree"])
        progs.append(p)
    return progs


IDENT = re.compile(rb"[A-Za-z][A-Za-z0-9_$]+")


def identifiers(tree, acc=None):
    acc = acc if acc is not None else set()
    if tree[0] == "sym":
        acc.add(tree[1])
    elif tree[0] == "list":
        for x in tree[1]:
            identifiers(x, acc)
        if tree[2] is not None:
            identifiers(tree[2], acc)
    return acc


def quoted_atoms(v, acc=None):
    """all atoms of a CLVM value"""
    acc = acc if acc is not None else set()
    stack = [v]
    while stack:
        x = stack.pop()
        if isinstance(x, tuple):
            stack.append(x[0])
            stack.append(x[1])
        else:
            acc.add(x)
    return acc


def leaked_names(p, proghex):
    """source identifiers (variables / generated names) that occur as atoms of the emitted code"""
    try:
        atoms = quoted_atoms(gen.unhex(proghex))
    except Exception:
        return []
    names = {n.encode() for n in identifiers(p["tree"]) if re.fullmatch(r"[A-Z][0-9]+|[A-Za-z_]+_?[0-9]+", n)}
    leaked = []
    for a in atoms:
        if a in names or re.search(rb"_\$_[0-9]+", a):
            leaked.append(a.decode("latin1"))
    return sorted(leaked)


def optimizing(entry):
    return entry == "text:O1" or (entry.startswith("file:") and entry[5] == "1")


def classic_optimised(dialect, entry):
    """does this build run the classic (stage_2) optimiser over the emitted code?"""
    if dialect == "classic":
        return True
    return entry == "text:O1" or (entry.startswith("file:") and entry[7] == "1")


def max_rest_run(tree):
    """longest parameter list (number of consecutive `rest` steps a path may need)."""
    best = 0
    if tree[0] == "list":
        best = len(tree[1])
        for x in tree[1]:
            best = max(best, max_rest_run(x))
        if tree[2] is not None:
            best = max(best, max_rest_run(tree[2]))
    return best


BINDERS = ("let", "let*", "assign", "assign-inline", "assign-lambda", "lambda")


def contains_sym(tree, names):
    if tree[0] == "sym":
        return tree[1] in names
    if tree[0] == "list":
        return any(contains_sym(x, names) for x in tree[1]) or (tree[2] is not None and contains_sym(tree[2], names))
    return False


def rest_call_of_binding_inline(tree):
    """a call `(f … &rest t)` of a defun-inline."""
    inl = set()
    for f in tree[1]:
        if f[0] == "list" and len(f[1]) == 4 and f[1][0] == ("sym", "defun-inline"):
            inl.add(f[1][1][1])
    if not inl:
        return False

    def walk(t):
        if t[0] != "list":
            return False
        it = t[1]
        if it and it[0][0] == "sym" and it[0][1] in inl and ("sym", "&rest") in it:
            return True
        return any(walk(x) for x in it)
    return walk(tree)


def feopt_on(entry):
    return entry.startswith("text:") or (entry.startswith("file:") and entry[6] == "1")


_feopt_cache = {}


def feopt_specific(p, k, expected):
    """is the cl22 failure absent when the same program is compiled with frontend_opt off?"""
    key = (p["text"], k)
    if key not in _feopt_cache:
        line = "file:000 " + p["text"].encode().hex() + " " + gen.hexv(p["args"][k])
        out = lib.run_impl("compile", [line], timeout=60)[0].split()
        _feopt_cache[key] = len(out) > 2 and out[0] == "C" and out[2] == expected
    return _feopt_cache[key]


def has_at_literal(tree, classic):
    """an integer literal 64 (the byte `@`) — or, for the classic reader, a hex literal 0x40."""
    if tree[0] == "int":
        return tree[1] == 64
    if tree[0] == "hex":
        return classic and tree[1] == b"@"
    if tree[0] == "list":
        return any(has_at_literal(x, classic) for x in tree[1]) or (tree[2] is not None and has_at_literal(tree[2], classic))
    return False


def has_quoted_symbol(tree):
    """a `(q . NAME)` / `(quote NAME)` form: a quoted bare identifier."""
    if tree[0] != "list":
        return False
    it = tree[1]
    if it and it[0] == ("sym", "q") and len(it) == 1 and tree[2] is not None and tree[2][0] == "sym":
        return True
    if len(it) == 2 and it[0] == ("sym", "quote") and it[1][0] == "sym" and tree[2] is None:
        return True
    return any(has_quoted_symbol(x) for x in it) or (tree[2] is not None and has_quoted_symbol(tree[2]))


def inline_with_toplevel_capture(tree):
    """a defun-inline whose whole parameter list is an `(@ name pattern)` capture."""
    for f in tree[1]:
        if f[0] == "list" and len(f[1]) == 4 and f[1][0] == ("sym", "defun-inline"):
            ps = f[1][2]
            if ps[0] == "list" and ps[2] is None and len(ps[1]) == 3 and ps[1][0] == ("sym", "@") and ps[1][1][0] == "sym":
                return True
    return False


def has_at_bytes_literal(tree):
    """a string or hex literal whose bytes are `@` (0x40)."""
    if tree[0] in ("hex", "str"):
        return tree[1] == b"@"
    if tree[0] == "list":
        return any(has_at_bytes_literal(x) for x in tree[1]) or (tree[2] is not None and has_at_bytes_literal(tree[2]))
    return False


def macro_template_names(tree):
    """program-level names (constants, functions) written in a defmacro template OUTSIDE (unquote …)."""
    defined = set()
    for f in tree[1]:
        if f[0] == "list" and len(f[1]) >= 3 and f[1][0][0] == "sym" and f[1][0][1] in ("defconstant", "defconst", "defun", "defun-inline") \
                and f[1][1][0] == "sym":
            defined.add(f[1][1][1])
    out = set()

    def walk(t):
        if t[0] == "sym":
            if t[1] in defined:
                out.add(t[1])
        elif t[0] == "list":
            if t[1] and t[1][0] == ("sym", "unquote"):
                return
            for x in t[1]:
                walk(x)
            if t[2] is not None:
                walk(t[2])
    for f in tree[1]:
        if f[0] == "list" and len(f[1]) == 4 and f[1][0] == ("sym", "defmacro"):
            walk(f[1][3])
    return out


CL23P = ("cl23", "cl23.1", "cl24")


def strategy_on(d, entry):
    """does this build run the cl23+ strategy optimiser?  (the CLI switches optimisation on for these dialects
    whatever -O says; compile_file does what its optimize flag says)"""
    return d in CL23P and (entry.startswith("text:") or optimizing(entry))


def first_param_nil(tree):
    """`(mod (() …) …)`: the first position of the main parameter list is `()`."""
    ps = tree[1][1] if len(tree[1]) > 1 else None
    if not (ps and ps[0] == "list" and ps[1]):
        return False
    h = ps[1][0]
    return h[0] == "nil" or (h[0] == "list" and not h[1] and h[2] is None)


def dup_under_guard(tree):
    """finding C02-F5, by its mechanism: the saturation test of cl23+ CSE looks at the conditions enclosing the FIRST
    instance only and calls an `if` saturated when the expression occurs somewhere in BOTH of its branches.  So: some
    `if` has the same non-trivial expression in its then-branch and in its else-branch, and at least one of the two
    occurrences sits under a FURTHER `if` branch inside that branch (a guard the hoisted binding ignores).  Expressions
    repeated under sibling conditionals ((+ (if A E 0) (if B E 0))) do not match: they are compiled correctly."""
    from progen import text as _text

    def collect(t, nested, acc):
        if t[0] != "list" or not t[1]:
            return
        it = t[1]
        if it[0] in (("sym", "q"), ("sym", "quote")):
            return
        k = _text(t)
        if len(k) > 6:
            acc.setdefault(k, []).append(nested)
        if it[0] == ("sym", "if") and len(it) == 4:
            collect(it[1], nested, acc)
            collect(it[2], True, acc)
            collect(it[3], True, acc)
        else:
            for x in it:
                collect(x, nested, acc)

    def scan(t):
        if t[0] != "list" or not t[1]:
            return False
        it = t[1]
        if it[0] in (("sym", "q"), ("sym", "quote")):
            return False
        if it[0] == ("sym", "if") and len(it) == 4:
            th, el = {}, {}
            collect(it[2], False, th)
            collect(it[3], False, el)
            for k in th:
                if k in el and (any(th[k]) or any(el[k])):
                    return True
        return any(scan(x) for x in it)

    for f in tree[1][2:]:
        if f[0] == "list" and f[1] and f[1][0][0] == "sym" and f[1][0][1] in ("defun", "defun-inline") and len(f[1]) == 4:
            if scan(f[1][3]):
                return True
    return scan(tree[1][-1])


def defconst_let_names(tree):
    """names bound by let / let* / assign forms inside the bodies of defconst forms (C01-F10)."""
    out = set()

    def walk(t):
        if t[0] != "list" or not t[1]:
            return
        h = t[1][0]
        if h[0] == "sym" and h[1] in ("let", "let*") and len(t[1]) >= 2 and t[1][1][0] == "list":
            for b in t[1][1][1]:
                if b[0] == "list" and b[1] and b[1][0][0] == "sym":
                    out.add(b[1][0][1])
        if h[0] == "sym" and h[1] in ("assign", "assign-inline", "assign-lambda"):
            for pat in t[1][1:-1:2]:
                identifiers(pat, out)
        for x in t[1]:
            walk(x)

    for f in tree[1] if tree[0] == "list" else []:
        if f[0] == "list" and len(f[1]) == 3 and f[1][0] == ("sym", "defconst"):
            walk(f[1][2])
    return out


def classify(pid, p, entry, src_out, impl_out, proghex):
    """signature of an oracle failure (used to match known findings)."""
    d = p["dialect"]
    if strategy_on(d, entry) and first_param_nil(p["tree"]):
        # C02-F4: the `com` sub-compilations of the if branches strip the (already stripped) environment again
        return "compile:cl23-nil-first-param-env-stripped-twice"
    if strategy_on(d, entry) and impl_out[:1] != "V" and dup_under_guard(p["tree"]):
        # C02-F5: CSE binds an expression repeated under different guards above the guards
        return "compile:cl23-cse-hoists-above-guard"
    if d in ("cl21", "cl22") and any((n + "_$_").encode().hex() in proghex for n in defconst_let_names(p["tree"])):
        # C01-F10: the renamed name of a let variable bound inside a defconst body is part of the constant's value
        return "compile:defconst-let-name-leak"
    if d != "classic" and inline_with_toplevel_capture(p["tree"]):
        return "compile:inline-toplevel-capture"
    if d == "cl21" and has_at_bytes_literal(p["tree"]):
        return "compile:cl21-macro-arg-at-literal"
    if d != "classic" and has_quoted_symbol(p["tree"]) and "5f245f" in proghex:
        return "compile:quoted-bound-name-renamed"
    if d == "cl22" and leaked_names(p, proghex):
        return "compile:cl22-feopt-leaked-name"
    if d in ("cl23", "cl23.1", "cl24") and any(n.encode().hex() in proghex for n in macro_template_names(p["tree"])):
        # C10-F2: a name written in a defmacro template outside (unquote …) is emitted as a quoted atom
        return "compile:cl23-macro-template-name-quoted"
    if d == "strict21" and optimizing(entry) and "ff0140" in proghex:
        return "compile:strict21-opt-quoted-at"
    if d in ("classic", "cl21", "cl22") and has_at_literal(p["tree"], d == "classic"):
        return "compile:nonstrict-literal-64-is-env"
    if (d != "cl22" or not feopt_on(entry)) and rest_call_of_binding_inline(p["tree"]):
        # (under cl22 the same code path runs whenever the frontend optimiser is off: entry file:?0?)
        return "compile:inline-rest-binding-form"
    if classic_optimised(d, entry) and max_rest_run(p["tree"]) >= 15:
        return "compile:classic-opt-signed-path"
    return f"compile:{pid}:{d}:{entry}:value-mismatch"


def differential(chk, pid, progs, entries, label, model_lines=None, extra_check=None):
    """compile + run every program under every entry; compare with the source semantics."""
    ml = [p["rich"] + " " + " ".join(gen.hexv(a) for a in p["args"]) for p in progs]
    mo = lib.run_model("src", ml, timeout=900, per_job=20)
    results = {}
    lines_of = {}
    for e in entries:
        il = [e + " " + p["text"].encode().hex() + " " + " ".join(gen.hexv(a) for a in p["args"]) for p in progs]
        lines_of[e] = il
        results[e] = lib.run_impl("compile", il, timeout=(20 if chk.tier == "quick" else 120), per_job=4)
    # a time limit hit on a busy machine is not a verdict: every such line (of every entry, together) is run
    # again, alone, with a limit far beyond anything a healthy compile of these programs needs
    slow = [(e, i) for e in entries for i, o in enumerate(results[e]) if o.split()[:1] == ["timeout"]]
    if slow:
        again = lib.run_impl("compile", [lines_of[e][i] for e, i in slow], timeout=(60 if chk.tier == "quick" else 300), per_job=1)
        for (e, i), o in zip(slow, again):
            results[e][i] = o
            if o.split()[:1] == ["timeout"]:
                # the compiler does not finish on an accepted-looking program: C14's subject; keep the text
                chk.cov.setdefault("compiles_that_do_not_finish", []).append(
                    {"entry": e, "dialect": progs[i]["dialect"], "program": progs[i]["text"][:1500]})
            chk.count(f"{label}:{e}:retried-after-timeout")
    for i, p in enumerate(progs):
        mf = mo[i].split()
        nontrivial = p["nfns"] > 0 or any(k in p["text"] for k in ("(let", "(assign", "(lambda"))
        if not mf or mf[0] != "S":
            chk.fail("correspondence", "src-model-broken", {"program": p["text"]}, mo[i][:200])
            continue
        for e in entries:
            out = results[e][i]
            f = out.split()
            for k, a in enumerate(p["args"]):
                chk.note_case((p["text"], gen.hexv(a), e), nontrivial)
            if not f or f[0] not in ("C", "E"):
                # panic / abort / timeout of the compiler itself: the program is not "accepted";
                # crashes are C14's subject and are only counted here
                chk.count(f"{label}:{e}:compiler-{out.split()[0] if out else 'none'}")
                continue
            if f[0] == "E":
                chk.count(f"{label}:{e}:compile-error")
                continue
            chk.count(f"{label}:{e}:compiled")
            for k, (s, r) in enumerate(zip(mf[1:], f[2:])):
                chk.count(f"{label}:src-{s[0]}/impl-{r[0]}")
                if s[0] == "V" and s != r:
                    sig = classify(pid, p, e, s, r, f[1])
                    if p["dialect"] == "cl22" and sig.endswith("value-mismatch") and feopt_on(e):
                        if feopt_specific(p, k, s):
                            sig = "compile:cl22-feopt-unsound"
                    chk.fail("oracle", sig,
                             {"dialect": p["dialect"], "entry": e, "program": p["text"], "args": gen.hexv(p["args"][k]),
                              "args_text": gen.show(p["args"][k])},
                             {"source_meaning": s, "compiled_result": r, "features": p["features"],
                              "leaked_names": leaked_names(p, f[1])})
            if extra_check:
                extra_check(p, e, mf, f)
        for ftr in p["features"]:
            chk.count(f"feature:{ftr}")
    if progs:
        p = progs[len(progs) // 2]
        chk.sample({"dialect": p["dialect"], "program": p["text"][:600], "args": [gen.show(a) for a in p["args"]],
                    "source_meaning": mo[len(progs) // 2][:200]})
    return mo, results


def name_lookup_correspondence(chk, rng, n):
    """`create_name_lookup_` model vs the paths the real compiler emits for `(mod PAT NAME)`."""
    ml, il, exp_names = [], [], []
    for _ in range(n):
        g = progen.ProgGen(rng, "cl21", ["destructure", "captures"])
        k = rng.choice([1, 2, 3, 5, 8, 13, 21, 34, 40])
        pat, types, argv, shape = g.pattern(k, allow_nested=True, prefix="Q")
        names = sorted(types)
        name = rng.choice(names)
        src = progen.L(progen.S("mod"), pat, progen.L(progen.S("include"), progen.S("*standard-cl-21*")), progen.S(name))
        ml.append(f"L {progen.rich(pat)} {name.encode().hex()}")
        il.append("text:O0 " + progen.text(src).encode().hex())
        exp_names.append((progen.text(pat), name))
    mo = lib.run_model("src", ml)
    io = lib.run_impl("compile", il)
    bad = 0
    for (pt, nm), a, b in zip(exp_names, mo, io):
        chk.note_case(("namelookup", pt, nm))
        af, bf = a.split(), b.split()
        if len(af) != 2 or af[0] != "P" or len(bf) < 2 or bf[0] != "C":
            bad += 1
            chk.fail("correspondence", "corr:name-lookup", {"pattern": pt, "name": nm}, {"model": a, "impl": b[:200]})
            continue
        q = int(af[1])
        expect = gen.hexv(gen.lst([b"\x02", (b"\x01", gen.int_atom(2 * q + 1)), gen.lst([b"\x04", (b"\x01", b""), b"\x01"])]))
        if bf[1] != expect:
            bad += 1
            if bad <= 3:
                chk.fail("correspondence", "corr:name-lookup", {"pattern": pt, "name": nm},
                         {"model_path": q, "expected_program": expect, "impl_program": bf[1]})
    chk.count("name-lookup:cases", n)
    chk.count("name-lookup:disagreements", bad)
    chk.sample({"name_lookup_case": ml[0], "model": mo[0], "impl": io[0][:120]})


CORE_FEATURES = ["functions", "destructure", "captures", "literals", "manyparams"]


def core_correspondence(chk, rng, n, dialects=("cl21",)):
    """Layer B tie: `Core.compileCore` (Lean) must be byte-identical to the real compiler's
    non-optimising output on the core language, satisfy the theorem's decidable hypothesis
    `progWF`, and `Core.evalProg` must agree with `Lang.evalSrc` and with the compiled run."""
    for d in dialects:
        progs = gen_programs(rng, d, n, nargs=3, features=CORE_FEATURES)
        ml = [p["rich"] + " " + " ".join(gen.hexv(a) for a in p["args"]) for p in progs]
        mo = lib.run_model("core", ml, per_job=20)
        so = lib.run_model("src", ml, per_job=20)
        io = lib.run_impl("compile", ["text:O0 " + p["text"].encode().hex() + " " + " ".join(gen.hexv(a) for a in p["args"])
                                      for p in progs], per_job=4, timeout=60)
        for p, a, s, b in zip(progs, mo, so, io):
            af, sf, bf = a.split(), s.split(), b.split()
            chk.count(f"core:{d}:{af[0] if af else 'none'}")
            if not af or af[0] != "K":
                continue
            chk.note_case(("core", p["text"]), p["nfns"] > 0)
            if af[1] != "wf":
                chk.fail("correspondence", "corr:core-progWF", {"program": p["text"]},
                         "generated core program does not satisfy the theorem's hypothesis progWF")
            if not bf or bf[0] != "C":
                chk.count(f"core:{d}:impl-{bf[0] if bf else 'none'}")
                continue
            if af[2] != bf[1]:
                chk.count(f"core:{d}:BYTES-DIFFER")
                chk.fail("correspondence", "corr:core-compile-bytes", {"dialect": d, "program": p["text"]},
                         {"model": af[2][:400], "impl": bf[1][:400]})
                # search for a failing input: does the real output still compute the source meaning?
                for k, (x, y) in enumerate(zip(sf[1:], bf[2:])):
                    if x[0] == "V" and x != y:
                        chk.fail("oracle", classify("C01", p, "text:O0", x, y, bf[1]),
                                 {"dialect": d, "entry": "text:O0", "program": p["text"], "args": gen.hexv(p["args"][k])},
                                 {"source_meaning": x, "compiled_result": y})
            else:
                chk.count(f"core:{d}:bytes-equal")
            for k, (x, y, z) in enumerate(zip(af[3:], bf[2:], sf[1:])):
                if x[0] == "V" and (x != z):
                    chk.fail("correspondence", "corr:core-vs-src-semantics", {"program": p["text"], "args": gen.hexv(p["args"][k])},
                             {"evalCore": x, "evalSrc": z})
        if progs:
            chk.sample({"core_program": progs[0]["text"][:300], "model": mo[0][:200]})


CORE2_FEATURES = CORE_FEATURES + ["inlines", "lets", "dotcall", "shadow"]
CORE2_DENSE = ["functions", "destructure", "captures", "literals", "inlines", "lets", "dotcall", "dense", "shadow"]
CORE2_INLINES = ["functions", "destructure", "captures", "literals", "manyparams", "inlines", "dotcall", "dense"]
CORE2_MAX_LINE = 12000


def core2_classes(tree):
    """structural classes of a core2 program (for the evidence distribution): which of the situations
    the expansion lemma case-splits on occur."""
    forms = tree[1]
    inl, fun = {}, {}
    for f in forms:
        if f[0] == "list" and len(f[1]) == 4 and f[1][0][0] == "sym" and f[1][0][1] in ("defun", "defun-inline"):
            (inl if f[1][0][1] == "defun-inline" else fun)[f[1][1][1]] = (f[1][2], f[1][3])
    tags = set()

    def count_sym(t, name):
        if t[0] == "sym":
            return 1 if t[1] == name else 0
        if t[0] == "list":
            return sum(count_sym(x, name) for x in t[1]) + (count_sym(t[2], name) if t[2] is not None else 0)
        return 0

    def names_of(pat, acc):
        if pat[0] == "sym":
            acc.append(pat[1])
        elif pat[0] == "list":
            it = pat[1]
            if len(it) == 3 and it[0] == ("sym", "@") and pat[2] is None:
                acc.append(it[1][1])
                names_of(it[2], acc)
            else:
                for x in it:
                    names_of(x, acc)
                if pat[2] is not None:
                    names_of(pat[2], acc)
        return acc

    def walk(t, where):
        if t[0] != "list" or not t[1]:
            return
        h = t[1][0]
        if h[0] == "sym":
            if h[1] in inl:
                tags.add("inline-call-in-" + where)
                pat = inl[h[1]][0]
                nparams = len(pat[1]) if pat[0] == "list" else 0
                nargs = len(t[1]) - 1
                if nargs > nparams:
                    tags.add("inline-surplus-args" + ("-dotted" if pat[0] == "list" and pat[2] is not None else "-dropped"))
                if any(x[0] == "list" and x[1] and x[1][0][0] == "sym" and x[1][0][1] in inl for x in t[1][1:]):
                    tags.add("inline-call-as-inline-argument")
            elif h[1] in fun:
                tags.add("function-call-in-" + where)
            elif h[1] in ("let", "let*"):
                tags.add(h[1] + "-in-" + where)
                if len(t[1]) == 3 and t[1][1][0] == "list":
                    for b in t[1][1][1]:
                        if b[0] == "list" and len(b[1]) == 2:
                            walk(b[1][1], where + "-binding")
                    walk(t[1][2], where + "-letbody" if not where.endswith("-letbody") else where)
                    return
            elif h[1] == "q":
                return
        for x in t[1][1:]:
            walk(x, where)

    for name, (pat, body) in inl.items():
        walk(body, "inline")
        ns = names_of(pat, [])
        cs = [count_sym(body, n) for n in ns]
        if any(c == 0 for c in cs):
            tags.add("inline-parameter-dropped")
        if any(c >= 2 for c in cs):
            tags.add("inline-parameter-duplicated")
        if pat[0] == "list" and (pat[2] is not None or any(x[0] == "list" for x in pat[1])):
            tags.add("inline-destructuring-parameters")
    for name, (pat, body) in fun.items():
        walk(body, "function")
    walk(forms[-1], "main")
    return tags


def core2_correspondence(chk, rng, n, dialects=("cl21",), features=None, label="core2"):
    """Layer B2 tie: `Core2.compileCore2` (Lean: inline expansion + let hoisting + core code generator)
    must be byte-identical to the real compiler's non-optimising output on the core2 language (core +
    defun-inline with destructuring parameters + let/let*), every generated program must satisfy the
    theorem's decidable hypothesis `Core2.progWF`, and `Core2.evalProg` must agree with `Lang.evalSrc`
    (and, one-directionally, with the compiled run)."""
    feats = features if features is not None else CORE2_FEATURES
    for d in dialects:
        progs = gen_programs(rng, d, n, nargs=3, features=feats)
        ml = [p["rich"] + " " + " ".join(gen.hexv(a) for a in p["args"]) for p in progs]
        mo = lib.run_model("core2", ml, per_job=20)
        so = lib.run_model("src", ml, per_job=20)
        # call-by-name expansion can blow the emitted code up exponentially (the real compiler then
        # needs minutes): only programs whose model output is below a size bound go to the real compiler
        sel = [i for i, a in enumerate(mo) if a.startswith("nocompile") or (a.startswith("K ") and len(a) <= CORE2_MAX_LINE)]
        io_sel = lib.run_impl("compile", ["text:O0 " + progs[i]["text"].encode().hex() + " " + " ".join(gen.hexv(a) for a in progs[i]["args"])
                                          for i in sel], per_job=4, timeout=60)
        io = ["skipped"] * len(progs)
        for i, b in zip(sel, io_sel):
            io[i] = b
        for p, a, s, b in zip(progs, mo, so, io):
            af, sf, bf = a.split(), s.split(), b.split()
            chk.count(f"{label}:{d}:{af[0] if af else 'none'}")
            if not af or af[0] not in ("K", "nocompile"):
                continue
            if b == "skipped":
                chk.count(f"{label}:{d}:skipped-large-output")
                continue
            uses = [k for k in ("inlines", "lets", "destructure", "captures", "dotcall", "shadow") if k in p["features"]]
            chk.note_case((label, p["text"]), p["nfns"] > 0 or "lets" in p["features"])
            if af[1] != "wf":
                chk.count(f"{label}:{d}:notwf")
                chk.fail("correspondence", "corr:core2-progWF", {"dialect": d, "program": p["text"]},
                         "generated core2 program does not satisfy the theorem's hypothesis Core2.progWF")
            if af[0] == "nocompile":
                if bf and bf[0] == "C":
                    chk.fail("correspondence", "corr:core2-model-rejects", {"dialect": d, "program": p["text"]},
                             "the real compiler accepts a core2 program the model does not compile")
                continue
            if not bf or bf[0] != "C":
                chk.count(f"{label}:{d}:impl-{bf[0] if bf else 'none'}")
                if bf and bf[0] == "E":
                    chk.fail("correspondence", "corr:core2-impl-rejects", {"dialect": d, "program": p["text"]}, b[:200])
                continue
            for u in uses:
                chk.count(f"{label}:{d}:uses-{u}")
            for tag in core2_classes(p["tree"]):
                chk.count(f"core2-class:{tag}")
            if af[2] != bf[1]:
                chk.count(f"{label}:{d}:BYTES-DIFFER")
                chk.fail("correspondence", "corr:core2-compile-bytes", {"dialect": d, "program": p["text"]},
                         {"model": af[2][:400], "impl": bf[1][:400]})
                # search for a failing input: does the real output still compute the source meaning?
                for k, (x, y) in enumerate(zip(sf[1:], bf[2:])):
                    if x[0] == "V" and x != y:
                        chk.fail("oracle", classify("C01", p, "text:O0", x, y, bf[1]),
                                 {"dialect": d, "entry": "text:O0", "program": p["text"], "args": gen.hexv(p["args"][k])},
                                 {"source_meaning": x, "compiled_result": y})
            else:
                chk.count(f"{label}:{d}:bytes-equal")
            for k, (x, y, z) in enumerate(zip(af[3:], bf[2:], sf[1:])):
                chk.count(f"{label}:eval2-{x[0]}/src-{z[0]}/impl-{y[0]}")
                if (x[0] == "V" or z[0] == "V") and x[0] != "U" and z[0] != "U" and x != z:
                    chk.fail("correspondence", "corr:core2-vs-src-semantics", {"program": p["text"], "args": gen.hexv(p["args"][k])},
                             {"Core2.evalProg": x, "evalSrc": z})
                if x[0] == "V" and x != y:
                    # the theorem's conclusion, observed on the real compiler's output
                    chk.fail("oracle", classify("C01", p, "text:O0", x, y, bf[1]),
                             {"dialect": d, "entry": "text:O0", "program": p["text"], "args": gen.hexv(p["args"][k])},
                             {"source_meaning": x, "compiled_result": y})
        if progs:
            k = next((i for i, p in enumerate(progs) if "inlines" in p["features"] and "lets" in p["features"] and mo[i].startswith("K")), 0)
            chk.sample({"core2_program": progs[k]["text"][:400], "model": mo[k][:200]})


def quoted_name_probe(chk, rng, dialects=("cl21", "strict21", "cl23", "cl24")):
    """a quoted bare identifier that is spelled like a bound variable (function / inline parameter,
    let name): its source meaning is the identifier's bytes."""
    S, L, I = progen.S, progen.L, progen.I
    cases = []
    for d in dialects:
        sig = L(S("include"), S(progen.SIGILS[d]))
        nm = rng.choice(["A", "Bq", "val", "N1"])
        q = rng.choice([lambda x: L(S("q"), tail=S(x)), lambda x: L(S("quote"), S(x))])
        cases.append((d, L(S("mod"), L(S("X")), sig, L(S("defun"), S("F"), L(S(nm)), q(nm)), L(S("F"), S("X")))))
        cases.append((d, L(S("mod"), L(S("X")), sig, L(S("defun-inline"), S("G"), L(S(nm)), L(S("c"), S(nm), q(nm))), L(S("G"), S("X")))))
        cases.append((d, L(S("mod"), L(S("X")), sig, L(S("let"), L(L(S(nm), L(S("+"), S("X"), I(1)))), L(S("c"), S(nm), q(nm))))))
        cases.append((d, L(S("mod"), L(S("X")), sig, q("X"))))                       # main parameters are not renamed
        cases.append((d, L(S("mod"), L(S("X")), sig, L(S("defun"), S("F"), L(S(nm)), L(S("q"), tail=L(S(nm)))), L(S("F"), S("X")))))  # quoted list: kept
    # C01-F8: a string / hex literal spelling `@` as a macro argument in cl21
    sig21 = L(S("include"), S(progen.SIGILS["cl21"]))
    cases.append(("cl21", L(S("mod"), L(S("X")), sig21, L(S("list"), ("hex", b"@"), S("X")))))
    cases.append(("cl21", L(S("mod"), L(S("X")), sig21, L(S("c"), ("hex", b"@"), S("X")))))       # no macro: quoted
    # C01-F9: an inline function whose whole parameter list is a capture
    for d in dialects:
        sig = L(S("include"), S(progen.SIGILS[d]))
        ps = L(S("@"), S("Q"), L(S("A"), S("B")))
        cases.append((d, L(S("mod"), L(S("X")), sig, L(S("defun-inline"), S("F"), ps, L(S("c"), S("Q"), S("A"))), L(S("F"), S("X"), I(2), I(3)))))
        cases.append((d, L(S("mod"), L(S("X")), sig, L(S("defun"), S("F"), ps, L(S("c"), S("Q"), S("A"))), L(S("F"), S("X"), I(2), I(3)))))   # non-inline: fine
    progs = []
    for d, tree in cases:
        progs.append({"tree": tree, "text": progen.text(tree), "rich": progen.rich(tree), "dialect": d,
                      "args": [gen.lst([gen.int_atom(rng.randint(1, 90))])], "nfns": 1, "features": ["quoted-name"]})
    differential(chk, "C01", progs, entries=["text:O0"], label="quoted-name")
