"""Shared machinery of the compiler-family checks (C01, C02, C03, C13, C16, C17): program
generation, differential runs (real compiler + clvmr vs the Lean source semantics),
classification of failures into known-finding signatures."""
import re

import gen
import lib
import progen


def gen_programs(rng, dialect, n, nargs=3, features=None):
    progs = []
    for _ in range(n):
        feats = features
        if feats is None:
            allf = progen.ProgGen.ALL_FEATURES
            feats = [f for f in allf if rng.random() < 0.7]
        p = progen.gen_program(rng, dialect, feats)
        p["args"] = [p["argv"]() for _ in range(nargs)]
        p["text"] = progen.text(p["tree"])
        p["rich"] = progen.rich(p["tree"])
        progs.append(p)
    return progs


IDENT = re.compile(rb"[A-Za-z][A-Za-z0-9_$]+")


def identifiers(tree, acc=None):
    acc = acc if acc is not None else set()
    if tree[0] == "sym":
        acc.add(tree[1])
    elif tree[0] == "list":
        for x in tree[1]:
            identifiers(x, acc)
        if tree[2] is not None:
            identifiers(tree[2], acc)
    return acc


def quoted_atoms(v, acc=None):
    """all atoms of a CLVM value"""
    acc = acc if acc is not None else set()
    stack = [v]
    while stack:
        x = stack.pop()
        if isinstance(x, tuple):
            stack.append(x[0])
            stack.append(x[1])
        else:
            acc.add(x)
    return acc


def leaked_names(p, proghex):
    """source identifiers (variables / generated names) that occur as atoms of the emitted code"""
    try:
        atoms = quoted_atoms(gen.unhex(proghex))
    except Exception:
        return []
    names = {n.encode() for n in identifiers(p["tree"]) if re.fullmatch(r"[A-Z][0-9]+|[A-Za-z_]+_?[0-9]+", n)}
    leaked = []
    for a in atoms:
        if a in names or re.search(rb"_\$_[0-9]+", a):
            leaked.append(a.decode("latin1"))
    return sorted(leaked)


def optimizing(entry):
    return entry == "text:O1" or (entry.startswith("file:") and entry[5] == "1")


def classic_optimised(dialect, entry):
    """does this build run the classic (stage_2) optimiser over the emitted code?"""
    if dialect == "classic":
        return True
    return entry == "text:O1" or (entry.startswith("file:") and entry[7] == "1")


def max_rest_run(tree):
    """longest parameter list (number of consecutive `rest` steps a path may need)."""
    best = 0
    if tree[0] == "list":
        best = len(tree[1])
        for x in tree[1]:
            best = max(best, max_rest_run(x))
        if tree[2] is not None:
            best = max(best, max_rest_run(tree[2]))
    return best


BINDERS = ("let", "let*", "assign", "assign-inline", "assign-lambda", "lambda")


def contains_sym(tree, names):
    if tree[0] == "sym":
        return tree[1] in names
    if tree[0] == "list":
        return any(contains_sym(x, names) for x in tree[1]) or (tree[2] is not None and contains_sym(tree[2], names))
    return False


def rest_call_of_binding_inline(tree):
    """a call `(f … &rest t)` of a defun-inline."""
    inl = set()
    for f in tree[1]:
        if f[0] == "list" and len(f[1]) == 4 and f[1][0] == ("sym", "defun-inline"):
            inl.add(f[1][1][1])
    if not inl:
        return False

    def walk(t):
        if t[0] != "list":
            return False
        it = t[1]
        if it and it[0][0] == "sym" and it[0][1] in inl and ("sym", "&rest") in it:
            return True
        return any(walk(x) for x in it)
    return walk(tree)


def feopt_on(entry):
    return entry.startswith("text:") or (entry.startswith("file:") and entry[6] == "1")


_feopt_cache = {}


def feopt_specific(p, k, expected):
    """is the cl22 failure absent when the same program is compiled with frontend_opt off?"""
    key = (p["text"], k)
    if key not in _feopt_cache:
        line = "file:000 " + p["text"].encode().hex() + " " + gen.hexv(p["args"][k])
        out = lib.run_impl("compile", [line], timeout=60)[0].split()
        _feopt_cache[key] = len(out) > 2 and out[0] == "C" and out[2] == expected
    return _feopt_cache[key]


def has_at_literal(tree, classic):
    """an integer literal 64 (the byte `@`) — or, for the classic reader, a hex literal 0x40."""
    if tree[0] == "int":
        return tree[1] == 64
    if tree[0] == "hex":
        return classic and tree[1] == b"@"
    if tree[0] == "list":
        return any(has_at_literal(x, classic) for x in tree[1]) or (tree[2] is not None and has_at_literal(tree[2], classic))
    return False


def classify(pid, p, entry, src_out, impl_out, proghex):
    """signature of an oracle failure (used to match known findings)."""
    d = p["dialect"]
    if d == "cl22" and leaked_names(p, proghex):
        return "compile:cl22-feopt-leaked-name"
    if d == "strict21" and optimizing(entry) and "ff0140" in proghex:
        return "compile:strict21-opt-quoted-at"
    if d in ("classic", "cl21", "cl22") and has_at_literal(p["tree"], d == "classic"):
        return "compile:nonstrict-literal-64-is-env"
    if d != "cl22" and rest_call_of_binding_inline(p["tree"]):
        return "compile:inline-rest-binding-form"
    if classic_optimised(d, entry) and max_rest_run(p["tree"]) >= 15:
        return "compile:classic-opt-signed-path"
    return f"compile:{pid}:{d}:{entry}:value-mismatch"


def differential(chk, pid, progs, entries, label, model_lines=None, extra_check=None):
    """compile + run every program under every entry; compare with the source semantics."""
    ml = [p["rich"] + " " + " ".join(gen.hexv(a) for a in p["args"]) for p in progs]
    mo = lib.run_model("src", ml, timeout=900, per_job=20)
    results = {}
    for e in entries:
        il = [e + " " + p["text"].encode().hex() + " " + " ".join(gen.hexv(a) for a in p["args"]) for p in progs]
        results[e] = lib.run_impl("compile", il, timeout=(20 if chk.tier == "quick" else 120), per_job=4)
        # a time limit hit on a busy machine is not a verdict: every such line is run again, alone,
        # with a limit far beyond anything a healthy compile of these programs needs
        slow = [i for i, o in enumerate(results[e]) if o.split()[:1] == ["timeout"]]
        if slow:
            again = lib.run_impl("compile", [il[i] for i in slow], timeout=600, per_job=1)
            for i, o in zip(slow, again):
                results[e][i] = o
            chk.count(f"{label}:{e}:retried-after-timeout", len(slow))
    for i, p in enumerate(progs):
        mf = mo[i].split()
        nontrivial = p["nfns"] > 0 or any(k in p["text"] for k in ("(let", "(assign", "(lambda"))
        if not mf or mf[0] != "S":
            chk.fail("correspondence", "src-model-broken", {"program": p["text"]}, mo[i][:200])
            continue
        for e in entries:
            out = results[e][i]
            f = out.split()
            for k, a in enumerate(p["args"]):
                chk.note_case((p["text"], gen.hexv(a), e), nontrivial)
            if not f or f[0] not in ("C", "E"):
                # panic / abort / timeout of the compiler itself: the program is not "accepted";
                # crashes are C14's subject and are only counted here
                chk.count(f"{label}:{e}:compiler-{out.split()[0] if out else 'none'}")
                continue
            if f[0] == "E":
                chk.count(f"{label}:{e}:compile-error")
                continue
            chk.count(f"{label}:{e}:compiled")
            for k, (s, r) in enumerate(zip(mf[1:], f[2:])):
                chk.count(f"{label}:src-{s[0]}/impl-{r[0]}")
                if s[0] == "V" and s != r:
                    sig = classify(pid, p, e, s, r, f[1])
                    if p["dialect"] == "cl22" and sig.endswith("value-mismatch") and feopt_on(e):
                        if feopt_specific(p, k, s):
                            sig = "compile:cl22-feopt-unsound"
                    chk.fail("oracle", sig,
                             {"dialect": p["dialect"], "entry": e, "program": p["text"], "args": gen.hexv(p["args"][k]),
                              "args_text": gen.show(p["args"][k])},
                             {"source_meaning": s, "compiled_result": r, "features": p["features"],
                              "leaked_names": leaked_names(p, f[1])})
            if extra_check:
                extra_check(p, e, mf, f)
        for ftr in p["features"]:
            chk.count(f"feature:{ftr}")
    if progs:
        p = progs[len(progs) // 2]
        chk.sample({"dialect": p["dialect"], "program": p["text"][:600], "args": [gen.show(a) for a in p["args"]],
                    "source_meaning": mo[len(progs) // 2][:200]})
    return mo, results


def name_lookup_correspondence(chk, rng, n):
    """`create_name_lookup_` model vs the paths the real compiler emits for `(mod PAT NAME)`."""
    ml, il, exp_names = [], [], []
    for _ in range(n):
        g = progen.ProgGen(rng, "cl21", ["destructure", "captures"])
        k = rng.choice([1, 2, 3, 5, 8, 13, 21, 34, 40])
        pat, types, argv, shape = g.pattern(k, allow_nested=True, prefix="Q")
        names = sorted(types)
        name = rng.choice(names)
        src = progen.L(progen.S("mod"), pat, progen.L(progen.S("include"), progen.S("*standard-cl-21*")), progen.S(name))
        ml.append(f"L {progen.rich(pat)} {name.encode().hex()}")
        il.append("text:O0 " + progen.text(src).encode().hex())
        exp_names.append((progen.text(pat), name))
    mo = lib.run_model("src", ml)
    io = lib.run_impl("compile", il)
    bad = 0
    for (pt, nm), a, b in zip(exp_names, mo, io):
        chk.note_case(("namelookup", pt, nm))
        af, bf = a.split(), b.split()
        if len(af) != 2 or af[0] != "P" or len(bf) < 2 or bf[0] != "C":
            bad += 1
            chk.fail("correspondence", "corr:name-lookup", {"pattern": pt, "name": nm}, {"model": a, "impl": b[:200]})
            continue
        q = int(af[1])
        expect = gen.hexv(gen.lst([b"\x02", (b"\x01", gen.int_atom(2 * q + 1)), gen.lst([b"\x04", (b"\x01", b""), b"\x01"])]))
        if bf[1] != expect:
            bad += 1
            if bad <= 3:
                chk.fail("correspondence", "corr:name-lookup", {"pattern": pt, "name": nm},
                         {"model_path": q, "expected_program": expect, "impl_program": bf[1]})
    chk.count("name-lookup:cases", n)
    chk.count("name-lookup:disagreements", bad)
    chk.sample({"name_lookup_case": ml[0], "model": mo[0], "impl": io[0][:120]})


CORE_FEATURES = ["functions", "destructure", "captures", "literals", "manyparams"]


def core_correspondence(chk, rng, n, dialects=("cl21",)):
    """Layer B tie: `Core.compileCore` (Lean) must be byte-identical to the real compiler's
    non-optimising output on the core language, satisfy the theorem's decidable hypothesis
    `progWF`, and `Core.evalProg` must agree with `Lang.evalSrc` and with the compiled run."""
    for d in dialects:
        progs = gen_programs(rng, d, n, nargs=3, features=CORE_FEATURES)
        ml = [p["rich"] + " " + " ".join(gen.hexv(a) for a in p["args"]) for p in progs]
        mo = lib.run_model("core", ml, per_job=20)
        so = lib.run_model("src", ml, per_job=20)
        io = lib.run_impl("compile", ["text:O0 " + p["text"].encode().hex() + " " + " ".join(gen.hexv(a) for a in p["args"])
                                      for p in progs], per_job=4, timeout=60)
        for p, a, s, b in zip(progs, mo, so, io):
            af, sf, bf = a.split(), s.split(), b.split()
            chk.count(f"core:{d}:{af[0] if af else 'none'}")
            if not af or af[0] != "K":
                continue
            chk.note_case(("core", p["text"]), p["nfns"] > 0)
            if af[1] != "wf":
                chk.fail("correspondence", "corr:core-progWF", {"program": p["text"]},
                         "generated core program does not satisfy the theorem's hypothesis progWF")
            if not bf or bf[0] != "C":
                chk.count(f"core:{d}:impl-{bf[0] if bf else 'none'}")
                continue
            if af[2] != bf[1]:
                chk.count(f"core:{d}:BYTES-DIFFER")
                chk.fail("correspondence", "corr:core-compile-bytes", {"dialect": d, "program": p["text"]},
                         {"model": af[2][:400], "impl": bf[1][:400]})
                # search for a failing input: does the real output still compute the source meaning?
                for k, (x, y) in enumerate(zip(sf[1:], bf[2:])):
                    if x[0] == "V" and x != y:
                        chk.fail("oracle", classify("C01", p, "text:O0", x, y, bf[1]),
                                 {"dialect": d, "entry": "text:O0", "program": p["text"], "args": gen.hexv(p["args"][k])},
                                 {"source_meaning": x, "compiled_result": y})
            else:
                chk.count(f"core:{d}:bytes-equal")
            for k, (x, y, z) in enumerate(zip(af[3:], bf[2:], sf[1:])):
                if x[0] == "V" and (x != z):
                    chk.fail("correspondence", "corr:core-vs-src-semantics", {"program": p["text"], "args": gen.hexv(p["args"][k])},
                             {"evalCore": x, "evalSrc": z})
        if progs:
            chk.sample({"core_program": progs[0]["text"][:300], "model": mo[0][:200]})
