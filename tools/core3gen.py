"""Layer B3 of C01: generator stratum and model-vs-compiler tie for the core3 language
(core2 + constants evaluated at compile time).  `Core3Gen` is the scope-tracking generator of
progen.py with richer constants: `defconstant` carries a literal, `defconst` a CLOSED expression
that may call functions and inline functions (recursive ones included), use `if`, `let`, operators
and other constants — defined before OR after it — as long as the dependency graph stays acyclic."""
import gen
import lib
import progen
import compilers
from progen import S, L, I

CORE3_FEATURES = ["functions", "destructure", "captures", "literals", "inlines", "lets", "dotcall", "dense", "shadow",
                  "constants"]
CORE3_MAX_LINE = 12000


def SIGILS_PRESENT(forms):
    return len(forms) > 2 and forms[2][0] == "list" and forms[2][1] and forms[2][1][0] == ("sym", "include")


def idents(t, acc):
    if t[0] == "sym":
        acc.add(t[1])
    elif t[0] == "list":
        for x in t[1]:
            idents(x, acc)
        if t[2] is not None:
            idents(t[2], acc)
    return acc


class Core3Gen(progen.ProgGen):
    def __init__(self, rng, dialect, features=None, nparams=None):
        super().__init__(rng, dialect, features, nparams)
        self.pending = []      # (items list of the defconst form, name, type)

    def make_constant(self):
        rng = self.rng
        name = self.fresh("K")
        t = rng.choice(["int", "int", "bytes", "ilist"])
        r = rng.random()
        if r < 0.3 and t != "ilist":
            # literal constant under either keyword
            form = self.lit(t)
            while form[0] == "int" and form[1] == 64:     # `@`
                form = self.lit(t)
            self.consts.append((name, t, form))
            return L(S(rng.choice(["defconstant", "defconst"])), S(name), form)
        node = L(S("defconst"), S(name), progen.NILT)
        self.consts.append((name, t, None))
        self.pending.append((node[1], name, t))
        return node

    def program(self):
        rng = self.rng
        # more constants than the base generator makes (0..2): up to three more, known to the functions
        extra = [self.make_constant() for _ in range(rng.choice([0, 1, 1, 2, 3]))]
        p = super().program()
        forms = p["tree"][1]
        first = 3 if SIGILS_PRESENT(forms) else 2
        for node in extra:
            forms.insert(rng.randint(first, len(forms) - 1), node)
        helper_forms = [f for f in forms if f[0] == "list" and f[1] and f[1][0][0] == "sym" and
                        f[1][0][1] in ("defun", "defun-inline", "defconst", "defconstant")]
        body_of = {}
        for f in helper_forms:
            body_of[f[1][1][1]] = f[1]
        order = [c[0] for c in self.consts]

        def reach(names):
            seen = set()
            todo = list(names)
            while todo:
                x = todo.pop()
                if x in seen or x not in body_of:
                    continue
                seen.add(x)
                todo += list(idents(body_of[x][-1], set()))
            return seen

        all_consts, all_fns = list(self.consts), list(self.fns)
        pend_names = [n for (_, n, _) in self.pending]
        filled = set(c[0] for c in all_consts if c[0] not in pend_names)
        # fill the pending bodies in a random order; each may use constants already filled and
        # functions that reach only filled constants: acyclic by construction, any textual order
        todo = list(self.pending)
        rng.shuffle(todo)
        for items, name, ty in todo:
            okc = [c for c in all_consts if c[0] in filled and body_of.get(c[0]) is not None and reach([c[0]]) <= (filled | set(f["name"] for f in all_fns))]
            okf = [f for f in all_fns if not (reach([f["name"]]) & (set(order) - filled))]
            self.consts, self.fns = okc, okf
            saved = set(self.features)
            self.features -= {"shadow"}
            e = self.expr(progen.Scope({}), ty, rng.randint(1, 3))
            self.features = saved
            items[2] = e
            filled.add(name)
            self.use("constants")
            if any(x in set(f["name"] for f in all_fns) for x in idents(e, set())):
                self.use("const-calls-function")
            if any(x in set(order) for x in idents(e, set())):
                self.use("const-uses-const")
        self.consts, self.fns = all_consts, all_fns
        # make sure some computed constants are used by the main expression
        if self.pending and rng.random() < 0.8:
            k = rng.choice(self.pending)[1]
            forms[-1] = L(S("c"), S(k), forms[-1])
        p["features"] = sorted(self.used_features)
        return p


def gen_programs(rng, dialect, n, nargs=3, features=None):
    progs = []
    while len(progs) < n:
        p = Core3Gen(rng, dialect, features if features is not None else CORE3_FEATURES).program()
        if "(/ " in progen.text(p["tree"]):
            continue        # `/` is an inline function of the standard environment: outside the core languages
        p["args"] = [p["argv"]() for _ in range(nargs)]
        p["text"] = progen.text(p["tree"])
        p["rich"] = progen.rich(p["tree"])
        progs.append(p)
    return progs


def const_classes(p):
    """structural classes of the constants of a program (evidence distribution)."""
    forms = p["tree"][1]
    tags = set()
    cs, fs = {}, {}
    pos = {}
    for i, f in enumerate(forms):
        if f[0] == "list" and f[1] and f[1][0][0] == "sym":
            kw = f[1][0][1]
            if kw in ("defconst", "defconstant") and len(f[1]) == 3:
                cs[f[1][1][1]] = (kw, f[1][2])
                pos[f[1][1][1]] = i
            elif kw in ("defun", "defun-inline") and len(f[1]) == 4:
                fs[f[1][1][1]] = (kw, f[1][3])
                pos[f[1][1][1]] = i
    for k, (kw, b) in cs.items():
        ids = idents(b, set())
        tags.add(kw + ("-literal" if b[0] != "list" else "-computed"))
        for x in ids:
            if x in cs:
                tags.add("const-refers-to-" + ("later" if pos[x] > pos[k] else "earlier") + "-const")
            if x in fs:
                tags.add("const-calls-" + ("inline" if fs[x][0] == "defun-inline" else "function"))
        if b[0] == "list" and b[1] and b[1][0] == ("sym", "if"):
            tags.add("const-body-if")
        if "let" in ids or "let*" in ids:
            tags.add("const-body-let")
    for name, (kw, b) in fs.items():
        if idents(b, set()) & set(cs):
            tags.add("const-used-in-" + ("inline" if kw == "defun-inline" else "function"))
    main_ids = idents(forms[-1], set())
    if main_ids & set(cs):
        tags.add("const-used-in-main")
    live = set()
    todo = list(main_ids)
    while todo:
        x = todo.pop()
        if x in live:
            continue
        live.add(x)
        if x in cs:
            todo += list(idents(cs[x][1], set()))
        if x in fs:
            todo += list(idents(fs[x][1], set()))
    if any(k not in live for k in cs):
        tags.add("dead-constant")
    # a function that is live only because a live constant's body calls it
    live_nc = set()
    todo = list(main_ids)
    while todo:
        x = todo.pop()
        if x in live_nc:
            continue
        live_nc.add(x)
        if x in fs:
            todo += list(idents(fs[x][1], set()))
    if any(f in live and f not in live_nc and fs[f][0] == "defun" for f in fs):
        tags.add("function-live-only-through-constant")
    return tags


def expose_constants(chk, p, d, classify):
    """search for a failing input when the emitted bytes differ: the same helpers with each computed constant as
    the main expression, real compiler + clvmr vs `Lang.evalSrc`.  Returns the signatures of the oracle failures."""
    forms = p["tree"][1]
    names = [f[1][1][1] for f in forms if f[0] == "list" and len(f[1]) == 3 and f[1][0] == ("sym", "defconst")]
    sigs = []
    derived = []
    for k in names:
        t = ("list", forms[:-1] + [S(k)], None)
        derived.append({"tree": t, "text": progen.text(t), "rich": progen.rich(t), "dialect": d, "features": p["features"]})
    if not derived:
        return sigs
    a = gen.hexv(p["args"][0])
    so = lib.run_model("src", [q["rich"] + " " + a for q in derived], per_job=20)
    io = lib.run_impl("compile", ["text:O0 " + q["text"].encode().hex() + " " + a for q in derived], per_job=4, timeout=60)
    for q, s, b in zip(derived, so, io):
        sf, bf = s.split(), b.split()
        if len(sf) >= 2 and len(bf) >= 3 and bf[0] == "C" and sf[1][0] == "V" and sf[1] != bf[2]:
            sig = classify("C01", q, "text:O0", sf[1], bf[2], bf[1])
            sigs.append(sig)
            chk.fail("oracle", sig, {"dialect": d, "entry": "text:O0", "program": q["text"], "args": a},
                     {"source_meaning": sf[1], "compiled_result": bf[2], "found_by": "constants of a program whose emitted "
                      "bytes differ from the model, exposed one by one as the main expression"})
    return sigs


F10_PROBES = [
    ("cl21", '(mod (X) (include *standard-cl-21*) (defconst K (let ((V "abc")) (let ((W 6)) (if W V 1)))) (c K X))'),
    ("cl22", '(mod (X) (include *standard-cl-22*) (defconst K (let ((V "abc")) (let ((W 6)) (if W V 1)))) (c K X))'),
    ("cl21", '(mod (X) (include *standard-cl-21*) (defconst K (let ((V "abc")) (if 1 (let ((W 6)) V) 1))) (c K X))'),
    # the same bodies behave when nothing sits between the binding and the `if`, or without `if`
    ("cl21", '(mod (X) (include *standard-cl-21*) (defconst K (let ((V "abc")) (if 1 V 1))) (c K X))'),
    ("cl21", '(mod (X) (include *standard-cl-21*) (defconst K (let ((V "abc")) (let ((W 6)) (c W V)))) (c K X))'),
]


def parse_text(s):
    import re
    toks = re.findall(r'\(|\)|"[^"]*"|[^\s()]+', s)
    pos = [0]

    def p():
        t = toks[pos[0]]
        pos[0] += 1
        if t == "(":
            items, tail = [], None
            while toks[pos[0]] != ")":
                if toks[pos[0]] == ".":
                    pos[0] += 1
                    tail = p()
                else:
                    items.append(p())
            pos[0] += 1
            return ("list", items, tail) if items else progen.NILT
        if t.startswith('"'):
            return ("str", t[1:-1].encode())
        if t.startswith("0x"):
            return ("hex", bytes.fromhex(t[2:]))
        if re.fullmatch(r"-?\d+", t):
            return ("int", int(t))
        return ("sym", t)
    return p()


def defconst_let_probe(chk, rng):
    """C01-F10 witnesses (and their well-behaved neighbours), through the ordinary differential oracle."""
    progs = []
    for d, txt in F10_PROBES:
        tree = parse_text(txt)
        progs.append({"tree": tree, "text": progen.text(tree), "rich": progen.rich(tree), "dialect": d,
                      "args": [gen.lst([gen.int_atom(rng.randint(1, 90))])], "nfns": 1, "features": ["constants", "lets"]})
    compilers.differential(chk, "C01", progs, entries=["text:O0"], label="defconst-let")


def core3_correspondence(chk, rng, n, dialects=("cl21",), features=None, label="core3"):
    """Layer B3 tie: `Core3.compileCore3` (Lean: compile-time evaluation of constants + core2 pipeline with
    liveness through constants) must be byte-identical to the real compiler's non-optimising output on the
    core3 language, every generated program must satisfy the theorem's decidable hypothesis `Core3.progWF`
    (which re-derives every constant's value), and `Core3.evalProg` must agree with `Lang.evalSrc`
    (and, one-directionally, with the compiled run)."""
    classify = compilers.classify
    for d in dialects:
        progs = gen_programs(rng, d, n, nargs=3, features=features)
        ml = [p["rich"] + " " + " ".join(gen.hexv(a) for a in p["args"]) for p in progs]
        mo = lib.run_model("core3", ml, per_job=10)
        so = lib.run_model("src", ml, per_job=20)
        sel = [i for i, a in enumerate(mo) if a.startswith("nocompile") or (a.startswith("K ") and len(a) <= CORE3_MAX_LINE)]
        io_sel = lib.run_impl("compile", ["text:O0 " + progs[i]["text"].encode().hex() + " " + " ".join(gen.hexv(a) for a in progs[i]["args"])
                                          for i in sel], per_job=4, timeout=60)
        io = ["skipped"] * len(progs)
        for i, b in zip(sel, io_sel):
            io[i] = b
        for p, a, s, b in zip(progs, mo, so, io):
            af, sf, bf = a.split(), s.split(), b.split()
            chk.count(f"{label}:{d}:{af[0] if af else 'none'}")
            if not af or af[0] not in ("K", "nocompile"):
                continue
            if b == "skipped":
                chk.count(f"{label}:{d}:skipped-large-output")
                continue
            has_const = "constants" in p["features"]
            chk.note_case((label, p["text"]), has_const)
            if af[0] == "nocompile":
                chk.count(f"{label}:{d}:model-nocompile/impl-{bf[0] if bf else 'none'}")
                if bf and bf[0] == "C":
                    chk.fail("correspondence", "corr:core3-model-rejects", {"dialect": d, "program": p["text"]},
                             "the real compiler accepts a core3 program the model does not compile")
                continue
            if af[1] != "wf":
                chk.count(f"{label}:{d}:notwf")
                chk.fail("correspondence", "corr:core3-progWF", {"dialect": d, "program": p["text"]},
                         "generated core3 program does not satisfy the theorem's hypothesis Core3.progWF")
            if not bf or bf[0] != "C":
                chk.count(f"{label}:{d}:impl-{bf[0] if bf else 'none'}")
                if bf and bf[0] == "E":
                    if "constant definition didn't reduce to constant value" in b:
                        # the real compiler's compile-time evaluator (evaluate.rs, a partial evaluator) gives up on
                        # some closed bodies the model evaluates (e.g. a call of a function whose body has nested
                        # lets): the program is REJECTED, so it is outside the property's quantifier; counted
                        chk.count(f"{label}:{d}:impl-rejects-constant-not-reduced")
                    elif "Unbound use of" in b and any(("Unbound use of " + nm + "_$_") in b for nm in compilers.defconst_let_names(p["tree"])):
                        # C01-F10 under the strict dialect: the let variable the evaluator loses is reported unbound;
                        # the program is rejected (outside the property's quantifier); counted
                        chk.count(f"{label}:{d}:impl-rejects-defconst-let-unbound")
                    elif any((nm + "_$_") in b for nm in compilers.defconst_let_names(p["tree"])):
                        # C01-F10 again: the renamed NAME of a let variable bound inside a defconst body takes the
                        # variable's place during compile-time evaluation and an operator of the body fails on it
                        # ("Cons expected for rest, got (V47_$_115)"): the program is rejected (outside the property's
                        # quantifier), the message names the leaked variable; counted
                        chk.count(f"{label}:{d}:impl-rejects-defconst-let-name-in-error")
                    else:
                        chk.fail("correspondence", "corr:core3-impl-rejects", {"dialect": d, "program": p["text"]}, b[:200])
                continue
            for tag in const_classes(p):
                chk.count(f"core3-class:{tag}")
            if af[2] != bf[1]:
                chk.count(f"{label}:{d}:BYTES-DIFFER")
                # search for a failing input first: every constant as the main expression, against the source meaning
                sigs = expose_constants(chk, p, d, classify)
                known = [s for s in sigs if s == "compile:defconst-let-name-leak"]
                if known and classify("C01", p, "text:O0", "", "", bf[1]) == "compile:defconst-let-name-leak":
                    # the real compiler computed a wrong constant (C01-F10, shown by the oracle failure just recorded):
                    # the model, which evaluates the constant to its meaning, cannot be byte-identical here
                    chk.count(f"{label}:{d}:bytes-differ-explained-by-C01-F10")
                    chk.fail("correspondence", "compile:defconst-let-name-leak", {"dialect": d, "program": p["text"]},
                             {"model": af[2][:400], "impl": bf[1][:400]})
                else:
                    chk.fail("correspondence", "corr:core3-compile-bytes", {"dialect": d, "program": p["text"]},
                             {"model": af[2][:400], "impl": bf[1][:400]})
                for k, (x, y) in enumerate(zip(sf[1:], bf[2:])):
                    if x[0] == "V" and x != y:
                        chk.fail("oracle", classify("C01", p, "text:O0", x, y, bf[1]),
                                 {"dialect": d, "entry": "text:O0", "program": p["text"], "args": gen.hexv(p["args"][k])},
                                 {"source_meaning": x, "compiled_result": y})
            else:
                chk.count(f"{label}:{d}:bytes-equal")
            for k, (x, y, z) in enumerate(zip(af[3:], bf[2:], sf[1:])):
                chk.count(f"{label}:eval3-{x[0]}/src-{z[0]}/impl-{y[0]}")
                if (x[0] == "V" or z[0] == "V") and x[0] != "U" and z[0] != "U" and x != z:
                    chk.fail("correspondence", "corr:core3-vs-src-semantics", {"program": p["text"], "args": gen.hexv(p["args"][k])},
                             {"Core3.evalProg": x, "evalSrc": z})
                if x[0] == "V" and x != y:
                    chk.fail("oracle", classify("C01", p, "text:O0", x, y, bf[1]),
                             {"dialect": d, "entry": "text:O0", "program": p["text"], "args": gen.hexv(p["args"][k])},
                             {"source_meaning": x, "compiled_result": y})
        if progs:
            k = next((i for i, p in enumerate(progs) if "const-calls-function" in p["features"] and mo[i].startswith("K")), 0)
            chk.sample({"core3_program": progs[k]["text"][:500], "model": mo[k][:200]})
