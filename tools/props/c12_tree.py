"""C12, hierarchical (-t) view: `cmds::cldb_hierarchy` (what `cldb -t` prints) next to the plain row stream and the
consensus evaluator, on generated programs whose run FAILS or returns inside nested function calls.

Until this stream existed `cvh cldb` only ran the plain `CldbRun::step` loop (the -t grouping was listed as not
modelled) and the compiled programs came from 8 templates none of which fails below the main expression — so the
property's "a failure entry exactly when the consensus evaluator fails … in both views" was never exercised for -t.

Programs: a chain of 1..3 non-inline functions main -> fn_1 -> … -> fn_d, each wrapping the result of the next
(`*`, `+`, `-`; `c` / `list` in the main expression only, so the constructed site is the only one that can fail), with ONE failure site `(if (= P K) FAIL OK)` placed at depth 0 (main expression) … d
(innermost function); FAIL in {(x P), (x), (f P) on an atom, (+ P (q 1)), (/ P 0)}; dialects cl21 / cl22 / cl23;
arguments K (fails) and neighbours (returns)."""
import gen
import lib

SIG_LOST = "cldb:tree-lost-failure-row"

FAILS = ["(x {p})", "(x)", "(f {p})", "(+ {p} (q 1))", "(/ {p} 0)"]
WRAPS = ["(* 2 {c})", "(+ 1 {c})", "(- {c} {p})", "{c}", "(+ {c} {c})"]          # numbers in, numbers out
MAIN_WRAPS = WRAPS + ["(c {c} {p})", "(list {p} {c})"]
DIALECTS = ["*standard-cl-21*", "*standard-cl-21*", "*standard-cl-22*", "*standard-cl-23*"]


def gen_program(rng):
    d = rng.randint(1, 3)
    site = rng.choice([0, 1, 1, 2, 2, 3, 3])
    site = min(site, d)
    k = rng.randint(2, 40)
    fail = rng.choice(FAILS)
    two = rng.random() < 0.3          # a second parameter carried along

    def params():
        return "(P1 P2)" if two else "(P1)"

    def call(i, p):
        return f"(fn_{i} {p} {p})" if two else f"(fn_{i} {p})"

    def guard(p, ok):
        return f"(if (= {p} {k}) {fail.format(p=p)} {ok})"
    forms = []
    for i in range(1, d + 1):
        if i == d:
            ok = rng.choice(["(+ P1 1)", "(* P1 P1)", "(- 7 P1)", "P1"])
        else:
            ok = rng.choice(WRAPS).format(c=call(i + 1, "P1"), p="P1")
        body = guard("P1", ok) if site == i else ok
        forms.append(f"(defun fn_{i} {params()} {body})")
    if rng.random() < 0.3:
        rng.shuffle(forms)
    main = rng.choice(MAIN_WRAPS).format(c=call(1, "A1"), p="A1")
    if site == 0:
        main = guard("A1", main)
    text = f"(mod (A1) (include {rng.choice(DIALECTS)}) " + " ".join(forms) + " " + main + ")"
    args = [k, k, rng.choice([k - 1, k + 1, 0, 1, 100]), rng.randint(-5, 60)]
    args = args[1:] if rng.random() < 0.5 else args[:1] + args[2:]
    return {"text": text, "depth": d, "site": site, "k": k, "fail": fail, "args": args}


def parse(o):
    parts = [x.strip() for x in o.split("|")]
    if len(parts) != 3 or not parts[0].startswith("P "):
        return None
    def kv(s):
        return dict(f.split("=", 1) for f in s.split()[1:] if "=" in f)
    return kv(parts[0]), (kv(parts[1]) if parts[1] != "T skipped" else None), parts[2]


def run(chk, n, replay_lines=None):
    rng = chk.rng
    if replay_lines:
        # replayed cases: the failure site is not known and is taken to be the main expression, so a lost end row
        # is reported again and never matched to the known finding (a replay file only exists for other signatures)
        return judge(chk, replay_lines, [({"text": bytes.fromhex(l.split()[0]).decode(), "site": 0, "k": None, "depth": 0},
                                          gen.show(gen.unhex(l.split()[1]))) for l in replay_lines])
    progs = [gen_program(rng) for _ in range(n)]
    # the witness of the finding and its top-level control, always
    w = ("(mod (A1) (include *standard-cl-21*) (defun inner (P1) (if (= P1 3) (x P1) (+ P1 1))) "
         "(defun outer (P1) (* 2 (inner P1))) (outer A1))")
    progs.insert(0, {"text": w, "depth": 2, "site": 2, "k": 3, "fail": "(x {p})", "args": [3, 4]})
    c = "(mod (A1) (include *standard-cl-21*) (defun inner (P1) (+ P1 1)) (if (= A1 3) (x A1) (inner A1)))"
    progs.insert(1, {"text": c, "depth": 1, "site": 0, "k": 3, "fail": "(x {p})", "args": [3, 4]})
    lines, meta = [], []
    for p in progs:
        for a in p["args"]:
            lines.append(p["text"].encode().hex() + " " + gen.hexv(gen.lst([gen.int_atom(a)])))
            meta.append((p, a))
    outs = judge(chk, lines, meta)
    chk.sample({"cldb_tree_line": progs[0]["text"], "args": "(3)", "out": outs[0]}, limit=8)


def judge(chk, lines, meta):
    outs = lib.run_impl("cldb-tree", lines, timeout=300, per_job=20)
    for l, (p, a), o in zip(lines, meta, outs):
        case = {"sub": "cldb-tree", "line": l, "program": p["text"], "args": f"({a})"}
        r = parse(o)
        if r is None:
            if o == "err":
                chk.fail("correspondence", "gen:cldbtree:does-not-compile", case, o)
            else:
                chk.fail("oracle", "cldbtree:harness-" + (o.split()[0] if o else "none"), case, o[:300])
            continue
        plain, tree, cons = r
        chk.note_case(("cldb-tree", l))
        want = ("ok", cons.split()[1]) if cons.startswith("ok ") else ("fail",)
        hits = a == p["k"]
        chk.count(f"tree:site-depth-{p['site']}-of-{p['depth']}:{'fails' if want[0] == 'fail' else 'returns'}")
        if cons.startswith("ok ") or cons == "fail":
            if p["k"] is not None and hits != (want[0] == "fail"):
                # the only failure site of a program is the constructed one (all other operators get numbers)
                chk.fail("correspondence", "gen:cldbtree:outcome-not-as-constructed", case, cons)
                continue
        if cons not in ("fail",) and not cons.startswith("ok "):
            chk.count("tree:limit-skipped")
            continue

        def verdict(end):
            if end.startswith("F:"):
                return ("ok", end[2:])
            if end in ("X", "T"):
                return ("fail",)
            return ("none",)
        pv = verdict(plain["end"])
        if pv != want:
            chk.fail("oracle", "cldbtree:plain-end", case, {"plain": plain, "consensus": cons})
        if tree is None:
            chk.count("tree:skipped")
            continue
        tv = verdict(tree["end"])
        chk.count(f"tree:end-{tv[0]}/consensus-{want[0]}")
        if tree.get("msg"):
            chk.count("tree:printed-a-message")
        if tv == want:
            continue
        if want[0] == "fail" and tv[0] == "none" and pv == ("fail",) and p["site"] >= 1:
            # the failure happens inside a nested function frame: cldb_hierarchy stops at the error and returns
            # only output_stack[0]; the rows of the open frames (the Failure row among them) are dropped
            sig = SIG_LOST
        elif want[0] == "fail" and tv[0] == "none":
            sig = "cldbtree:failure-row-missing"
        elif want[0] == "ok" and tv[0] == "none":
            sig = "cldbtree:final-row-missing"
        else:
            sig = "cldbtree:end-differs"
        chk.fail("oracle", sig, case, {"plain": plain, "tree": tree, "consensus": cons, "failure_site_depth": p["site"]})
    return outs
