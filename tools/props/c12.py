"""C12 — the debugger's trace is a faithful account of the real execution."""
import gen
import lib
from props import c06
from props import c12_tree

LEVEL = "proof"

QUOTE = b"\x01"


# ---- programs ------------------------------------------------------------------------------

SAFE_ATOMS = [b"", b"\x01", b"\x02", b"\x05", b"\x7f", b"\x00\x80", b"\xff", b"\x80", b"\x03\xe8", b"hello",
              b"abc", b"x", b"foo bar", b"\x00\xff\xff", b"\xff\x7f", b"\x10\x00\x00\x00\x00", b"\x81\x00\x01"]


def safe_tree(rng, depth):
    if depth <= 0 or rng.random() < 0.4:
        return rng.choice(SAFE_ATOMS) if rng.random() < 0.5 else gen.int_atom(rng.randint(-300, 3000))
    if rng.random() < 0.5:
        return gen.lst([safe_tree(rng, depth - 1) for _ in range(rng.randint(0, 3))])
    return (safe_tree(rng, depth - 1), safe_tree(rng, depth - 1))


def safe_spellings(b, mode):
    """spellings of a data atom whose printed form the compiler's reader reads back to the same bytes
    (the oracle re-reads row texts): the converter's own spelling, a double-quoted string for printable
    bytes, a hex string for unprintable ones.  (Bare `Atom` spellings print as symbols / integers, which is
    C09's subject, not this property's.)"""
    out = [c06.converter_spelling(b, mode)]
    if b and c06.printable(b):
        out.append("Q22" + b.hex() + ";")
    elif b:
        out.append("Q78" + b.hex() + ";")
    return out


def spell_data(rng, v, mode):
    """random safe spelling of quoted DATA, never of operators or paths."""
    if isinstance(v, tuple):
        return "C" + spell_data(rng, v[0], mode) + spell_data(rng, v[1], mode)
    return rng.choice(safe_spellings(v, mode))


def spell_prog(rng, v, mode, alt):
    """converter spelling for operators and paths; quoted constants optionally re-spelled."""
    if not isinstance(v, tuple):
        return c06.converter_spelling(v, mode)
    head, tail = v
    if head == QUOTE:
        return "C" + c06.converter_spelling(head, mode) + (spell_data(rng, tail, mode) if alt else c06.rich_canon(tail, mode))
    out = "C" + spell_prog(rng, head, mode, alt)
    # operands
    parts = []
    while isinstance(tail, tuple):
        parts.append(spell_prog(rng, tail[0], mode, alt))
        tail = tail[1]
    for p in parts:
        out += "C" + p
    return out + c06.converter_spelling(tail, mode)


def structured_prog(rng, depth, env):
    """programs in the shape compilers emit: lazy ifs, nested applies, list building."""
    tg = gen.TypedGen(rng, env, wild=0.0)
    r = rng.random()
    if r < 0.35:
        c = tg.gen("bool", depth - 1)
        a, b = tg.gen("any", depth - 1), tg.gen("any", depth - 1)
        return gen.lst([b"\x02", (b"\x03", gen.lst([c, (QUOTE, a), (QUOTE, b)])), b"\x01"])
    if r < 0.55:
        body = tg.gen("int", depth - 1)
        return gen.lst([b"\x02", (QUOTE, body), gen.lst([b"\x04", tg.gen("any", 1), b"\x01"])])
    if r < 0.7:
        return (b"\x04", gen.lst([tg.gen("any", depth - 1), (b"\x03", gen.lst([tg.gen("bool", 1), tg.gen("any", 1), tg.gen("any", 1)]))]))
    return tg.gen(rng.choice(["int", "atom", "pair", "any", "bool"]), depth)


HAND = [
    ("1", "CI4;CI3;CCI3;CI2;CCI1;I1;CCI1;I2;NN", "CI10;I77;"),       # the i-row witness
    ("1", "CI16;CCI1;I2;CCI5;CI1;NN", "CI5;N"),                       # (+ (q . 2) (f 1)) on (5)
    ("1", "CI2;CCI3;CI2;CCI1;CI16;CI2;CI5;NCCI1;CI17;CI2;CI5;NNCI1;N", "CI20;CI22;N"),   # lazy if
    ("1", "CI8;CCI1;I7;N", "N"),                                      # (x (q . 7)): Failure row
    ("1", "CI5;CCI1;I7;N", "N"),                                      # (f (q . 7)): Failure row
    ("1", "CI34;CCI4;CCI1;A247072696e7424;CCI1;I99;NN", "N"),         # (all (c (q . $print$) (q . 99))): not a print request (head must be $print$)
    ("1", "CI34;CCI1;A247072696e7424;CCI1;I99;N", "N"),               # (all (q . $print$) (q . 99)): Print row
    ("1", "I1;", "CI1;I2;"), ("1", "CI1;I5;", "N"), ("1", "N", "N"),
]


# ---- reading the row streams -------------------------------------------------------------------

def parse_line(o):
    parts = [x.strip() for x in o.split("|")]
    while len(parts) < 3:
        parts.append("")
    rows = []
    timeout = False
    special = None
    if parts[0] in ("unsupported", "bad-input", "panic", "hex-error", "timeout", "missing") or parts[0].startswith("abort"):
        special = parts[0]
    elif parts[0]:
        for r in parts[0].split(";"):
            if r == "timeout":
                timeout = True
                continue
            d = {}
            for f in r.split(","):
                if "=" in f:
                    k, v = f.split("=", 1)
                    d[k] = v
                elif f:
                    d[f] = True
            rows.append(d)
    return rows, timeout, special, parts[1], parts[2]


def upper(rows):
    return [{k: v for k, v in r.items() if k[0].isupper()} for r in rows]


def norm(o):
    rows, timeout, special, cons, _ = parse_line(o)
    return repr((upper(rows), timeout, special, cons))


def quoted_call(op_hex, args_hex):
    """program `(op (q . a1) (q . a2) …)` for the row oracle; None when args is not a proper list."""
    try:
        op = gen.unhex(op_hex)
        args = gen.unhex(args_hex)
    except Exception:
        return None
    items = []
    while isinstance(args, tuple):
        items.append((QUOTE, args[0]))
        args = args[1]
    if args != b"" or isinstance(op, tuple):
        return None
    return gen.hexv((op, gen.lst(items)))


def run(chk):
    rng = chk.rng
    quick = chk.tier == "quick"
    lib.std_obligations(chk)

    cases = []        # (mode, prog rich, env rich)
    if chk.replay_cases:
        c = chk.replay_cases
        lines = [c["case"]["line"]] if "case" in c else []
        lines += [m["case"]["line"] for m in c.get("more", []) if "line" in m.get("case", {})]
        lines += [x.get("first_case", {}).get("line") for x in c.get("no_longer_checks", [])]
        tree_replay = []
        for l in lines:
            if l:
                w = l.split()
                if len(w) == 2:
                    tree_replay.append(l)          # a `cvh cldb-tree` line (hierarchical view)
                else:
                    cases.append((w[0], w[2], w[3]))
        if tree_replay:
            c12_tree.run(chk, 0, replay_lines=tree_replay)
    else:
        for m, p, e in HAND:
            cases.append((m, p, e))
        n = 2500 if quick else 60000
        for k in range(n):
            mode = "1" if rng.random() < 0.8 else "0"
            env = safe_tree(rng, rng.randint(0, 3))
            if k % 3 == 0:
                prog = structured_prog(rng, rng.randint(2, 4), env)
            elif k % 3 == 1:
                tg = gen.TypedGen(rng, env, wild=0.0)
                prog = tg.gen(rng.choice(["int", "atom", "pair", "any", "bool"]), rng.randint(1, 5))
            else:
                prog = gen.rand_prog(rng, rng.randint(1, 4), wild=0.0)
            alt = rng.random() < 0.4
            cases.append((mode, spell_prog(rng, prog, mode, alt),
                          spell_data(rng, env, mode) if alt else c06.rich_canon(env, mode)))
        # deep environment paths: path atoms of 8 and 16 significant bits (first byte >= 0x80: the converter
        # hands them to the stepper as NEGATIVE Integers, which run_step must widen to the unsigned path) on
        # environments deep enough for clvmr to resolve them, alone and under operators (seed C12-1)
        deep_env = gen.lst([gen.int_atom(10 * (i + 1)) for i in range(18)])
        deep_env2 = gen.lst([gen.lst([gen.int_atom(i + 1), gen.int_atom(100 + i)]) for i in range(18)])
        for k in range(120 if quick else 2000):
            bits = rng.choice([8, 8, 8, 16, 16, 24, 7, 9, 15, 17])
            pv = (1 << (bits - 1)) | rng.getrandbits(bits - 1)
            patom = pv.to_bytes((bits + 7) // 8, "big")
            form = rng.randrange(5)
            if form == 0:
                prog = patom
            elif form == 1:
                prog = gen.lst([b"\x10", patom, (QUOTE, gen.int_atom(1))])
            elif form == 2:
                prog = gen.lst([b"\x05", patom])
            elif form == 3:
                prog = gen.lst([b"\x04", patom, (QUOTE, gen.int_atom(9))])
            else:
                prog = gen.lst([b"\x02", (QUOTE, gen.lst([b"\x04", patom, b"\x01"])), b"\x01"])
            env = rng.choice([deep_env, deep_env2])
            mode = "1" if rng.random() < 0.8 else "0"
            cases.append((mode, spell_prog(rng, prog, mode, False), c06.rich_canon(env, mode)))
        ok, out = lib.build_harness()
        if not ok:
            chk.fail("proof", "harness-build", {}, out[-1500:])
        else:
            cases += c06.compiled_cases(chk, rng, 4 if quick else 40)
        # exhaustive small trees (same alphabet as C06) to 5 nodes on the richest environment
        e3 = c06.rich_canon(c06.SMALL_ENVS[2], "1")
        for t in gen.trees_upto(c06.SMALL_LEAVES, 5 if quick else 7):
            cases.append(("1", c06.rich_canon(t, "1"), e3))

    lines = []
    for m, p, e in cases:
        lines.append(f"{m} s {p} {e}")
        lines.append(f"{m} x {p} {e}")
    chk.cov["rule"] = ("compiled programs: 8 source templates (recursion, inline, constants, let, macro, lazy if) compiled by the "
                       "real compiler in the dialects cl21 / cl22 / cl23 / cl23.1 x generated arguments; "
                       "raw CLVM programs: gen.TypedGen / gen.rand_prog programs, compiler-shaped programs (lazy if, nested "
                       "apply, list building) over all operators of Ops.chiaOps, quoted constants and environments in "
                       "converter spelling or re-spelled (Integer / Atom / QuotedString), both integer modes, + every tree with "
                       "<= 5 nodes (7 thorough) over the C06 alphabet, + hand-written witnesses; each case as source-supplied (s) "
                       "and hex-supplied (x). distinct = distinct lines; non-trivial = at least one operator row.  "
                       "Hierarchical view (props/c12_tree.py, cvh cldb-tree): chains of 1..3 non-inline functions with one failure "
                       "site at depth 0..3 (x, f of an atom, + of a pair, / by 0), cl21 / cl22 / cl23, arguments that hit and miss "
                       "the site: end of `cldb -t` (cmds::cldb_hierarchy) = end of the plain stream = consensus (Final value or "
                       "Failure/Throw entry)")
    mo, io = lib.correspond(chk, "cldb", lines, label="cldb", skip=skip_line, norm_model=norm, norm_impl=norm,
                            sig=lambda l, a, b: "corr:cldb", timeout=1200)

    # ---- property-level oracle on the implementation's rows -------------------------------------
    row_checks = []      # (line, row index, program hex, expected value hex, operator)
    per_line = {}
    for l, m_o, i_o in zip(lines, mo, io):
        rows, timeout, special, cons, _ = parse_line(i_o)
        _, _, _, _, mflags = parse_line(m_o)
        flagged = mflags not in ("", "-")
        w = l.split()
        chk.note_case(l, nontrivial=any("O" in r for r in rows))
        chk.count("kind-" + w[1])
        if special or timeout or cons == "cost":
            if special in ("panic", "bad-input", "hex-error", "missing") or (special or "").startswith("abort"):
                chk.fail("oracle", "cldb:harness-" + special.split()[0], {"sub": "cldb", "line": l}, i_o[:300])
            chk.count("limit-or-unsupported-skipped")
            continue
        per_line[l] = rows
        chk.count("rows", len(rows))
        # (1) consecutive numbering
        for idx, r in enumerate(rows):
            if "R" in r and r["R"] != str(idx):
                chk.fail("oracle", "cldb:numbering", {"sub": "cldb", "line": l}, f"row {idx} carries Row={r['R']}")
            if "T" in r:
                chk.count("throw-rows")
            # a Value belongs to an operator row (the row right after a Print row is the one exception:
            # its Operator went out with the Print)
            if "V" in r and "O" not in r and not (idx > 0 and "P" in rows[idx - 1]):
                chk.fail("oracle", "cldb:orphan-value", {"sub": "cldb", "line": l}, f"row {idx} has a Value but no Operator")
        # (2) end of the run against consensus
        ends = [r for r in rows if "F" in r or "X" in r]
        if len(ends) != 1 or ends[0] is not rows[-1]:
            chk.fail("oracle", "cldb:end-row", {"sub": "cldb", "line": l}, f"{len(ends)} end rows / not last: {i_o[:200]}")
        else:
            last = rows[-1]
            got = ("ok", last.get("f")) if "F" in last else ("fail",)
            want = ("ok", cons.split()[1]) if cons.startswith("ok ") else ("fail",)
            chk.count("final-" + got[0])
            if got != want and w[0] == "1":
                if flagged:
                    chk.count("final-differs-on-C06-flagged-run")     # C06's findings, not the debugger's
                elif got[0] == "ok" and got[1] == "!":
                    chk.count("final-not-reparsable")
                else:
                    chk.fail("oracle", "cldb:final", {"sub": "cldb", "line": l},
                             {"debugger": got, "consensus": want, "program": c06.show_rich(w[2])[:200]})
        # (3) every row with Operator + Arguments + Value is re-evaluated by clvmr (fixed mode)
        if w[0] == "1":
            for idx, r in enumerate(rows):
                if "O" in r and "A" in r and "V" in r:
                    chk.count("op-rows")
                    if "!" in (r.get("o"), r.get("a"), r.get("v")):
                        chk.count("op-rows-not-reparsable")
                        continue
                    if r["o"] == "02":
                        # `a` never records Arguments itself: they are left over from an `i`
                        chk.fail("oracle", "cldb:i-row", {"sub": "cldb", "line": l},
                                 {"row": idx, "says": "operator 2 (a) with the Arguments of an earlier i",
                                  "program": c06.show_rich(w[2])[:200]})
                        continue
                    call = quoted_call(r["o"], r["a"])
                    if call is None:
                        chk.count("op-rows-improper-args")
                        continue
                    row_checks.append((l, idx, call, r["v"], r["o"]))
    outs = lib.run_impl("base", [f"{c} 80" for (_, _, c, _, _) in row_checks], timeout=600)
    for (l, idx, call, v, o), res in zip(row_checks, outs):
        ok = res == f"ok {v}"
        chk.count("op-rows-rechecked")
        if not ok:
            w = l.split()
            sig = "cldb:i-row" if o == "03" else "cldb:row-false"
            chk.count("op-rows-false-" + ("i" if o == "03" else "other"))
            chk.fail("oracle", sig, {"sub": "cldb", "line": l},
                     {"row": idx, "operator": o, "call": call, "row value": v, "clvmr": res,
                      "program": c06.show_rich(w[2])[:200], "env": c06.show_rich(w[3])[:100]})
    # (4) hex-supplied = source-supplied (rows compared on the CLVM value of every field)
    def clvm_view(rows):
        return [{k: v for k, v in r.items() if k in ("R", "o", "a", "v", "f", "X", "T")} for r in rows]
    for m, p, e in cases:
        ls, lx = f"{m} s {p} {e}", f"{m} x {p} {e}"
        if m == "1" and ls in per_line and lx in per_line:
            chk.count("hex-vs-source-pairs")
            a, b = clvm_view(per_line[ls]), clvm_view(per_line[lx])
            if any("!" in r.values() for r in a + b):
                chk.count("hex-vs-source-not-reparsable")
                continue
            if a != b:
                chk.fail("oracle", "cldb:hex-vs-source", {"sub": "cldb", "line": ls},
                         {"source": str(a)[:300], "hex": str(b)[:300]})
    # (5) the hierarchical (-t) view: cmds::cldb_hierarchy vs the plain stream vs consensus on programs that fail or
    # return inside nested function calls
    if not chk.replay_cases:
        c12_tree.run(chk, 240 if quick else 6000)
    for m, p, e in HAND[:3]:
        chk.sample({"line": f"{m} s {p} {e}", "prog": c06.show_rich(p), "env": c06.show_rich(e)}, limit=6)
    chk.cov["modelled_not_verified"] = [
        "row keys other than Operator/Arguments/Value/Row/Final/Failure/Throw/Print (locations, Function, Env*, "
        "Argument-Refs) and the hierarchical (-t) grouping of cldb_hierarchy are not modelled (the -t view is judged by "
        "the oracle only: its Final / Failure entry against consensus, props/c12_tree.py)",
        "the printer (SExp Display) used to compare row texts lives in the model driver (Drv/Cldb.lean), outside the theorems; "
        "the oracle re-reads row texts with the compiler's own reader (rows that do not re-read are counted, not judged)",
        "compiled programs come from a small family of source templates (no program generator yet); symbol tables only "
        "affect the Function key, which is not compared",
        "Final = consensus is inherited from C06 and therefore limited to runs without a C06 flag",
    ]
    chk.assumptions.append("rich values are encoded/decoded on the line protocol by harness/src/rich.rs and Drv/RichIO.lean")


def skip_line(l, a, b):
    ra = parse_line(a)
    rb = parse_line(b)
    if ra[2] == "unsupported" or ra[1] or rb[1] or rb[3] == "cost" or ra[3] in ("fuel", "unsupported"):
        return True
    return False
