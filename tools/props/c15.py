"""C15 — source locations point at the text they describe.

correspondence: `cvh reader` (parse_sexp, ParsePartialResult push/finalize, Srcloc ops) vs
`modeld reader` on the full located tree / error location+message.
oracle (implementation only): every leaf's location sliced out of the text is its token;
list locations inside the list's parentheses; streaming == whole; error locations in
bounds; compiler error locations name a text that was read and lie inside it; no panics.
"""
import os
import re
import shutil
import tempfile

import lib

LEVEL = "proof"
REPO = lib.REPO
WS = b" \t\n\x0b\x0c\r\x85\xa0"
SIG_PRIMS = "loc:hash-op-prims-location"   # fixed in /repo (make_atom `with_loc`); a recurrence is a VIOLATION
SIG_LONE = "loc:lone-hash-shifted"

PRIM_NAMES = {}          # filled from the implementation's table dump (name bytes -> int)


# ----------------------------------------------------------------------------------------
# decoding the located trees printed by harness / driver
# ----------------------------------------------------------------------------------------

class Tree:
    """flat preorder arrays of one located tree"""
    __slots__ = ("kind", "payload", "loc", "left", "right", "size")

    def __init__(self):
        self.kind, self.payload, self.loc, self.left, self.right, self.size = [], [], [], [], [], []


def dec_loc(s):
    p = s.split(",")
    f, l, c = int(p[0]), int(p[1]), int(p[2])
    if p[3] == "-":
        return (f, l, c, None)
    return (f, l, c, (int(p[3]), int(p[4])))


def dec_tree(s):
    t = Tree()
    toks = s.split(";")
    if toks and toks[-1] == "":
        toks.pop()
    stack = []            # indices of conses still waiting for children
    for tok in toks:
        body, loc = tok.rsplit("@", 1)
        k = body[0]
        idx = len(t.kind)
        t.kind.append(k)
        t.loc.append(dec_loc(loc))
        t.left.append(-1)
        t.right.append(-1)
        t.size.append(1)
        if k == "I":
            t.payload.append(int(body[1:]))
        elif k == "Q":
            t.payload.append((int(body[1:3], 16), bytes.fromhex(body[3:])))
        elif k == "A":
            t.payload.append(bytes.fromhex(body[1:]))
        else:
            t.payload.append(None)
        # attach to the parent
        if stack:
            par = stack[-1]
            if t.left[par] < 0:
                t.left[par] = idx
            else:
                t.right[par] = idx
                stack.pop()
        if k == "C":
            stack.append(idx)
    # subtree sizes (preorder => children have larger indices)
    for i in range(len(t.kind) - 1, -1, -1):
        if t.kind[i] == "C":
            t.size[i] = 1 + t.size[t.left[i]] + t.size[t.right[i]]
    return t


def dec_result(o):
    """('ok', [Tree]) | ('err', msg, loc) | ('other', text)"""
    if o.startswith("ok"):
        return ("ok", [dec_tree(x) for x in o.split()[1:]])
    if o.startswith("err "):
        f = o.split()
        return ("err", bytes.fromhex(f[1]).decode("latin-1"), dec_loc(f[2]))
    return ("other", o)


# ----------------------------------------------------------------------------------------
# text coordinates (independent of the model: a direct simulation of line/column counting)
# ----------------------------------------------------------------------------------------

class Coords:
    def __init__(self, text):
        self.text = text
        self.start = {}       # (line, col) -> offset of the character there
        self.end = {}         # (line, col+1 of a character) -> offset just after it
        line, col = 1, 1
        for i, ch in enumerate(text):
            self.start.setdefault((line, col), i)
            self.end[(line, col + 1)] = i + 1
            if ch == 10:
                line, col = line + 1, 1
            elif ch == 9:
                col = (col + 8) & ~7
            else:
                col += 1

    def span(self, loc):
        """byte range [i, j) of a location in this text, or None if it is not a range of it"""
        f, l, c, u = loc
        i = self.start.get((l, c))
        if i is None:
            return None
        if u is None:
            return (i, i + 1)
        j = self.end.get(u)
        if j is None or j <= i:
            return None
        return (i, j)


def paren_pairs(text):
    """independent lexer: list delimiters of a text as (open, close) offsets; `#(` opens at
    the `#`.  Returns (pairs, parent index per pair, innermost pair index per offset) or None
    when the text is not balanced."""
    n = len(text)
    pairs = []
    parent = []
    inner = [-1] * (n + 1)
    stack = []
    i = 0
    cur = -1
    while i < n:
        ch = text[i]
        inner[i] = cur
        if ch == 0x3b:                       # ; comment
            while i < n and text[i] != 10:
                inner[i] = cur
                i += 1
            continue
        if ch in (0x22, 0x27):
            q = ch
            i += 1
            while i < n and text[i] != q:
                inner[i] = cur
                if text[i] == 0x5c:
                    i += 1
                    if i < n:
                        inner[i] = cur
                i += 1
            if i >= n:
                return None
            inner[i] = cur
            i += 1
            continue
        if ch == 0x28 or (ch == 0x23 and i + 1 < n and text[i + 1] == 0x28):
            pairs.append([i, -1])
            parent.append(cur)
            cur = len(pairs) - 1
            stack.append(cur)
            inner[i] = cur
            if ch == 0x23:
                i += 1
                inner[i] = cur
            i += 1
            continue
        if ch == 0x29:
            if not stack:
                return None
            pairs[cur][1] = i
            stack.pop()
            cur = parent[cur]
            i += 1
            continue
        if ch in WS:
            i += 1
            continue
        if ch == 0x2e and stack:             # a dot between list elements
            i += 1
            continue
        if ch == 0x23 and i + 1 < n and text[i + 1] not in WS:
            # `#x`: the character after the `#` belongs to the word whatever it is (even `)`)
            inner[i + 1] = cur
            i += 2
        # a bareword: up to white space, or `)` when inside a list
        while i < n and text[i] not in WS and not (text[i] == 0x29 and stack):
            inner[i] = cur
            i += 1
    if stack:
        return None
    inner[n] = -1
    return pairs, parent, inner


def unescape(raw, q):
    """payload of the raw characters between two quotes `q`; None if they contain an
    unescaped terminator or end in a pending escape"""
    out = bytearray()
    i = 0
    while i < len(raw):
        c = raw[i]
        if c == 0x5c:
            if i + 1 >= len(raw):
                return None
            out.append(raw[i + 1])
            i += 2
            continue
        if c == q:
            return None
        out.append(c)
        i += 1
    return bytes(out)


DEC = re.compile(rb"^-?[0-9]+$")
HEXDIG = re.compile(rb"^[0-9a-fA-F]*$")


def token_matches(kind, payload, sl):
    """does the slice `sl` of the text denote this leaf?  (the property's leaf clause)"""
    if kind == "A":
        return sl == payload
    if kind == "I":
        return bool(DEC.match(sl)) and sl != b"-" and int(sl) == payload
    if kind == "N":
        return sl == b"()" or (bool(DEC.match(sl)) and sl != b"-" and int(sl) == 0)
    if kind == "Q":
        q, b = payload
        if q in (0x22, 0x27):
            return len(sl) >= 2 and sl[0] == q and sl[-1] == q and unescape(sl[1:-1], q) == b
        if q == 0x78:
            if not sl.startswith(b"0x"):
                return False
            d = sl[2:]
            if len(d) % 2:
                d = b"0" + d
            if HEXDIG.match(d):
                return bytes.fromhex(d.decode()) == b
            return len(b) == len(d) // 2      # malformed digits: only the extent is checked
    return False


class Oracle:
    """the property evaluated on one implementation result"""

    def __init__(self, chk, text, case):
        self.chk = chk
        self.text = text
        self.case = case
        self.co = Coords(text)
        self.pp = None
        self.pp_done = False
        self.fails = {}

    def fail(self, sig, detail):
        # at most two reports per signature and text (a known finding must not mask another failure)
        self.fails[sig] = self.fails.get(sig, 0) + 1
        if self.fails[sig] <= 2:
            self.chk.fail("oracle", sig, self.case, detail)

    def pairs(self):
        if not self.pp_done:
            self.pp = paren_pairs(self.text)
            self.pp_done = True
        return self.pp

    # --- error clause
    def error_loc(self, loc, what="reader"):
        f = loc[0]
        if f != 0:
            self.fail("loc:error-foreign-file", f"{what} error location {loc} names another file")
            return
        sp = self.co.span(loc)
        if sp is None or not (0 <= sp[0] < sp[1] <= len(self.text)):
            self.fail("loc:error-out-of-bounds", f"{what} error location {loc} is not a byte range of the text (len {len(self.text)})")

    # --- leaf clause
    def leaf(self, t, i):
        k, loc, pl = t.kind[i], t.loc[i], t.payload[i]
        if loc[0] != 0:
            if loc == (1, 1, 1, None) and k == "I" and any(
                    v == pl and (b"#" + n) in self.text for n, v in PRIM_NAMES.items()):
                self.fail(SIG_PRIMS, f"leaf {k}{pl} carries {loc} (the prim table's location)")
            else:
                self.fail("loc:leaf-foreign-file", f"leaf {k}{pl} carries {loc}")
            return None
        sp = self.co.span(loc)
        if sp is None:
            self.fail("loc:leaf-not-a-range", f"leaf {k}{pl!r} location {loc} is not a byte range of the text")
            return None
        sl = self.text[sp[0]:sp[1]]
        hash_op = (k == "I" and sp[0] > 0 and self.text[sp[0] - 1] == 0x23 and PRIM_NAMES.get(sl) == pl)
        if not hash_op and not token_matches(k, pl, sl):
            if (k == "A" and pl == b"#" and len(sl) == 1 and sl[0] in WS and sp[0] > 0
                    and self.text[sp[0] - 1] == 0x23):
                self.fail(SIG_LONE, f"atom `#` located at the white space after it {loc}")
            else:
                self.fail("loc:leaf-mismatch", f"leaf {k}{pl!r} at {loc} addresses {sl[:60]!r}")
            return sp
        # the range covers the whole token (nothing of the token left outside)
        if not (k == "Q" and pl[0] != 0x78) and sl != b"()":
            if sp[1] < len(self.text) and self.text[sp[1]] not in WS and self.text[sp[1]] != 0x29:
                self.fail("loc:leaf-too-short", f"leaf {k}{pl!r} at {loc}: token continues after the range")
            if sp[0] > 0 and self.text[sp[0] - 1] not in WS and self.text[sp[0] - 1] not in b"()\"'#":
                # a dotted tail may follow its dot directly: `(a .b)`
                dot = (self.text[sp[0] - 1] == 0x2e and
                       (sp[0] == 1 or self.text[sp[0] - 2] in WS or self.text[sp[0] - 2] in b"()\"'"))
                if not dot:
                    self.fail("loc:leaf-too-short", f"leaf {k}{pl!r} at {loc}: token starts before the range")
        return sp

    # --- list clause, loose form (any text): some pair of delimiters encloses the location
    # of the cons and of everything below it
    def tree_loose(self, t):
        pp = self.pairs()
        n = len(t.kind)
        spans = [None] * n
        bad_prims = False
        for i in range(n):
            k = t.kind[i]
            if k == "C":
                loc = t.loc[i]
                if loc[0] != 0:
                    if loc == (1, 1, 1, None) and t.loc[t.left[i]] == loc:
                        self.fail(SIG_PRIMS, f"list located at {loc}: `ext` ignored the prim-table location of its head")
                    else:
                        self.fail("loc:list-foreign-file", f"list node carries {loc}")
                    bad_prims = True
                    continue
                sp = self.co.span(loc)
                if sp is None:
                    self.fail("loc:list-not-a-range", f"list location {loc} is not a byte range of the text")
                    continue
                spans[i] = sp
            elif k == "N":
                sp0 = self.co.span(t.loc[i]) if t.loc[i][0] == 0 else None
                if sp0 is not None and token_matches("N", None, self.text[sp0[0]:sp0[1]]):
                    spans[i] = self.leaf(t, i)
                else:
                    # a list terminator: treated like a list node
                    if t.loc[i][0] != 0:
                        self.fail("loc:list-foreign-file", f"nil terminator carries {t.loc[i]}")
                    elif sp0 is None:
                        self.fail("loc:list-not-a-range", f"nil location {t.loc[i]} is not a byte range of the text")
                    else:
                        spans[i] = sp0
                        self.enclosed(pp, sp0, sp0, f"nil terminator {t.loc[i]}")
            else:
                spans[i] = self.leaf(t, i)
        if pp is None:
            return
        # extent of every subtree (min start, max end) bottom-up
        lo = [None] * n
        hi = [None] * n
        for i in range(n - 1, -1, -1):
            s = spans[i]
            a, b = (s[0], s[1]) if s else (None, None)
            if t.kind[i] == "C":
                for c in (t.left[i], t.right[i]):
                    if lo[c] is not None:
                        a = lo[c] if a is None else min(a, lo[c])
                        b = hi[c] if b is None else max(b, hi[c])
            lo[i], hi[i] = a, b
        for i in range(n):
            if t.kind[i] == "C" and spans[i] is not None:
                self.enclosed(pp, spans[i], (lo[i], hi[i]), f"list {t.loc[i]}")

    def enclosed(self, pp, sp, extent, what):
        if pp is None:
            return
        pairs, parent, inner = pp
        p = inner[sp[0]] if sp[0] < len(inner) else -1
        while p >= 0 and not (pairs[p][0] <= extent[0] and extent[1] <= pairs[p][1] + 1
                              and pairs[p][0] <= sp[0] and sp[1] <= pairs[p][1] + 1):
            p = parent[p]
        if p < 0:
            self.fail("loc:list-outside-parens", f"{what}: no pair of list delimiters encloses {sp} (subtree extent {extent})")

    # --- list clause, tight form (generated programs: the layout is known)
    def form_tight(self, t, i, form):
        kind = form[0]
        if kind == "tok":
            _, a, b, tx = form
            if t.kind[i] == "C":
                self.fail("loc:shape", f"token {tx!r} read as a list")
                return
            if t.loc[i][0] != 0:
                return                      # reported by the loose pass with its signature
            sp = self.co.span(t.loc[i])
            exp = (a + 1, b) if tx[:1] == b"#" and len(tx) > 1 else (a, b)
            if sp != exp:
                if tx == b"#":
                    return                  # lone `#`: reported by the loose pass
                self.fail("loc:leaf-range", f"token {tx[:40]!r} laid out at {exp} is located at {sp} {t.loc[i]}")
            return
        if kind == "list":
            _, o, c, items, tail = form
            node = i
            for it in items:
                if t.kind[node] != "C":
                    self.fail("loc:shape", f"list at {o} has fewer elements than laid out")
                    return
                self.glue(t, node, o, c)
                self.form_tight(t, t.left[node], it)
                node = t.right[node]
            if tail is not None:
                self.form_tight(t, node, tail)
            else:
                if t.kind[node] != "N":
                    self.fail("loc:shape", f"list at {o} is not nil-terminated")
                    return
                self.glue(t, node, o, c)
            return
        if kind == "slist":
            _, o, c, items = form
            self.struct(t, i, o, c, items)

    def struct(self, t, i, o, c, items):
        if len(items) == 1:
            self.form_tight(t, i, items[0])
        elif not items:
            if t.kind[i] != "N":
                self.fail("loc:shape", "empty structured list is not nil")
            else:
                self.glue(t, i, o, c)
        else:
            if t.kind[i] != "C":
                self.fail("loc:shape", "structured list node is not a cons")
                return
            self.glue(t, i, o, c)
            mid = len(items) // 2
            self.struct(t, t.left[i], o, c, items[:mid])
            self.struct(t, t.right[i], o, c, items[mid:])

    def glue(self, t, i, o, c):
        loc = t.loc[i]
        if loc[0] != 0:
            return                          # reported (with its signature) by the loose pass
        sp = self.co.span(loc)
        if sp is None or not (o <= sp[0] and sp[1] <= c + 1):
            self.fail("loc:list-outside-own-parens", f"node {t.kind[i]} {loc} = {sp} not inside its list's delimiters [{o}, {c}]")


# ----------------------------------------------------------------------------------------
# generators
# ----------------------------------------------------------------------------------------

WORD_CHARS = b"abcdefghijklmnopqrstuvwxyzABCDEFXYZ_-+*/=<>!?$&%@:^~0123456789"
SEPS = [b" ", b" ", b" ", b"  ", b"\n", b"\n  ", b"\n\n", b" ; note (x . \"y\n", b"\r\n", b" \x0c", b"\n;; #( ' \n    "]


def gen_token(rng):
    k = rng.randrange(16)
    if k == 0:
        return rng.choice([b"a", b"x", b"+", b"-", b"&rest", b"@", b"*", b"defun", b"mod", b"q", b"a.b", b"x.", b"-a", b"0y1", b"1a", b"--1", b"a(b", b"a\"b", b"a;b", b"caf\xc3\xa9"])
    if k in (1, 2, 3):
        n = rng.choice([1, 1, 2, 3, 5, 9, 17])
        first = rng.choice(b"abcdefghijklmnopqrstuvwxyzXYZ_+*/=<>!?$&%@:^~")
        return bytes([first]) + bytes(rng.choice(WORD_CHARS) for _ in range(n - 1))
    if k == 4:
        return str(rng.choice([0, 1, 2, 7, 10, 127, 128, 255, 256, 65535, 2 ** 31, 2 ** 64, 10 ** 30 + 7])).encode()
    if k == 5:
        return b"-" + str(rng.choice([0, 1, 2, 128, 129, 256, 2 ** 63, 10 ** 25])).encode()
    if k == 6:
        return rng.choice([b"0", b"00", b"007", b"-0", b"-007", b"000123456789012345678901234567890"])
    if k == 7:
        n = rng.choice([0, 1, 2, 3, 4, 8, 9, 64])
        return b"0x" + bytes(rng.choice(b"0123456789abcdefABCDEF") for _ in range(n))
    if k == 8:
        return rng.choice([b"0x", b"0xzz", b"0x1g2", b"0xfffz", b"0X10", b"0x-1"])
    if k in (9, 10, 11):
        q = rng.choice([0x22, 0x22, 0x27])
        body = bytearray()
        for _ in range(rng.choice([0, 1, 2, 5, 12])):
            c = rng.randrange(12)
            if c == 0:
                body += b"\\" + bytes([q])
            elif c == 1:
                body += b"\\\\"
            elif c == 2:
                body += b"\n"
            elif c == 3:
                body += bytes([0x22 if q == 0x27 else 0x27])
            elif c == 4:
                body += rng.choice([b"(", b")", b";", b"#", b" . ", b"\\n", b"\\x"])
            elif c == 5:
                body += b"\n   "
            else:
                body += bytes([rng.choice(b"abc xyz012,.-")])
        return bytes([q]) + bytes(body) + bytes([q])
    if k == 12:
        names = sorted(PRIM_NAMES) or [b"a", b"c", b"sha256"]
        return b"#" + rng.choice(names)
    if k == 13:
        return b"#" + rng.choice([b"foo", b"zz", b"qq", b"#", b"a1", b"sha", b"sha2567", b"x-y"])
    if k == 14:
        return rng.choice([b"()", b"()", b"( )"])[:2]
    return rng.choice([b"q", b"a", b"c", b"f", b"r", b"i", b"x", b"l"])


def gen_form(rng, depth):
    r = rng.random()
    if depth <= 0 or r < 0.45:
        return ("tok", gen_token(rng))
    if r < 0.9:
        n = rng.choice([0, 1, 1, 2, 2, 3, 4, 6])
        items = [gen_form(rng, depth - 1) for _ in range(n)]
        tail = None
        if items and rng.random() < 0.2:
            tail = gen_form(rng, depth - 1)
            if tail[0] == "tok" and tail[1][:1] == b".":
                tail = ("tok", b"t")
        return ("list", items, tail)
    n = rng.choice([0, 1, 2, 3, 4, 5, 7, 8])
    return ("slist", [gen_form(rng, depth - 1) for _ in range(n)])


class Layout:
    """lays a form tree out as text with random white space / comments; returns the tree
    annotated with offsets: ('tok', a, b, text) | ('list', o, c, items, tail) | ('slist', o, c, items)"""

    def __init__(self, rng, dense=False):
        self.rng = rng
        self.out = bytearray()
        self.dense = dense

    def sep(self, need):
        """white space between two things; `need`: at least one white-space character"""
        if need or self.rng.random() < (0.15 if self.dense else 0.4):
            self.out += self.rng.choice(SEPS[:3] if self.dense else SEPS)

    def form(self, f):
        if f[0] == "tok":
            a = len(self.out)
            self.out += f[1]
            return ("tok", a, len(self.out), f[1])
        o = len(self.out)
        self.out += b"(" if f[0] == "list" else b"#("
        items = []
        prev_word = False
        for it in f[1]:
            self.sep(prev_word)
            items.append(self.form(it))
            prev_word = self.needs_blank(it)
        tail = None
        if f[0] == "list" and f[2] is not None:
            self.sep(prev_word)
            self.out += b"."
            self.sep(False)
            tail = self.form(f[2])
            self.sep(False)
        else:
            self.sep(False)
        c = len(self.out)
        self.out += b")"
        if f[0] == "list":
            return ("list", o, c, items, tail)
        return ("slist", o, c, items)

    @staticmethod
    def needs_blank(f):
        """must the thing after this form be separated by white space?"""
        if f[0] != "tok":
            return False
        tx = f[1]
        return not (tx[:1] in (b'"', b"'") or tx == b"()")


def gen_program(rng, depth=3, nforms=None, dense=False):
    lay = Layout(rng, dense)
    forms = []
    n = nforms if nforms is not None else rng.choice([1, 1, 1, 2, 3])
    lay.sep(False)
    for k in range(n):
        f = gen_form(rng, depth)
        if f[0] == "tok" and f[1][:1] in (b".",):
            f = ("tok", b"w")
        forms.append(lay.form(f))
        lay.sep(True)          # top level: always a blank after a form (see finalize note)
    return bytes(lay.out), forms


def tokens_of(text):
    """rough token boundaries for the mutation stream"""
    return [m.span() for m in re.finditer(rb"\(|\)|\"(?:\\.|[^\"\\])*\"|'(?:\\.|[^'\\])*'|;[^\n]*|[^\s()]+", text, re.S)]


def mutations(rng, text, count):
    toks = tokens_of(text)
    out = []
    if not toks:
        return out
    for _ in range(count):
        k = rng.randrange(5)
        a, b = rng.choice(toks)
        if k == 0:
            out.append(text[:a] + text[b:])
        elif k == 1:
            out.append(text[:b] + b" " + text[a:b] + text[b:])
        elif k == 2:
            c, d = rng.choice(toks)
            if b <= c:
                out.append(text[:a] + text[c:d] + text[b:c] + text[a:b] + text[d:])
            else:
                out.append(text[:a] + text[b:])
        elif k == 3:
            ins = rng.choice([b"(", b")", b".", b" . ", b"\"", b"'", b"#", b"#(", b";", b"\\", b"\n", b" "])
            out.append(text[:a] + ins + text[a:])
        else:
            out.append(text[:rng.randrange(len(text) + 1)])
    return out


SOUP = [b"(", b")", b"(", b")", b" ", b" ", b"\n", b".", b" . ", b"#", b"#(", b'"', b"'", b"\\", b";", b"a", b"foo",
        b"-1", b"0x1", b"0xfg", b"0", b"-", b"#a", b"#zz", b"\x85", b"\xa0", b"\r", b"\x0c", b"q",
        b"12345678901234567890", b'"s"', b"'t'", b"; c\n", b"\t", b"mod", b"defun", b"\x00", b"\xff"]


def shipped_sources():
    fs = []
    root = os.path.join(REPO, "resources", "tests")
    for d, _, names in os.walk(root):
        for n in names:
            if n.endswith((".clsp", ".clvm", ".clinc", ".clib")):
                fs.append(os.path.join(d, n))
    fs.sort()
    return fs


def hexarg(b):
    return b.hex() or "-"


# ----------------------------------------------------------------------------------------
# compiler errors
# ----------------------------------------------------------------------------------------

SIGILS = ["*standard-cl-21*", "*strict-cl-21*", "*standard-cl-22*", "*standard-cl-23*",
          "*standard-cl-23.1*", "*standard-cl-24*"]

BAD_BODIES = [
    # (helpers, body)  — each with one defect
    ("", "(+ X zork)"),
    ("", "(zork X 1)"),
    ("(defun f (A) (* A yy))", "(f X)"),
    ("(defun f (A) A) (defun f (B) B)", "(f X)"),
    ("(defconstant K 1) (defconstant K 2)", "K"),
    ("(defun-inline g (A) A) (defun-inline g (A B) B)", "(g X)"),
    ("(defmacro m (A) A) (defmacro m (B) B)", "(m X)"),
    ("", "(let ((A)) X)"),
    ("", "(let (A 1) X)"),
    ("", "(let ((A 1 2)) A)"),
    ("", "(let)"),
    ("", "(let ((A 1)))"),
    ("", "(let* ((A 1) (B)) A)"),
    ("", "(let ((A 1) (A 2)) A)"),
    ("", "(assign A)"),
    ("", "(assign A 1 B)"),
    ("", "(assign A 1 A 2 A)"),
    ("", "(assign A B B A A)"),
    ("", "(assign (A . B) 1 qq)"),
    ("", "(lambda)"),
    ("", "(lambda X)"),
    ("", "(lambda (& ) X)"),
    ("", "(lambda ((& qq) Y) (+ qq Y zz))"),
    ("(defun)", "X"),
    ("(defun f)", "X"),
    ("(defun 1 (A) A)", "X"),
    ("(defun f (A))", "(f X)"),
    ("(defun f A)", "(f X)"),
    ("(defconstant)", "X"),
    ("(defconstant K)", "X"),
    ("(defconst K (zork))", "K"),
    ("(defmacro m)", "X"),
    ("(include)", "X"),
    ("(include nonexistent.clinc)", "X"),
    ("(include \"nonexistent.clinc\")", "X"),
    ("(include bad-unbound.clinc)", "(bad X)"),
    ("(include bad-form.clinc)", "X"),
    ("(include bad-dup.clinc)", "(dd X)"),
    ("(include bad-unterminated.clinc)", "X"),
    ("(include good.clinc)", "(good X qq)"),
    ("(include good.clinc) (defun good (A) A)", "(good X)"),
    ("(embed-file foo bin nonexistent.bin)", "foo"),
    ("(embed-file foo wrong good.clinc)", "foo"),
    ("(defun-inline r (A) (r A))", "(r X)"),
    ("(defun f (A B) A)", "(f X)"),
    ("(defun f (A B) A)", "(f X X X)"),
    ("", "(if X)"),
    ("", "(qq (unquote))"),
    ("", "(com)"),
    ("", "(mod)"),
    ("", "(mod (A) (zork A))"),
    ("", "(a (q . 1) . 2)"),
    ("", "(x . y)"),
    ("", "((X))"),
    ("", "(\"str\" 1)"),
    ("", "(+ X"),
    ("", "(+ X \"abc)"),
    ("", "(+ X))"),
    ("", "(+ X . )"),
    ("", "(#zork X)"),
    ("(deftype T (A))", "X"),
    ("(defun f (A) (let ((B (+ A 1))) (* B cc)))", "(f X)"),
    ("(defun f ((A . B) C) (+ A B D))", "(f X X)"),
]

INCLUDE_FILES = {
    "good.clinc": b"(\n  (defun good (A) (+ A 1))\n)\n",
    "bad-unbound.clinc": b"(\n  ; helper with an unbound name\n  (defun bad (A)\n     (+ A unbound-name))\n)\n",
    "bad-form.clinc": b"(\n  (defun)\n)\n",
    "bad-dup.clinc": b"(\n  (defun dd (A) A)\n\n  (defun dd (B) B)\n)\n",
    "bad-unterminated.clinc": b"(\n  (defun uu (A) \"abc)\n)\n",
}

TEXTLESS_PSEUDO = {"*prims*", "*sym*", "*defmac*", "*env*", "*print*", "*rng*"}


def relayout(rng, src):
    """re-lay a one-line program over several lines (spaces outside strings become random
    white space / comments)"""
    out = bytearray()
    inq = None
    i = 0
    b = src.encode()
    while i < len(b):
        c = b[i]
        if inq:
            out.append(c)
            if c == 0x5c and i + 1 < len(b):
                out.append(b[i + 1])
                i += 1
            elif c == inq:
                inq = None
        elif c in (0x22,):
            inq = c
            out.append(c)
        elif c == 0x20:
            out += rng.choice([b" ", b" ", b"\n  ", b"\n", b"  ", b" ; c (\n "])
        else:
            out.append(c)
        i += 1
    return bytes(out)


def check_compile_errors(chk, quick, given=None):
    rng = chk.rng
    tmp = tempfile.mkdtemp(prefix="c15inc")
    try:
        for n, b in INCLUDE_FILES.items():
            open(os.path.join(tmp, n), "wb").write(b)
        progs = list(given) if given else []
        reps = 0 if given else (2 if quick else 12)
        for sig in SIGILS:
            for helpers, body in BAD_BODIES:
                for r in range(reps):
                    src = f"(mod (X) (include {sig}) {helpers} {body})"
                    progs.append((sig, relayout(rng, src) if r else src.encode()))
        lines = ["pseudo"] + ["e " + hexarg(p) for _, p in progs]
        ok, out = lib.build_harness()
        if not ok:
            chk.fail("proof", "harness-build", {}, out[-1500:])
            return
        res = lib.run_impl("cerr", lines, args=[tmp], timeout=900)
        pseudo = {}
        for kv in res[0].split(","):
            k, v = kv.split("=")
            pseudo.setdefault(bytes.fromhex(k).decode(), []).append(bytes.fromhex(v))
        chk.cov["pseudo_files_with_text"] = sorted(pseudo)
        for (sig, src), l, o in zip(progs, lines[1:], res[1:]):
            case = {"sub": "cerr", "line": l, "sigil": sig, "src": src.decode("latin-1")}
            chk.note_case(l)
            chk.count("cerr:" + o.split()[0])
            if o in ("panic", "timeout", "missing") or o.startswith("abort"):
                # a crashing compiler is C14's subject, not a location: recorded, not judged here
                obs = chk.cov.setdefault("out_of_scope_observations", [])
                if len(obs) < 12:
                    obs.append({"what": "compile_file " + o.split()[0], "sigil": sig, "src": src.decode("latin-1")[:200]})
                continue
            if not o.startswith("err "):
                continue
            f = o.split()
            fname = bytes.fromhex(f[1]).decode("latin-1")
            lc = f[2].split(",")
            loc = (0, int(lc[0]), int(lc[1]), None if lc[2] == "-" else (int(lc[2]), int(lc[3])))
            msg = bytes.fromhex(f[3]).decode("latin-1")
            chk.count("cerr-file:" + (fname if fname.startswith("*") else ("include" if fname.startswith(tmp) else "other")))
            if fname == "*verif-input*":
                texts = [src]
            elif (fname.startswith(tmp + os.sep) and os.path.basename(fname) in INCLUDE_FILES) or \
                    (fname in INCLUDE_FILES and fname.encode() in src):
                # an include that was read (the reader names it as written in the include form)
                texts = [INCLUDE_FILES[os.path.basename(fname)]]
            elif fname in pseudo:
                texts = pseudo[fname]
            elif fname in TEXTLESS_PSEUDO:
                if loc[1:] != (1, 1, None):
                    chk.fail("oracle", "cerr:pseudo-file-position", case, f"{fname} {loc} {msg[:80]}")
                continue
            else:
                chk.fail("oracle", "cerr:unknown-file", case, f"error names {fname!r}, which is neither the input, an include that was read, nor a built-in pseudo-file: {msg[:80]}")
                continue
            good = False
            for tx in texts:
                sp = Coords(tx).span(loc)
                if sp is not None and 0 <= sp[0] < sp[1] <= len(tx):
                    good = True
            if not good:
                chk.fail("oracle", "cerr:out-of-bounds", case, f"{fname} {loc} is not a byte range of that text: {msg[:80]}")
        chk.sample({"line": lines[-1][:160], "meaning": "e <hex source> -> compile_file error file/loc"})
    finally:
        shutil.rmtree(tmp, ignore_errors=True)


# ----------------------------------------------------------------------------------------
# the check
# ----------------------------------------------------------------------------------------

def judge_reader(chk, texts):
    """correspondence + oracle for a list of (text, class, layout forms or None)"""
    rng = chk.rng
    # protocol lines: whole + streaming for everything, random chunking for a part
    lines = []
    meta = []
    for idx, (t, cls, forms) in enumerate(texts):
        h = hexarg(t)
        lines.append("w " + h)
        meta.append((idx, "w"))
        lines.append("s " + h)
        meta.append((idx, "s"))
        if idx % 4 == 0 and len(t) > 1:
            cuts = sorted(rng.randrange(len(t) + 1) for _ in range(rng.choice([1, 2, 5])))
            chunks, p = [], 0
            for c in cuts + [len(t)]:
                chunks.append(t[p:c])
                p = c
            lines.append("c " + " ".join(hexarg(c) for c in chunks))
            meta.append((idx, "c"))
    for l, (idx, _) in zip(lines, meta):
        chk.note_case(l, nontrivial=len(texts[idx][0]) > 2)
        chk.count("class:" + texts[idx][1])
    chk.sample({"line": lines[0][:200], "meaning": "w <hex text>: parse_sexp on the whole text"})
    chk.sample({"line": lines[1][:200], "meaning": "s <hex text>: ParsePartialResult push per byte, finalize"})

    mo, io = lib.correspond(chk, "reader", lines, label="reader", timeout=1200)
    if not io:
        return


    # --- the property-level oracle on the implementation's own output
    results = {}
    for (idx, mode), o in zip(meta, io):
        results.setdefault(idx, {})[mode] = o
    nleaf = nlist = nerr = nok = 0
    for idx, (t, cls, forms) in enumerate(texts):
        r = results[idx]
        case = {"sub": "reader", "line": "w " + hexarg(t), "class": cls, "text": t[:200].decode("latin-1")}
        w = r["w"]
        for mode in ("s", "c"):
            if mode in r and r[mode] != w:
                chk.fail("oracle", "reader:stream-ne-whole", case,
                         {"whole": w[:300], mode: r[mode][:300]})
        if w in ("panic", "timeout", "missing") or w.startswith("abort"):
            chk.fail("oracle", "reader:" + w.split()[0], case, w)
            continue
        d = dec_result(w)
        orc = Oracle(chk, t, case)
        if d[0] == "err":
            nerr += 1
            chk.count("msg:" + d[1])
            orc.error_loc(d[2])
        elif d[0] == "ok":
            nok += 1
            for tr in d[1]:
                orc.tree_loose(tr)
                nleaf += sum(1 for k in tr.kind if k != "C")
                nlist += sum(1 for k in tr.kind if k == "C")
                for k, pl in zip(tr.kind, tr.payload):
                    chk.count("node:" + (k if k != "Q" else "Q%02x" % pl[0]))
            if forms is not None:
                if len(d[1]) != len(forms):
                    orc.fail("loc:shape", f"{len(forms)} forms laid out, {len(d[1])} read")
                else:
                    for tr, f in zip(d[1], forms):
                        orc.form_tight(tr, 0, f)
        else:
            chk.fail("oracle", "reader:bad-output", case, w[:200])
    chk.count("oracle:leaves", nleaf)
    chk.count("oracle:list-nodes", nlist)
    chk.count("oracle:ok-texts", nok)
    chk.count("oracle:error-texts", nerr)



def replay(chk):
    """re-run exactly the case(s) recorded in a replay file"""
    r = chk.replay_cases
    cases = []
    if "case" in r:
        cases.append(r["case"])
    cases += [m.get("case", {}) for m in r.get("more", [])]
    cases += [m.get("first_case", {}) for m in r.get("no_longer_checks", [])]
    texts, olines, progs = [], [], []
    for c in cases:
        f = c.get("line", "").split()
        if c.get("sub") == "reader" and f and f[0] in ("w", "s"):
            texts.append((b"" if f[1] == "-" else bytes.fromhex(f[1]), "replay", None))
        elif c.get("sub") == "reader" and f and f[0] == "c":
            texts.append((b"".join(b"" if h == "-" else bytes.fromhex(h) for h in f[1:]), "replay", None))
        elif c.get("sub") == "reader" and f:
            olines.append(c["line"])
        elif c.get("sub") == "cerr" and f:
            progs.append((c.get("sigil", "?"), bytes.fromhex(f[1])))
    if texts:
        judge_reader(chk, texts)
    if olines:
        lib.correspond(chk, "reader", olines, label="srcloc")
    if progs:
        check_compile_errors(chk, True, progs)


def run(chk):
    rng = chk.rng
    quick = chk.tier == "quick"
    lib.std_obligations(chk)
    chk.cov["rule"] = ("reader lines: w/s/c <hex text> (whole parse, byte-at-a-time push+finalize, random chunking); "
                       "generated programs of every token kind re-laid-out with random white space/comments/newlines, "
                       "shipped sources under resources/tests, token mutations and truncations of both, token soup; "
                       "o/a lines: Srcloc ext/overlap/ending/len/advance on random locations; cerr lines: erroneous "
                       "programs x 6 dialect sigils. distinct = distinct protocol lines; non-trivial = text longer than 2 bytes")
    ok, out = lib.build_harness()
    if not ok:
        chk.fail("proof", "harness-build", {}, out[-1500:])
        return

    # --- the prim table (model = runtime), and the names used by the generator
    mo = lib.run_model("reader", ["p"])
    io = lib.run_impl("reader", ["p"])
    if mo != io:
        chk.fail("correspondence", "corr:reader-prims", {"sub": "reader", "line": "p"}, {"model": mo[0][:300], "impl": io[0][:300]})
    for kv in io[0].split(","):
        k, v = kv.split("=")
        PRIM_NAMES.setdefault(bytes.fromhex(k), int(v))

    if chk.replay_cases is not None:
        replay(chk)
        return

    texts = []      # (text, class, layout forms or None)
    # generated programs
    ngen = 6000 if quick else 120000
    for k in range(ngen):
        t, forms = gen_program(rng, depth=rng.choice([1, 2, 3, 3, 4]), dense=(k % 3 == 0))
        texts.append((t, "gen", forms))
    # one token alone / in a list, every kind many times
    for k in range(3000 if quick else 40000):
        tok = gen_token(rng)
        lay = Layout(rng)
        f = lay.form(("list", [("tok", b"h"), ("tok", tok)], None) if k % 2 else ("tok", tok))
        lay.out += rng.choice([b" ", b"\n"])
        texts.append((bytes(lay.out), "gen-token", [f]))
    # every prim name as #name
    for n in sorted(PRIM_NAMES):
        texts.append((b"(#" + n + b" 1 2)\n", "hash-prim", None))
        texts.append((b"(1 #" + n + b")\n", "hash-prim", None))
        texts.append((b"(1 . #" + n + b")\n", "hash-prim", None))
        texts.append((b"#" + n, "hash-prim", None))
    # hand-written corner cases (incl. the inline tests of sexp.rs and the finalize quirk)
    for t in [b"(1 . x)", b"(1 . ())", b"(1 . () ;; Test\n)", b"(# a)", b"# ", b"#\n", b"a b", b"(a) b", b"(a . )",
              b"( . )", b"#()", b"#(a)", b"#( a b c )", b"(a\n  b\n)", b"##", b"#x", b"(#)", b"", b" ", b"\n", b"()",
              b"( )", b"(()())", b"'a\\'b\nc'", b"\"\"", b"''", b"(a . (b c))", b"(a . (b . (c . ())))", b"(a.b)",
              b"(a .b)", b"(a . b )", b"a)", b"a) b", b"(a b . c d)", b"(a . b . c)", b"(.a)", b"( .a)", b"\t(a\tb)\t",
              b"(a\t\tb \"x\ty\")", b"\xc3\xa0b", b"(\xe2\x82\xac)", b"a\x0bb\x85c\xa0d ", b"0x", b"(0x)", b"(-)", b"(- 1)",
              b"(\"a\"\"b\")", b"(\"a\"b)", b"(a\"b\" c)", b";only a comment", b"; c\n(a)", b"(a ; c\n)", b"(a ;c)",
              b"#(a #(b c) (d . e))", b"#(a . b)", b"(((((((((( a ))))))))))"]:
        texts.append((t, "corner", None))
    # shipped sources
    srcs = shipped_sources()
    ship = []
    ntabs = 0
    for f in srcs:
        b = open(f, "rb").read()
        if b"\t" in b:
            ntabs += 1
        ship.append(b)
        texts.append((b, "shipped", None))
    chk.cov["shipped_sources"] = len(srcs)
    chk.cov["shipped_sources_with_tabs"] = ntabs
    # mutations
    base = [t for t, c, _ in texts[:ngen] if len(t) > 4]
    for t in rng.sample(base, min(len(base), 1500 if quick else 20000)):
        for m in mutations(rng, t, 3):
            texts.append((m, "mut-gen", None))
    for b in ship:
        if len(b) < 6000 or not quick:
            for m in mutations(rng, b, 3 if quick else 12):
                texts.append((m, "mut-shipped", None))
    # truncation at every offset
    for t in rng.sample(base, min(len(base), 120 if quick else 1500)):
        for k in range(len(t)):
            texts.append((t[:k], "trunc-gen", None))
    small = [b for b in ship if len(b) < (500 if quick else 3000)]
    for b in rng.sample(small, min(len(small), 12 if quick else 60)):
        for k in range(len(b)):
            texts.append((b[:k], "trunc-shipped", None))
    for b in ship:
        for _ in range(4 if quick else 40):
            texts.append((b[:rng.randrange(len(b) + 1)], "trunc-shipped", None))
    # token soup, random bytes
    for _ in range(8000 if quick else 150000):
        n = rng.randrange(1, 14)
        texts.append((b"".join(rng.choice(SOUP) for _ in range(n)), "soup", None))
    for _ in range(1000 if quick else 20000):
        texts.append((bytes(rng.randrange(256) for _ in range(rng.randrange(1, 24))), "random-bytes", None))
    for d in (50, 100, 200):
        texts.append((b"(" * d + b"a" + b")" * d, "deep", None))
        texts.append((b"(" * d + b"a", "deep", None))
        texts.append((b"(a . " * d + b"b" + b")" * d, "deep", None))

    judge_reader(chk, texts)

    # --- Srcloc operations on random locations
    olines = []

    def rloc():
        f = rng.choice([0, 0, 0, 1])
        l, c = rng.randrange(1, 6), rng.randrange(1, 9)
        if rng.random() < 0.4:
            return f"{f},{l},{c},-"
        ul = l + rng.choice([0, 0, 0, 1, 2])
        uc = rng.randrange(c + 1, c + 8) if ul == l else rng.randrange(1, 9)
        return f"{f},{l},{c},{ul},{uc}"
    for _ in range(6000 if quick else 60000):
        olines.append(f"o {rloc()} {rloc()}")
    for _ in range(1500 if quick else 15000):
        olines.append("a " + hexarg(bytes(rng.choice(b"ab \n\t\t\r(") for _ in range(rng.randrange(0, 30)))))
    for l in olines:
        chk.note_case(l)
    lib.correspond(chk, "reader", olines, label="srcloc")
    chk.sample({"line": olines[0], "meaning": "o <loc> <loc>: ext both ways, overlap, ending, len"})

    # --- compiler errors (oracle only)
    check_compile_errors(chk, quick)

    chk.cov["exhaustive"] = False
    chk.cov["modelled_not_verified"] = [
        "tabs: the theorems about byte offsets assume tab-free texts (Span-level theorems hold for all texts); "
        "texts with tabs are covered by correspondence and by the oracle (which simulates column counting)",
        "compiler error locations (frontend / codegen): oracle only, no model",
        "`Srcloc::overlap` and `len`: modelled and correspondence-checked, no theorem",
        "the reader's finalize drops earlier forms when the text ends inside a bareword (mirrored, not a location matter)",
    ]
    chk.assumptions.append("located trees travel in the text encoding of harness/src/reader.rs and Drv/Reader.lean")
    chk.assumptions.append("file names: 0 = the text being read, 1 = *prims*")
