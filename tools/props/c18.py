"""C18 — the dependency listing names every file a compilation reads.

Proof: lean/ChialispModel/Props/C18.lean over the model Sys/Deps.lean (preprocessor traversal,
search-path resolution, nested-mod frontends).  Tie: `cvh deps` materialises generated include
graphs as files, runs gather_dependencies and a compilation whose CompilerOpts records every
read_new_file call, `modeld deps` evaluates the model on the same abstract graph.
Oracle (implementation alone): files read ⊆ listed ∪ pseudo-files; every listed name is the first
match in search-path order and is a file actually read.

State: the model mirrors /repo after 91ba43e (embed-file targets are listed) and 95cfe0a (include
vectors of nested (mod …) programs are collected, liveness filter off).  Embed targets, includes
inside nested mods (in a call argument, a let binding, a lambda body; in helpers the program uses and
in dead ones) are POSITIVE cases now: F-C18-embed / F-C18-nested-mod are "fixed" entries, their
signatures are violations again.  What the listing still misses — a (mod …) that an old-style
defmacro produces during code generation — is exercised on the implementation alone (form `g`,
finding F-C18-macro-generated-mod).
"""
import itertools

import lib

LEVEL = "proof"

DIALECTS = {"c21": False, "c22": False, "s21": True, "c23": True}
SIGIL = {"c21": "*standard-cl-21*", "c22": "*standard-cl-22*", "s21": "*strict-cl-21*", "c23": "*standard-cl-23*"}
# data contents: (hex valid, sexp valid, bytes)
DATA = [(True, True, b"ff0102"), (True, True, b"80"), (False, True, b"(1 2 3)\n"), (False, False, b"(1 2"),
        (False, True, b"hello"), (False, False, b"(1 2) (3 4)")]


# ---- abstract cases --------------------------------------------------------------------------
# a form is ("i", name) | ("b"|"h"|"s", name) | ("m", [forms]) | ("o",)
#          | ("g", [forms])   implementation side only: a defmacro expanding to a (mod …) with these forms
# a case: dialect, order (list of dir numbers), files {(dir, name): ("F", forms) | ("D", idx)}

def enc_forms(fs):
    out = []
    for f in fs:
        if f[0] == "o":
            out.append("o")
        elif f[0] in "mg":
            out.append(f[0] + enc_forms(f[1]) + "e")
        else:
            out.append(f[0] + f[1] + ".")
    return "".join(out)


def enc_case(dialect, order, files):
    parts = []
    for (d, name), c in sorted(files.items(), key=lambda kv: (kv[0][1] != "main", kv[0])):
        if c[0] == "F":
            parts.append(f"{d}{name}=F{enc_forms(c[1])}")
        else:
            hx, sx, b = DATA[c[1]]
            parts.append(f"{d}{name}=D{int(hx)}{int(sx)}{b.hex()}")
    return f"{dialect} {''.join(str(x) for x in order) or '-'} " + ";".join(parts)


def dec_forms(t, pos):
    out = []
    while pos < len(t):
        c = t[pos]
        if c == "o":
            out.append(("o",)); pos += 1
        elif c in "ibhs":
            j = t.index(".", pos)
            out.append((c, t[pos + 1:j])); pos = j + 1
        elif c in "mg":
            inner, pos = dec_forms(t, pos + 1)
            out.append((c, inner)); pos += 1          # skip the closing 'e'
        else:
            break
    return out, pos


def dec_case(line):
    """inverse of enc_case (for --replay): -> (dialect, order, files)"""
    dialect, order, rest = line.split(" ", 2)
    files = {}
    for part in rest.split(";"):
        lhs, rhs = part.split("=", 1)
        key = (int(lhs[0]), lhs[1:])
        if rhs[0] == "F":
            files[key] = ("F", dec_forms(rhs, 1)[0])
        else:
            b = bytes.fromhex(rhs[3:])
            idx = [k for k, d in enumerate(DATA) if d[2] == b]
            files[key] = ("D", idx[0] if idx else 0)
    return dialect, [int(c) for c in order if c.isdigit()], files


def first_match(order, files, name, kind):
    for d in order:
        c = files.get((d, name))
        if c is not None and c[0] == kind:
            return d
    return None


def reach(order, files, allow_nested, allow_gen=False):
    """python's own traversal of the abstract graph (independent of the Lean model):
    -> (include files, data files) that can be reached from the main program, following includes of
    included files, nested-mod bodies only when `allow_nested`, macro-generated mods only when `allow_gen`."""
    incs, dats = set(), set()
    todo = [files[(0, "main")][1]]
    while todo:
        forms = todo.pop()
        for f in forms:
            if f[0] == "i":
                if f[1].startswith("*"):
                    continue
                d = first_match(order, files, f[1], "F")
                if d is not None and (d, f[1]) not in incs:
                    incs.add((d, f[1]))
                    todo.append(files[(d, f[1])][1])
            elif f[0] in "bhs":
                d = first_match(order, files, f[1], "D")
                if d is not None:
                    dats.add((d, f[1]))
            elif f[0] == "m" and allow_nested:
                todo.append(f[1])
            elif f[0] == "g" and allow_gen:
                todo.append(f[1])
    return incs, dats


class Gen:
    def __init__(self, rng):
        self.rng = rng

    def forms(self, names, datas, depth_left, strict, allow_nested=True, top=False):
        rng = self.rng
        out = []
        n = rng.randrange(0, 4)
        for _ in range(n):
            r = rng.random()
            if r < 0.45 and names:
                out.append(("i", rng.choice(names)))
            elif r < 0.6 and datas:
                out.append((rng.choice("bhs"), rng.choice(datas)))
            elif r < 0.75 and allow_nested:
                inner = self.forms(names, datas, depth_left, strict, allow_nested=rng.random() < 0.2)
                if rng.random() < 0.5:
                    inner = [("i", SIGIL[rng.choice(list(SIGIL))])] + inner
                out.append(("m", inner))
            else:
                out.append(("o",))
        return out

    def case(self, depth):
        """an include DAG of the given depth spread over up to 3 directories."""
        rng = self.rng
        dialect = rng.choice(list(DIALECTS))
        strict = DIALECTS[dialect]
        ndirs = rng.randrange(1, 4)
        layers = [[f"{chr(97 + l)}{i}" for i in range(rng.randrange(1, 3))] for l in range(depth)]
        if layers and rng.random() < 0.3:
            # a file whose name ends with another file's name (za0 / a0): names must be compared whole
            l = rng.randrange(len(layers))
            layers[l].append("z" + rng.choice(layers[l]))
            if rng.random() < 0.5:
                rng.shuffle(layers[l])
        datas = [f"x{i}" for i in range(rng.randrange(0, 3))]
        files = {}
        for l, layer in enumerate(layers):
            below = [n for ly in layers[l + 1:] for n in ly]
            for name in layer:
                copies = rng.sample(range(ndirs), rng.randrange(1, ndirs + 1)) if rng.random() < 0.4 else [rng.randrange(ndirs)]
                for d in copies:
                    # files of a non-strict dialect cannot contain include/embed forms (they are not preprocessed)
                    if strict or rng.random() < 0.1:
                        fs = self.forms(below, datas, depth - l, strict)
                        if below and rng.random() < 0.8:
                            fs.insert(rng.randrange(len(fs) + 1), ("i", rng.choice(layers[l + 1]) if l + 1 < len(layers) else rng.choice(below)))
                    else:
                        fs = [f for f in self.forms(below, datas, depth - l, strict) if f[0] in "om"]
                    files[(d, name)] = ("F", fs)
        for x in datas:
            for d in (rng.sample(range(ndirs), rng.randrange(1, ndirs + 1))):
                files[(d, x)] = ("D", rng.randrange(len(DATA)) if rng.random() < 0.3 else rng.randrange(2))
        allnames = [n for ly in layers for n in ly]
        main = self.forms(allnames, datas, depth, strict, top=True)
        if layers and rng.random() < 0.9:
            main.insert(rng.randrange(len(main) + 1), ("i", rng.choice(layers[0])))
        if rng.random() < 0.05:
            main.append(("i", "zz"))            # missing file
        files[(0, "main")] = ("F", main)
        order = list(range(ndirs))
        rng.shuffle(order)
        if rng.random() < 0.15 and ndirs > 1:
            order = order[:-1]
        if rng.random() < 0.2 and len(order) > 1:
            # a search path that names a directory twice (-i a -i b -i a): the FIRST mention decides
            order = order + [order[rng.randrange(len(order) - 1)]]
        return dialect, order, files


def fixed_cases():
    """hand-written boundary cases (each class the model case-splits on)."""
    F = lambda *fs: ("F", list(fs))
    i = lambda n: ("i", n)
    o = ("o",)
    out = []
    for dia in DIALECTS:
        out += [
            (dia, [0], {(0, "main"): F(o)}),
            (dia, [0], {(0, "main"): F(i("a"), o), (0, "a"): F(o)}),
            (dia, [0], {(0, "main"): F(i("a"), i("a")), (0, "a"): F(o)}),
            (dia, [0], {(0, "main"): F(i("a")), (0, "a"): F(i("b"), o), (0, "b"): F(o)}),
            (dia, [0], {(0, "main"): F(i("a")), (0, "a"): F(i("b")), (0, "b"): F(i("c")), (0, "c"): F(i("d")), (0, "d"): F(o)}),
            (dia, [0, 1], {(0, "main"): F(i("a")), (0, "a"): F(o), (1, "a"): F(o, o)}),
            (dia, [1, 0], {(0, "main"): F(i("a")), (0, "a"): F(o), (1, "a"): F(o, o)}),
            (dia, [1, 0], {(0, "main"): F(i("a")), (0, "a"): F(i("b")), (1, "a"): F(i("c")), (0, "b"): F(o), (0, "c"): F(o), (1, "c"): F(o)}),
            (dia, [1], {(0, "main"): F(i("a")), (0, "a"): F(o)}),
            (dia, [0, 1, 0], {(0, "main"): F(i("a")), (0, "a"): F(o), (1, "a"): F(o, o)}),
            (dia, [1, 0, 1], {(0, "main"): F(i("a")), (0, "a"): F(o), (1, "a"): F(o, o)}),
            (dia, [0, 1, 1, 0], {(0, "main"): F(i("a"), i("b")), (0, "a"): F(o), (1, "a"): F(o, o), (1, "b"): F(o)}),
            (dia, [0], {(0, "main"): F(i("za"), i("a")), (0, "a"): F(o), (0, "za"): F(o, o)}),
            (dia, [0], {(0, "main"): F(i("a"), i("za")), (0, "a"): F(o), (0, "za"): F(o, o)}),
            (dia, [0, 1], {(0, "main"): F(i("za"), i("a")), (1, "a"): F(o), (0, "za"): F(o, o)}),
            (dia, [], {(0, "main"): F(i("a")), (0, "a"): F(o)}),
            (dia, [0], {(0, "main"): F(i("zz"))}),
            (dia, [0], {(0, "main"): F(("m", [i("a"), o]), o), (0, "a"): F(o)}),
            (dia, [0], {(0, "main"): F(("m", [i(SIGIL["c23"]), i("a")]), i("a")), (0, "a"): F(o)}),
            (dia, [0], {(0, "main"): F(("m", [("m", [i("a")])])), (0, "a"): F(o)}),
            (dia, [0], {(0, "main"): F(i("a")), (0, "a"): F(("m", [i("b")])), (0, "b"): F(o)}),
            (dia, [0, 1], {(0, "main"): F(("m", [i("a")])), (1, "a"): F(("m", [i("b")])), (0, "b"): F(o), (1, "b"): F(o)}),
        ]
        # a nested mod after 0..5 other helpers: the harness puts the (mod …) into a call argument, a let
        # binding or a lambda body, in a helper that the main expression uses or does not use, by position
        for lead in range(6):
            out.append((dia, [0], {(0, "main"): F(*([o] * lead), ("m", [i("a"), o])), (0, "a"): F(o)}))
            out.append((dia, [0], {(0, "main"): F(*([o] * lead), ("m", [("b", "x"), ("m", [i("a")])])), (0, "a"): F(o), (0, "x"): ("D", 0)}))
        out.append((dia, [1, 0], {(0, "main"): F(("m", [("h", "x"), i("a")]), ("m", [("s", "x")])), (0, "a"): F(o), (1, "a"): F(o, o),
                                  (0, "x"): ("D", 0), (1, "x"): ("D", 1)}))
        for k in "bhs":
            for di in range(len(DATA)):
                out.append((dia, [0], {(0, "main"): F((k, "x"), o), (0, "x"): ("D", di)}))
            out.append((dia, [1, 0], {(0, "main"): F((k, "x")), (0, "x"): ("D", 0), (1, "x"): ("D", 1)}))
            out.append((dia, [0], {(0, "main"): F((k, "q"))}))
            out.append((dia, [0], {(0, "main"): F(i("a")), (0, "a"): F((k, "x")), (0, "x"): ("D", 0)}))
            out.append((dia, [0], {(0, "main"): F(("m", [(k, "x")])), (0, "x"): ("D", 0)}))
    return out


def gen_cases(rng, n):
    """IMPLEMENTATION-ONLY cases (the model's form language has no `g`): a (mod …) with includes / embeds
    that exists only after an old-style defmacro was expanded, i.e. during code generation."""
    F = lambda *fs: ("F", list(fs))
    i = lambda nm: ("i", nm)
    o = ("o",)
    out = []
    for dia in DIALECTS:
        out += [
            (dia, [0], {(0, "main"): F(("g", [i("a")]), o), (0, "a"): F(o)}),
            (dia, [0], {(0, "main"): F(i("a"), ("g", [i("b"), o])), (0, "a"): F(o), (0, "b"): F(o)}),
            (dia, [0], {(0, "main"): F(("g", [("b", "x")])), (0, "x"): ("D", 0)}),
            (dia, [1, 0], {(0, "main"): F(("g", [i("a")]), ("m", [i("b")])), (0, "a"): F(o), (1, "a"): F(o, o), (0, "b"): F(o)}),
            (dia, [0], {(0, "main"): F(i("a"), ("g", [i("a")])), (0, "a"): F(o)}),     # listed anyway (plain include too)
        ]
    for _ in range(n):
        dia = rng.choice(list(DIALECTS))
        inner = [i(rng.choice("ab")) if rng.random() < 0.7 else (rng.choice("bhs"), "x") for _ in range(rng.randrange(1, 3))]
        main = [o] * rng.randrange(0, 3) + [("g", inner)] + ([i("a")] if rng.random() < 0.3 else [])
        out.append((dia, [0], {(0, "main"): F(*main), (0, "a"): F(o), (0, "b"): F(o), (0, "x"): ("D", rng.randrange(2))}))
    return out


CYCLES = [
    lambda dia: (dia, [0], {(0, "main"): ("F", [("i", "a")]), (0, "a"): ("F", [("i", "a")])}),
    lambda dia: (dia, [0], {(0, "main"): ("F", [("i", "a")]), (0, "a"): ("F", [("i", "b")]), (0, "b"): ("F", [("i", "a")])}),
    lambda dia: (dia, [0, 1], {(0, "main"): ("F", [("o",), ("i", "a")]), (1, "a"): ("F", [("i", "b")]), (0, "b"): ("F", [("i", "c")]), (1, "c"): ("F", [("i", "a")])}),
]


def parse_out(o):
    """-> dict(deps_status, deps, reads_status, reads, calls)"""
    f = o.split()
    if len(f) < 4 or not f[0].startswith("deps=") or not f[2].startswith("reads="):
        return None
    calls = []
    if len(f) > 4 and f[4].startswith("calls=") and f[4] != "calls=-":
        calls = [tuple(x.split(">", 1)) for x in f[4][6:].split(",")]
    return {"ds": f[0][5:], "deps": [] if f[1] == "-" else f[1].split(","), "rs": f[2][6:],
            "reads": [] if f[3] == "-" else f[3].split(","), "calls": calls}


def oracle(chk, case, line, out):
    dialect, order, files = case
    p = parse_out(out)
    cj = {"sub": "deps", "line": line}
    if p is None:
        chk.fail("oracle", "deps:harness-broke", cj, out[:300])
        return
    chk.count(f"deps:{p['ds']}/reads:{p['rs']}")
    if p["ds"] != "ok" or p["rs"] != "ok":
        if p["ds"] == "ok" and p["rs"] != "ok":
            chk.count("listing-ok-but-compile-error")
        if p["ds"] != "ok" and p["rs"] == "ok":
            # a compilation that succeeds while the listing fails: loud, not silent — recorded
            chk.count("compile-ok-but-listing-error")
            chk.fail("oracle", "deps:listing-fails-on-compilable-program", cj, out[:300])
        return
    # python's own view of the graph, to give a precise signature to an unlisted read
    outer_inc, outer_dat = reach(order, files, False)
    any_inc, seen_dat = reach(order, files, True)
    gen_inc, gen_dat = reach(order, files, True, True)
    nested_only = any_inc - outer_inc
    gen_only = (gen_inc - any_inc) | (gen_dat - seen_dat)
    listed = set(p["deps"])
    for r in p["reads"]:
        if r.startswith("*"):
            continue
        if r in listed:
            continue
        if "/" not in r or "." not in r:
            chk.fail("oracle", "deps:read-not-listed", cj, f"{r} is read but not listed; listing = {p['deps']}")
            continue
        d, fname = r.split("/", 1)
        dnum = int(d[1:])
        base, ext = fname.rsplit(".", 1)
        if (dnum, base) in gen_only:
            chk.fail("oracle", "deps:macro-generated-mod-read-not-listed", cj,
                     f"{r} is read (by a (mod …) that a defmacro expansion produced) but not listed; listing = {p['deps']}")
        elif ext == "dat" and (dnum, base) in seen_dat:
            chk.fail("oracle", "deps:embed-not-listed", cj, f"{r} is read (embed-file) but not listed; listing = {p['deps']}")
        elif ext == "clib" and (dnum, base) in nested_only:
            chk.fail("oracle", "deps:nested-mod-include-not-listed", cj,
                     f"{r} is read (included inside a nested mod only) but not listed; listing = {p['deps']}")
        else:
            chk.fail("oracle", "deps:read-not-listed", cj, f"{r} is read but not listed; listing = {p['deps']}")
    import re
    for l in p["deps"]:
        if not re.fullmatch(r"d\d/[a-z0-9]+\.(clib|dat)", l):
            chk.fail("oracle", "deps:listed-name-not-resolved", cj, f"listed name {l!r} is not the path the file was found at")
            continue
        d, fname = l.split("/", 1)
        base, ext = fname.rsplit(".", 1)
        fm = first_match(order, files, base, "F" if ext == "clib" else "D")
        if fm is None or f"d{fm}" != d:
            chk.fail("oracle", "deps:listed-not-first-match", cj, f"{l} listed but the first match in search order {order} is d{fm}")
        if l not in p["reads"]:
            chk.fail("oracle", "deps:listed-not-read", cj, f"{l} listed but never read by the compilation")
    for req, res in p["calls"]:
        if res in ("!",) or res.startswith("*") or "/" not in res or "." not in res:
            continue
        d, fname = res.split("/", 1)
        base, ext = fname.rsplit(".", 1)
        fm = first_match(order, files, base, "F" if ext == "clib" else "D")
        if fm is None or f"d{fm}" != d or fname != req:
            chk.fail("oracle", "deps:read-not-first-match", cj, f"request {req} resolved to {res}, first match is d{fm}")


def correspond_par(chk, lines, norm):
    """lib.correspond with one chunk per core (a strict-dialect compilation takes ~0.5 s)."""
    from concurrent.futures import ThreadPoolExecutor
    ok, out = lib.build_harness()
    if not ok:
        chk.fail("proof", "harness-build", {}, out[-1500:])
        return [], []
    n = max(1, min(lib.NCPU, len(lines)))
    chunks = [lines[i::n] for i in range(n)]

    def both(c):
        return lib._run_chunk([lib.MODELD, "deps"], c, 900), lib._run_chunk([lib.CVH, "deps"], c, 900)

    with ThreadPoolExecutor(max_workers=n) as ex:
        res = list(ex.map(both, chunks))
    mo, io = [None] * len(lines), [None] * len(lines)
    for k, (m, i) in enumerate(res):
        mo[k::n] = m
        io[k::n] = i
    bad = 0
    for l, a, b in zip(lines, mo, io):
        if norm(a) != norm(b):
            bad += 1
            if bad <= 5:
                chk.fail("correspondence", "corr:deps", {"sub": "deps", "line": l}, {"model": a[:300], "impl": b[:300]})
    chk.count("deps:lines", len(lines))
    chk.count("deps:disagreements", bad)
    chk.cov["traces_validated_against_impl"] = chk.cov.get("traces_validated_against_impl", 0) + len(lines) - bad
    return mo, io


def run(chk):
    rng = chk.rng
    quick = chk.tier == "quick"
    lib.std_obligations(chk)
    chk.cov["rule"] = ("generated include graphs of depth 0..4 over 1..3 search directories (plain and nested includes, "
                       "embed-file bin/hex/sexp with valid and invalid data (also inside nested mods and included files), same name "
                       "in several directories, nested mod with own includes and sigils — placed by the harness in a call argument, "
                       "a let binding or a lambda body of a helper that the main expression uses or not —, missing files, "
                       "search-path permutations and subsets) x dialect "
                       "{standard-cl-21, standard-cl-22, strict-cl-21, standard-cl-23}; plus hand-written boundary cases and "
                       "include cycles (each in its own process). distinct = distinct case lines; non-trivial = at least one include/embed")
    cases = fixed_cases()
    g = Gen(rng)
    n = 350 if quick else 8000
    depth_of = {}
    for k in range(n):
        c = g.case(k % 5)
        depth_of[enc_case(*c)] = k % 5
        cases.append(c)
    if chk.replay_cases:
        cases = []
    lines = [enc_case(*c) for c in cases]
    # the strict-dialect preprocessor reads an included file 2^depth times (and compiles the macro
    # prelude each time); keep the cases whose predicted number of read_new_file calls is moderate
    pre = lib.run_model("deps", lines, jobs=lib.NCPU)
    keep = []
    for c, l, m in zip(cases, lines, pre):
        k = int(m.rsplit("n=", 1)[1]) if "n=" in m else 0
        if k <= 40:
            keep.append((c, l))
        else:
            chk.count("generated-but-too-expensive-for-the-real-preprocessor")
    cases = [c for c, _ in keep]
    lines = [l for _, l in keep]
    if chk.replay_cases and "line" in chk.replay_cases.get("case", {}):
        # replay: the oracle on the implementation, and model = implementation unless the line uses the
        # implementation-only form `g`
        l = chk.replay_cases["case"]["line"]
        c = dec_case(l)
        o = lib.run_impl("deps", [l], jobs=1, timeout=600)[0]
        chk.note_case(l, nontrivial=True)
        oracle(chk, c, l, o)
        impl_only = any(f[0] == "g" for fc in c[2].values() if fc[0] == "F" for f in fc[1])
        cases, lines = ([], []) if impl_only else ([c], [l])
    def has(fs, kinds):
        return any(f[0] in kinds or (f[0] in "mg" and has(f[1], kinds)) for f in fs)

    def has_in_nested(fs, kinds, inside=False):
        return any((inside and f[0] in kinds) or (f[0] == "m" and has_in_nested(f[1], kinds, True)) for f in fs)

    for l in lines:
        chk.count("dialect:" + l.split()[0])
        chk.count("include-graph-depth:%s" % depth_of.get(l, "hand-written"))
    for (dia, order, files), l in zip(cases, lines):
        allforms = [f for c in files.values() if c[0] == "F" for f in c[1]]
        chk.note_case(l, nontrivial=has(allforms, "ibhs"))
        chk.count("feature:nested-mod", int(has(allforms, "m")))
        chk.count("feature:embed", int(has(allforms, "bhs")))
        chk.count("feature:include-inside-nested-mod", int(has_in_nested(allforms, "i")))
        chk.count("feature:embed-inside-nested-mod", int(has_in_nested(allforms, "bhs")))
        chk.count("feature:nested-mod-inside-nested-mod", int(has_in_nested(allforms, "m")))
        chk.count("feature:include-in-included-file", int(any(has(c[1], "i") for k, c in files.items() if c[0] == "F" and k[1] != "main")))
        chk.count("feature:same-name-in-several-dirs", int(len({k[1] for k in files}) < len(files)))
        chk.count("search-dirs:%d" % len(order))

    def norm(o):
        f = o.split()
        return " ".join(f[:4])

    mo, io = correspond_par(chk, lines, norm) if lines else ([], [])
    if not chk.replay_cases:
        for c, l, o in zip(cases, lines, io):
            oracle(chk, c, l, o)
        i = min(len(lines) - 1, 200)
        chk.sample({"line": lines[i], "model": mo[i], "impl": io[i][:300],
                    "meaning": "<dialect> <search order> <dir><file>=F<forms>|D<flags><hex>;…  ->  listing (in order) and set of files read"})
        # implementation only: a (mod …) produced by a defmacro expansion (not in the model's form language)
        gcases = gen_cases(rng, 12 if quick else 200)
        glines = [enc_case(*c) for c in gcases]
        gout = lib.run_impl("deps", glines, jobs=lib.NCPU, timeout=600)
        for c, l, o in zip(gcases, glines, gout):
            chk.note_case(l, nontrivial=True)
            chk.count("feature:macro-generated-mod (implementation only)")
            oracle(chk, c, l, o)
        chk.sample({"line": glines[0], "impl": gout[0][:300],
                    "meaning": "g<forms>e = a defmacro whose expansion is (mod (Y) <forms> …), used by the main expression: "
                               "the file is read during code generation, the listing (frontend only) does not name it"})
        # include cycles: the real code recurses until the stack overflows (C14's finding); the model runs out of fuel
        for mk in CYCLES:
            for dia in DIALECTS:
                l = enc_case(*mk(dia))
                chk.note_case(l)
                m = lib.run_model("deps", [l], jobs=1)[0]
                o = lib.run_impl("deps", [l], jobs=1, timeout=120)[0]
                chk.count("cycle:model:" + m.split()[0])
                chk.count("cycle:impl:" + ("abort" if o.startswith("abort") else o.split()[0]))
                # the model mirrors the traversal WITHOUT a cycle guard (it runs out of fuel on a cycle, theorem
                # deps self-include); the code has had a guard since fix dbb47f4 ("<file> includes itself"): on a
                # cyclic graph it must now report an error for the listing and for the compilation, and never abort
                if o.startswith("abort") or o.split()[0] in ("timeout", "panic", "missing"):
                    chk.fail("oracle", "deps:include-cycle-crash", {"sub": "deps", "line": l}, {"model": m, "impl": o[:200]})
                elif not (m.startswith("deps=fuel") and o.startswith("deps=err") and "reads=err" in o):
                    chk.fail("correspondence", "corr:deps-cycle", {"sub": "deps", "line": l}, {"model": m, "impl": o[:200]})
                else:
                    chk.cov["traces_validated_against_impl"] = chk.cov.get("traces_validated_against_impl", 0) + 1
        chk.sample({"line": enc_case(*CYCLES[0]("c23")), "model": "deps=fuel", "impl": "deps=err reads=err (includes itself)",
                    "meaning": "an include cycle: the unguarded traversal of the model does not terminate; the code rejects it"})
    chk.cov["modelled_not_verified"] = [
        "a (mod …) that comes into being only when an old-style defmacro is expanded during code generation: the compiler reads "
        "its includes / embed targets, gather_dependencies (frontend only) cannot see them — open finding F-C18-macro-generated-mod; "
        "exercised on the implementation alone (form g), outside the model's form language and hence outside reads_subset_deps",
        "where in a helper body the nested (mod …) sits (call argument / let binding / lambda body) and whether the helper is live: "
        "one abstract form `nested` for all (the implementation side varies them)",
        "forms are abstracted to include / embed-file / helper-with-nested-mod / other; macro expansion that produces include forms "
        "(strict dialects expand defmac before looking for includes) is not modelled",
        "how often a file is read (the real compiler re-runs the frontend of a nested mod several times) — reads are compared as sets",
        "the classic (no sigil) compiler reads includes and embeds through stage_2 operators, which a CompilerOpts wrapper cannot "
        "observe; gather_dependencies on a classic program with an include inside an included file fails ('unknown keyword in helper') "
        "although the classic compiler accepts it",
        "file contents other than well-formed lists of forms (an include of a data file), absolute include names",
        "Props/C18 termination theorem is stated for programs without nested mods (fuel then counts include depth only)",
    ]
    chk.assumptions.append("files do not change between the listing and the compilation (both are evaluated on the same directory tree)")
