"""C13 — symbol tables describe the emitted program."""
import hashlib
import json
import re

import gen
import lib
import progen
import compilers

LEVEL = "proof"
HEX64 = re.compile(r"^[0-9a-f]{64}$")


def tree_hashes(v, counts=None):
    """{tree hash hex: subtree} for every subtree of a CLVM value (iterative);
    `counts` (a dict) receives the number of occurrences of every hash."""
    out = {}
    memo = {}
    stack = [(v, False)]
    while stack:
        x, done = stack.pop()
        if isinstance(x, tuple):
            if not done:
                stack.append((x, True))
                stack.append((x[0], False))
                stack.append((x[1], False))
            else:
                h = hashlib.sha256(b"\x02" + memo[id(x[0])] + memo[id(x[1])]).digest()
                memo[id(x)] = h
                out.setdefault(h.hex(), x)
                if counts is not None:
                    counts[h.hex()] = counts.get(h.hex(), 0) + 1
        else:
            h = hashlib.sha256(b"\x01" + x).digest()
            memo[id(x)] = h
            out.setdefault(h.hex(), x)
            if counts is not None:
                counts[h.hex()] = counts.get(h.hex(), 0) + 1
    return out


def split_env(prog):
    """(a (q . main) (c (q . ENV) 1)) -> ENV"""
    try:
        if prog[0] == b"\x02":
            main, rest = prog[1][0], prog[1][1][0]
            if main[0] == b"\x01" and rest[0] == b"\x04" and rest[1][0][0] == b"\x01" and rest[1][1][0] == b"\x01":
                return rest[1][0][1]
    except Exception:
        pass
    return None


def norm(text):
    return " ".join(text.replace("(", " ( ").replace(")", " ) ").split())


def calls(tree, names, acc):
    if tree[0] == "sym" and tree[1] in names:
        acc.add(tree[1])
    elif tree[0] == "list" and tree[1] and tree[1][0] == ("sym", "assign-inline"):
        # bindings of an assign-inline are substituted at their uses: an unused one vanishes,
        # so only the body is certainly part of the emitted program
        calls(tree[1][-1], names, acc)
    elif tree[0] == "list":
        for x in tree[1]:
            calls(x, names, acc)
        if tree[2] is not None:
            calls(tree[2], names, acc)


def reachable_defuns(p):
    """non-inline functions reachable from the main expression (through any function bodies)."""
    forms = p["tree"][1]
    bodies = {}
    for f in forms:
        if f[0] == "list" and len(f[1]) == 4 and f[1][0][0] == "sym" and f[1][0][1] in ("defun", "defun-inline"):
            bodies[f[1][1][1]] = (f[1][0][1] == "defun-inline", f[1][3])
    names = set(bodies)
    seen, todo = set(), set()
    calls(forms[-1], names, todo)
    while todo:
        n = todo.pop()
        if n in seen:
            continue
        seen.add(n)
        more = set()
        calls(bodies[n][1], names, more)
        todo |= more - seen
    return sorted(n for n in seen if not bodies[n][0])


def derived(p, fname):
    """(mod ARGS <sigil> helpers… (fname &rest ARGS)) — the source-level call of one function."""
    forms = list(p["tree"][1])
    forms[1] = progen.S("ARGS__")
    forms[-1] = progen.L(progen.S(fname), progen.S("&rest"), progen.S("ARGS__"))
    return ("list", forms, None)


# ---- Layer-B tie of the symbol-table model (Lang/CoreSymbols.lean) ---------------------------------

def parse_sexp(text):
    """minimal reader for the hand-written witness programs: symbols, decimal integers, lists, dotted tails."""
    toks = text.replace("(", " ( ").replace(")", " ) ").split()
    pos = [0]

    def rd():
        t = toks[pos[0]]
        pos[0] += 1
        if t == "(":
            items, tail = [], None
            while toks[pos[0]] != ")":
                if toks[pos[0]] == ".":
                    pos[0] += 1
                    tail = rd()
                else:
                    items.append(rd())
            pos[0] += 1
            return ("list", items, tail) if items else progen.NILT
        if t.lstrip("-").isdigit():
            return progen.I(int(t))
        return progen.S(t)
    return rd()


def shape_of_pattern(pat):
    """progen shape of an identifier-only parameter pattern (for argument generation)."""
    if pat[0] == "sym":
        return ("leaf", pat[1], "ilist" if pat[1].startswith("L") else "int")   # `L…` parameters are recursed on
    if pat[0] == "nil":
        return ("plist", [], None)
    return ("plist", [shape_of_pattern(x) for x in pat[1]], shape_of_pattern(pat[2]) if pat[2] is not None else None)


def program_of_text(text, dialect):
    tree = parse_sexp(text)
    fns = []
    for f in tree[1]:
        if f[0] == "list" and len(f[1]) == 4 and f[1][0] == ("sym", "defun"):
            fns.append({"name": f[1][1][1], "inline": False, "shape": shape_of_pattern(f[1][2]), "pattern": f[1][2]})
    return {"tree": tree, "text": progen.text(tree), "rich": progen.rich(tree), "dialect": dialect,
            "nfns": len(fns), "fns": fns, "pattern": tree[1][1]}


# hand-written core programs (cf. `C13.exProg`, `C13.dupProg` in Props/C13.lean): a recursive function, identical-code
# functions in several positions of the function table, dead functions, eight functions
FIXED_CORE = [
    "(mod (X Y) (include {S}) (defun sum (L) (if L (+ (f L) (sum (r L))) 0)) (defun dbl ((A . B) C) (+ A B C)) "
    "(defun dead (Q) (* Q 2)) (+ (sum X) (dbl (c X Y) Y)))",
    "(mod (X) (include {S}) (defun F (A) (+ A 1)) (defun G (B) (+ B 1)) (+ (F X) (G X)))",
    "(mod (X Y) (include {S}) (defun ff (A) (+ A 1)) (defun gg (B) (+ B 1)) (defun hh (C) (+ C 1)) (+ (gg X) (hh Y) (ff X)))",
    "(mod (X) (include {S}) (defun hh (C) (+ C 1)) (defun mid (A B) (* A B)) (defun ff (A) (+ A 1)) (mid (ff X) (hh X)))",
    "(mod (X) (include {S}) (defun ff (A) (+ A 1)) (defun dead1 (A) (+ A 1)) (ff X))",
    "(mod X (include {S}) (defun f1 (A) (+ A 1)) (defun f2 (A) (+ A 2)) (defun f3 (A) (f1 (f2 A))) (defun f4 (A . B) (c B A)) "
    "(defun f5 ((A B) C) (list A B C)) (defun f6 (L) (if L (f6 (r L)) 7)) (defun f7 (A) (f4 A A)) (defun f8 (A B C D E) (- A B C D E)) "
    "(list (f3 X) (f5 (list 1 2) 3) (f6 X) (f7 X) (f8 1 2 3 4 5)))",
    "(mod (X) (include {S}) (defun only (A) A) (only (only X)))",
    "(mod (X) (include {S}) (defun unused (A) A) (+ X 1))",
]


def gen_core_many(rng, d, nf):
    """a core program with `nf` non-inline functions, most of them live."""
    g = progen.ProgGen(rng, d, compilers.CORE_FEATURES)
    pat, types, argv, shape = g.pattern(rng.choice([1, 2, 3, 4]), prefix="P")
    helpers = [g.make_recursive() if rng.random() < 0.3 else g.make_function(False) for _ in range(nf)]
    sc = progen.Scope(types)
    parts = [g.expr(sc, rng.choice(["int", "any", "ilist"]), rng.randint(1, 3))]
    for f in g.fns:
        if rng.random() < 0.7:
            c = g.callform(sc, f, 1)
            if c is not None:
                parts.append(c)
    body = parts[0] if len(parts) == 1 else progen.L(progen.S("list"), *parts)
    if rng.random() < 0.3:
        rng.shuffle(helpers)
    forms = [progen.S("mod"), pat, progen.L(progen.S("include"), progen.S(progen.SIGILS[d]))] + helpers + [body]
    tree = ("list", forms, None)
    return {"tree": tree, "pattern": pat, "argv": argv, "types": types, "features": sorted(g.used_features), "dialect": d,
            "nfns": len(g.fns), "shape": shape, "text": progen.text(tree), "rich": progen.rich(tree),
            "fns": [{"name": f["name"], "inline": f["inline"], "shape": f["shape"], "pattern": f["pattern"]} for f in g.fns]}


def with_duplicate(rng, p):
    """`p` plus a renamed copy of one of its functions (identical code unless it is recursive),
    both called from the main expression."""
    forms = list(p["tree"][1])
    idx = [i for i, f in enumerate(forms) if f[0] == "list" and len(f[1]) == 4 and f[1][0] == ("sym", "defun")]
    if not idx:
        return None
    i = rng.choice(idx)
    f = forms[i]
    name, pat, body = f[1][1][1], f[1][2], f[1][3]
    new = name + "_dup"
    nargs = len(pat[1]) if pat[0] == "list" else 0
    args = [progen.I(rng.randint(1, 9)) for _ in range(nargs)]
    main = progen.L(progen.S("c"), progen.L(progen.S(name), *args),
                    progen.L(progen.S("c"), progen.L(progen.S(new), *args), forms[-1]))
    at = rng.choice([j for j in range(idx[0], len(forms))])
    forms = forms[:at] + [progen.L(progen.S("defun"), progen.S(new), pat, body)] + forms[at:-1] + [main]
    tree = ("list", forms, None)
    q = dict(p)
    orig = [fn for fn in p["fns"] if fn["name"] == name]
    q.update({"tree": tree, "text": progen.text(tree), "rich": progen.rich(tree), "nfns": p["nfns"] + 1,
              "fns": p["fns"] + [dict(orig[0], name=new)] if orig else p["fns"]})
    return q


def check_calls(chk, rng, d, entry, progs, outs):
    """oracle on the REAL extraction chain: the program `compose_run_function` builds for a function key
    (`cvh coresyms`: hex_to_modern_sexp, extract_program_and_env, path_to_function, rewrite_in_program), run by
    clvmr on arguments, must return what the source-level call returns (Lang.evalSrc)."""
    base_lines, src_lines, meta = [], [], []
    for p, o in zip(progs, outs):
        f = o.split()
        if len(f) != 4 or f[0] != "S" or f[3] == "-":
            continue
        table = dict(kv.split(":", 1) for kv in f[2].split(","))
        user = {fn["name"]: fn for fn in p["fns"]}
        for call in f[3].split(","):
            c = call.split(":")
            name = bytes.fromhex(table.get(c[0], "")).decode("latin1")
            if name not in user or user[name]["inline"]:
                continue
            if len(c) != 3 or not c[1].isdigit():
                chk.fail("oracle", "syms:compose-run-function", {"dialect": d, "entry": entry, "program": p["text"], "function": name},
                         f"no call program could be built for the entry of a function whose code is recorded: {call[:80]}")
                continue
            args = progen.shape_value(rng, user[name]["shape"])
            base_lines.append(c[2] + " " + gen.hexv(args))
            src_lines.append(progen.rich(derived(p, name)) + " " + gen.hexv(args))
            meta.append((p, name, args, f[1]))
    if not base_lines:
        return
    io = lib.run_impl("base", base_lines, timeout=120)
    mo = lib.run_model("src", src_lines, timeout=300, per_job=20)
    for (p, name, args, proghex), a, b in zip(meta, mo, io):
        af = a.split()
        chk.count(f"{d}:{entry}:compose-run:{af[1][0] if len(af) > 1 else '?'}/{b.split()[0]}")
        if len(af) == 2 and af[1][0] == "V" and b != "ok " + af[1][1:]:
            # known compiler defects (e.g. the literal 64 of non-strict dialects) keep their own signature
            sig = compilers.classify("C13", p, entry, af[1], b, proghex).replace("value-mismatch", "compose-run-function")
            chk.fail("oracle", sig, {"dialect": d, "entry": entry, "program": p["text"], "function": name,
                                                            "args": gen.hexv(args)}, {"source_call": af[1], "composed_program": b})


def core_tie(chk, rng, n):
    """`Core.compileCoreSyms` with H = sha256 (modeld coresyms) must equal, on the modelled key
    families, the table the real compiler returns (cvh coresyms) — and `Core.extractProgramAndEnv`,
    `Lang.pathToFunction`, `Core.rewriteInProgram` must equal the real `compose_run_function`
    pipeline for every function key.  Returns the programs whose outputs disagreed."""
    for d in ("cl21", "strict21"):
        progs = [program_of_text(t.replace("{S}", progen.SIGILS[d]), d) for t in FIXED_CORE]
        nfixed = len(progs)
        progs += compilers.gen_programs(rng, d, n, nargs=1, features=compilers.CORE_FEATURES)
        progs += [gen_core_many(rng, d, rng.randint(0, 8)) for _ in range(n // 2)]
        dups = [with_duplicate(rng, p) for p in progs[nfixed:] if p["nfns"] > 0 and rng.random() < 0.4]
        progs += [q for q in dups if q is not None]
        mo = lib.run_model("coresyms", [p["rich"] for p in progs], per_job=20)
        bad = []
        for entry in ("file:000", "text:O0"):
            io = lib.run_impl("coresyms", [entry + " " + p["text"].encode().hex() for p in progs], per_job=4, timeout=60)
            if entry == "file:000":
                check_calls(chk, rng, d, entry, progs, io)
            for k, (p, a, b) in enumerate(zip(progs, mo, io)):
                af, bf = a.split(), b.split()
                chk.count(f"coresyms:{d}:{entry}:{af[0] if af else 'none'}")
                if not af or af[0] != "K":
                    if k < nfixed:
                        chk.fail("correspondence", "corr:core-symbols-fixed", {"dialect": d, "program": p["text"]},
                                 f"hand-written core program is not accepted by the model: {a[:100]}")
                    continue
                chk.note_case(("coresyms", entry, p["text"]), p["nfns"] > 0)
                if af[1] != "wf":
                    chk.fail("correspondence", "corr:core-progWF", {"program": p["text"]},
                             "generated core program does not satisfy the theorems' hypothesis progWF")
                if not bf or bf[0] != "S":
                    chk.count(f"coresyms:{d}:{entry}:impl-{bf[0] if bf else 'none'}")
                    continue
                nkeys = 0 if af[4] == "-" else len(af[4].split(","))
                chk.count(f"coresyms:{d}:{entry}:function-keys={min(nkeys, 8)}")
                if "_dup" in p["text"]:
                    chk.count(f"coresyms:{d}:{entry}:with-duplicated-function")
                if af[2:] == bf[1:]:
                    chk.count(f"coresyms:{d}:{entry}:equal")
                    chk.cov["traces_validated_against_impl"] = chk.cov.get("traces_validated_against_impl", 0) + 1
                    continue
                what = ["program", "table", "calls"]
                diff = [w for w, x, y in zip(what, af[2:], bf[1:]) if x != y]
                chk.count(f"coresyms:{d}:{entry}:DIFFER:{'+'.join(diff)}")
                chk.fail("correspondence", "corr:core-symbols:" + "+".join(diff),
                         {"dialect": d, "entry": entry, "program": p["text"]},
                         {w: {"model": x[:600], "impl": y[:600]} for w, x, y in zip(what, af[2:], bf[1:]) if x != y})
                bad.append((d, entry, p))
        if mo:
            chk.sample({"core_program": progs[0]["text"][:300], "model_coresyms": mo[0][:300]})
        # the property-level oracle on hand-written and many-function programs (and on every disagreement)
        orac = progs[:nfixed] + [p for p in progs[nfixed:] if p["nfns"] >= 4 or "_dup" in p["text"]][:max(20, n // 4)]
        lines = ["file:000 " + p["text"].encode().hex() for p in orac]
        check_entry(chk, rng, d, "file:000", orac, lib.run_impl("syms", lines, timeout=60, per_job=4))
        for entry in ("file:000", "text:O0"):
            again = [p for (d2, e2, p) in bad if d2 == d and e2 == entry and p not in orac]
            if again:
                lines = [entry + " " + p["text"].encode().hex() for p in again]
                check_entry(chk, rng, d, entry, again, lib.run_impl("syms", lines, timeout=60, per_job=4))


# ---- Layer-B2 tie of the symbol-table model (Lang/Core2Symbols.lean) --------------------------------

# hand-written core2 programs (cf. `C13.exProg2`, `C13.dupProg2` in Props/C13.lean): inline functions, lets in
# functions / inline functions / the main expression, let*, shadowing, a function and its let-desugared twin
# (identical final code), an inline function that is the only caller of a function, dead inline functions
FIXED_CORE2 = [
    "(mod (X Y) (include {S}) (defun-inline F (A (B . C)) (let ((Z (+ A B))) (* Z C))) (defun G (N) (F N (c N 3))) "
    "(defun K (A) (let ((A (+ A 1))) (* A A))) (defun-inline D (Q) (* Q 2)) (defun z (Q) (D Q)) "
    "(let ((V (G X))) (c (F V (c Y V)) (K Y))))",
    "(mod (X) (include {S}) (defun F (A) (let ((B (+ A 1))) B)) (defun G (A) (+ A 1)) (+ (F X) (G X)))",
    "(mod (X Y) (include {S}) (defun-inline F (A B) (+ A B 1)) (defun G (N) (let ((Z (F N 2)) (W (* N N))) "
    "(let* ((Q (+ Z W)) (R (* Q Q))) (c Q R)))) (let ((V (G X))) (c V (F Y 3))))",
    "(mod (X) (include {S}) (defun hidden (A) (* A 3)) (defun-inline viaInline (A) (hidden (+ A 1))) (viaInline X))",
    "(mod (X) (include {S}) (defun-inline only (A) (+ A 1)) (only (only X)))",
    "(mod (X) (include {S}) (defun f1 (A) (let ((B (* A 2))) (let ((A (+ B 1))) (c A B)))) "
    "(defun f2 (A) (let* ((B (* A 2)) (A (+ B 1))) (c A B))) (c (f1 X) (f2 X)))",
    "(mod (X) (include {S}) (defun-inline sq (A) (* A A)) (defun sumsq (L) (if L (+ (sq (f L)) (sumsq (r L))) 0)) "
    "(let ((T (sumsq X))) (sq T)))",
]


def program2_of_text(text, dialect):
    tree = parse_sexp(text)
    fns = []
    for f in tree[1]:
        if f[0] == "list" and len(f[1]) == 4 and f[1][0][0] == "sym" and f[1][0][1] in ("defun", "defun-inline"):
            fns.append({"name": f[1][1][1], "inline": f[1][0][1] == "defun-inline", "shape": shape_of_pattern(f[1][2]),
                        "pattern": f[1][2]})
    return {"tree": tree, "text": progen.text(tree), "rich": progen.rich(tree), "dialect": dialect,
            "nfns": len(fns), "fns": fns, "pattern": tree[1][1], "features": ["inlines", "lets"]}


def gen_core2_many(rng, d, nf):
    """a core2 program with `nf` functions, about a third of them inline, bodies with lets, most of them called
    from the main expression (often through a let)."""
    g = progen.ProgGen(rng, d, compilers.CORE2_DENSE)
    pat, types, argv, shape = g.pattern(rng.choice([1, 2, 3]), prefix="P")
    helpers = []
    for _ in range(nf):
        r = rng.random()
        helpers.append(g.make_recursive() if r < 0.15 else g.make_function(r > 0.65))
    sc = progen.Scope(types)
    parts = [g.expr(sc, rng.choice(["int", "any", "ilist"]), rng.randint(1, 2))]
    for f in g.fns:
        if rng.random() < 0.75:
            c = g.callform(sc, f, 1)
            if c is not None:
                parts.append(c)
    body = parts[0] if len(parts) == 1 else progen.L(progen.S("list"), *parts)
    forms = [progen.S("mod"), pat, progen.L(progen.S("include"), progen.S(progen.SIGILS[d]))] + helpers + [body]
    tree = ("list", forms, None)
    return {"tree": tree, "pattern": pat, "argv": argv, "types": types, "features": sorted(g.used_features), "dialect": d,
            "nfns": len(g.fns), "shape": shape, "text": progen.text(tree), "rich": progen.rich(tree),
            "fns": [{"name": f["name"], "inline": f["inline"], "shape": f["shape"], "pattern": f["pattern"]} for f in g.fns]}


def core2_tie(chk, rng, n):
    """`Core2.compileCore2Syms` with H = sha256 (modeld core2syms) must equal, on the modelled key families,
    the table the real compiler returns (cvh coresyms) for programs of the core2 language (core + defun-inline +
    let / let*, generator strata CORE2_INLINES / CORE2_DENSE) — in particular NO entry for inline functions and
    for the `letbinding_$_N` helpers of hoisted lets — and the extraction chain must agree for every function key;
    the names of the model's `Core2.emitted` must be exactly the values under the 64-hex keys unless two emitted
    functions have the same code hash."""
    for d in ("cl21", "strict21"):
        progs = [program2_of_text(t.replace("{S}", progen.SIGILS[d]), d) for t in FIXED_CORE2]
        nfixed = len(progs)
        progs += compilers.gen_programs(rng, d, n, nargs=1, features=compilers.CORE2_INLINES)
        progs += compilers.gen_programs(rng, d, n, nargs=1, features=compilers.CORE2_DENSE)
        progs += compilers.gen_programs(rng, d, n // 2, nargs=1, features=compilers.CORE2_FEATURES)
        progs += [gen_core2_many(rng, d, rng.randint(2, 6)) for _ in range(n)]
        mo = lib.run_model("core2syms", [p["rich"] for p in progs], per_job=20)
        # call-by-name expansion can blow the emitted code up: only programs below a size bound go to the real compiler
        sel = [i for i, a in enumerate(mo) if a.startswith("K ") and len(a) <= 3 * compilers.CORE2_MAX_LINE]
        for i, a in enumerate(mo):
            af = a.split()
            chk.count(f"core2syms:{d}:model-{af[0] if af else 'none'}")
            if i < nfixed and (not af or af[0] != "K"):
                chk.fail("correspondence", "corr:core2-symbols-fixed", {"dialect": d, "program": progs[i]["text"]},
                         f"hand-written core2 program is not accepted by the model: {a[:100]}")
        bad = []
        for entry in ("file:000", "text:O0"):
            io = lib.run_impl("coresyms", [entry + " " + progs[i]["text"].encode().hex() for i in sel], per_job=4, timeout=60)
            if entry == "file:000":
                check_calls(chk, rng, d, entry, [progs[i] for i in sel], io)
            for i, b in zip(sel, io):
                p, a = progs[i], mo[i]
                af, bf = a.split(), b.split()
                chk.note_case(("core2syms", entry, p["text"]), True)
                if af[1] != "wf":
                    chk.fail("correspondence", "corr:core2-progWF", {"program": p["text"]},
                             "generated core2 program does not satisfy the theorems' hypothesis Core2.progWF")
                if not bf or bf[0] != "S":
                    chk.count(f"core2syms:{d}:{entry}:impl-{bf[0] if bf else 'none'}")
                    if bf and bf[0] == "E":
                        chk.fail("correspondence", "corr:core2-symbols-impl-rejects", {"dialect": d, "entry": entry, "program": p["text"]}, b[:200])
                    continue
                nkeys = 0 if af[4] == "-" else len(af[4].split(","))
                chk.count(f"core2syms:{d}:{entry}:function-keys={min(nkeys, 8)}")
                ninl = sum(1 for f in p["fns"] if f["inline"])
                nlet = p["text"].count("(let ") + p["text"].count("(let* ")
                chk.count(f"core2syms:{d}:{entry}:inline-functions={min(ninl, 4)}")
                chk.count(f"core2syms:{d}:{entry}:lets={min(nlet, 6)}")
                if af[2:5] == bf[1:]:
                    chk.count(f"core2syms:{d}:{entry}:equal")
                    chk.cov["traces_validated_against_impl"] = chk.cov.get("traces_validated_against_impl", 0) + 1
                else:
                    what = ["program", "table", "calls"]
                    diff = [w for w, x, y in zip(what, af[2:5], bf[1:]) if x != y]
                    chk.count(f"core2syms:{d}:{entry}:DIFFER:{'+'.join(diff)}")
                    chk.fail("correspondence", "corr:core2-symbols:" + "+".join(diff),
                             {"dialect": d, "entry": entry, "program": p["text"]},
                             {w: {"model": x[:600], "impl": y[:600]} for w, x, y in zip(what, af[2:5], bf[1:]) if x != y})
                    bad.append((d, entry, p))
                # implementation-only oracle of the absence clauses: no inline function, no synthesised helper is named
                table = dict(kv.split(":", 1) for kv in bf[2].split(",")) if bf[2] != "-" else {}
                named = {bytes.fromhex(v).decode("latin1") for k, v in table.items() if HEX64.match(k)}
                inl = {f["name"] for f in p["fns"] if f["inline"]}
                user = {f["name"] for f in p["fns"]}
                for nm in sorted(named & inl):
                    chk.fail("oracle", "syms:inline-function-named", {"dialect": d, "entry": entry, "program": p["text"], "function": nm},
                             "the table names an inline function")
                for nm in sorted(named - user):
                    chk.fail("oracle", "syms:unknown-name", {"dialect": d, "entry": entry, "program": p["text"], "name": nm},
                             "the table names a function that is not written in the source (core2 program: let helpers are inline)")
                # model-internal consistency: `Core2.emitted` / `Core2.codeOf` (the theorems' vocabulary) vs the table
                if len(af) > 5:
                    em = [] if af[5] == "-" else [x.split(":") for x in af[5].split(",")]
                    mt = dict(kv.split(":", 1) for kv in af[3].split(","))
                    for nmhex, h in em:
                        if h not in mt:
                            chk.fail("correspondence", "corr:core2-emitted-without-entry", {"program": p["text"]},
                                     f"model: emitted function {bytes.fromhex(nmhex)!r} has no entry under its code hash")
                    hs = [h for _, h in em]
                    if len(set(hs)) == len(hs) and sorted(x for x, _ in em) != sorted(v for k, v in mt.items() if HEX64.match(k)):
                        chk.fail("correspondence", "corr:core2-emitted-names", {"program": p["text"]},
                                 "model: names under the hash keys differ from Core2.emitted although all code hashes differ")
        if mo:
            chk.sample({"core2_program": progs[0]["text"][:400], "model_core2syms": mo[0][-400:]})
        # the property-level oracle on the hand-written programs, a slice of the generated ones and every disagreement
        orac = [progs[i] for i in sel if i < nfixed] + [progs[i] for i in sel if i >= nfixed][:max(20, n // 3)]
        lines = ["file:000 " + p["text"].encode().hex() for p in orac]
        check_entry(chk, rng, d, "file:000", orac, lib.run_impl("syms", lines, timeout=60, per_job=4))
        for entry in ("file:000", "text:O0"):
            again = [p for (d2, e2, p) in bad if d2 == d and e2 == entry and p not in orac]
            if again:
                lines = [entry + " " + p["text"].encode().hex() for p in again]
                check_entry(chk, rng, d, entry, again, lib.run_impl("syms", lines, timeout=60, per_job=4))


def run(chk):
    rng = chk.rng
    quick = chk.tier == "quick"
    lib.std_obligations(chk)
    chk.cov["rule"] = ("[oracle] generated programs with 0..4 functions x modern dialects x {unoptimised compile_file, CLI -O off/on}; "
                       "for every symbol entry whose key is the tree hash of a subtree of the emitted program: the value must be "
                       "a function of the source (or compiler-synthesised), the recorded argument list must be that function's, "
                       "and running the extracted code on (ENV . args) must equal the source-level call (Lang.evalSrc); "
                       "unoptimised builds: every reachable non-inline function has an entry whose code occurs in the program; "
                       "[tie] core-language programs (generator core stratum, 0..8-function programs, programs with a "
                       "duplicated function, hand-written witnesses) x {cl21, strict-cl21} x {compile_file, CLI -O0}: "
                       "model table (H = sha256), emitted program, path_to_function path and rewritten call program "
                       "must equal the real ones on the key families <hash>, <hash>_arguments, <hash>_left_env, "
                       "__chia__main_arguments; "
                       "[tie, core2] the same for core2-language programs (core + defun-inline + let / let*; generator strata "
                       "CORE2_INLINES, CORE2_DENSE, CORE2_FEATURES, 2..6-function programs with inline and non-inline functions and lets, hand-written witnesses) x {cl21, strict-cl21} x "
                       "{compile_file, CLI -O0}: Core2.compileCore2Syms (modeld core2syms) vs cvh coresyms, plus the "
                       "implementation-only check that no inline function and no compiler-generated helper is named")
    ok, out = lib.build_harness()
    if not ok:
        chk.fail("proof", "harness-build", {}, out[-1500:])
        return
    n = 90 if quick else 2000
    import time as _time
    t_start = _time.time()
    for d in progen.MODERN:
        feats = ["functions", "inlines", "lets", "destructure", "captures", "constants", "literals", "qq", "assign"]
        progs = compilers.gen_programs(rng, d, n, nargs=1, features=feats)
        progs = [p for p in progs if p["nfns"] > 0] or progs[:1]
        # a (mod …) used as an expression in the main body (compiled by a nested codegen run): the outer
        # program's entries must survive it
        L, S, I = progen.L, progen.S, progen.I
        for p in list(progs[: max(4, len(progs) // 6)]):
            forms = list(p["tree"][1])
            inner = L(S("mod"), L(S("Z")), L(S("defun"), S("inner_sq"), L(S("Q")), L(S("*"), S("Q"), S("Q"))),
                      L(S("inner_sq"), S("Z")))
            forms[-1] = L(S("c"), L(S("a"), inner, L(S("list"), I(rng.randint(2, 9)))), forms[-1])
            q = dict(p)
            q["tree"] = ("list", forms, None)
            q["text"] = progen.text(q["tree"])
            q["rich"] = progen.rich(q["tree"])
            q["features"] = list(p["features"]) + ["nested-mod-in-main"]
            progs.append(q)
        for entry in ("file:000", "text:O0", "text:O1"):
            lines = [f"{entry} {p['text'].encode().hex()}" for p in progs]
            outs = lib.run_impl("syms", lines, timeout=60, per_job=4)
            check_entry(chk, rng, d, entry, progs, outs)
    import random
    import time
    ph = chk.cov.setdefault("phase_seconds", {})
    ph["oracle"] = round(time.time() - t_start, 1)
    t1 = time.time()
    core_tie(chk, random.Random(chk.seed ^ 0xC13), 80 if quick else 3000)
    ph["core_tie"] = round(time.time() - t1, 1)
    t1 = time.time()
    core2_tie(chk, random.Random(chk.seed ^ 0x2C13), 30 if quick else 2000)
    ph["core2_tie"] = round(time.time() - t1, 1)
    chk.cov["modelled_not_verified"] = [
        "theorems cover the core2 language (mod, non-inline and inline functions, let / let* with shadowing, operators, "
        "lazy if, calls) in non-optimising builds of cl21 / strict-cl21; "
        "assign, lambdas, constants, macros, &rest calls, cl22+ dialects, optimising builds and the classic compiler are "
        "decided by the hash/arguments/run oracle only",
        "core2 programs whose call-by-name expansion exceeds the driver's size budget (`toolarge`) are not tied",
        "symbol-table key `source_file` (the caller's file name) is not modelled",
        "extract_program_and_env / rewrite_in_program are modelled on the CLVM value (Val) of the program; they are tied "
        "on compiled programs only (SExp nilp of a non-empty zero atom is outside the tie)",
    ]
    chk.assumptions.append("truth theorem assumes injectivity of the tree hash (satisfiable: C13.injective_tree_hash_exists)")


def check_entry(chk, rng, d, entry, progs, outs):
    base_lines, src_lines, meta = [], [], []
    for p, o in zip(progs, outs):
        f = o.split()
        chk.note_case((p["text"], entry), True)
        if not f or f[0] != "S":
            chk.count(f"{d}:{entry}:{f[0] if f else 'none'}")
            continue
        chk.count(f"{d}:{entry}:compiled")
        prog = gen.unhex(f[1])
        syms = json.loads(bytes.fromhex(f[2]).decode())
        occ = {}
        hashes = tree_hashes(prog, occ)
        env = split_env(prog)
        user = {fn["name"]: fn for fn in p["fns"]}
        keyed = {k: v for k, v in syms.items() if HEX64.match(k)}
        present = {}
        for k, name in keyed.items():
            if k not in hashes:
                chk.count(f"{d}:{entry}:entry-without-code")
                continue
            chk.count(f"{d}:{entry}:entry-with-code")
            present[name] = k
            if name not in user:
                if "_$_" in name or name.startswith("__chia__") or name == "*main*":
                    chk.count(f"{d}:{entry}:synthetic-entry")
                    continue
                chk.fail("oracle", "syms:unknown-name", {"dialect": d, "entry": entry, "program": p["text"], "key": k},
                         f"entry names {name!r}, which is not a function of the source")
                continue
            fn = user[name]
            want = norm(progen.text(fn["pattern"]))
            got = norm(syms.get(k + "_arguments", ""))
            if want != got:
                chk.fail("oracle", "syms:arguments", {"dialect": d, "entry": entry, "program": p["text"], "function": name},
                         {"recorded": got, "source": want})
            if env is not None and not fn["inline"]:
                args = progen.shape_value(rng, fn["shape"])
                base_lines.append(gen.hexv(hashes[k]) + " " + gen.hexv((env, args)))
                src_lines.append(progen.rich(derived(p, name)) + " " + gen.hexv(args))
                meta.append((p, name, args, f[1]))
        if entry == "file:000":
            missing = [name for name in reachable_defuns(p) if name not in present]
            # the table is keyed by code hash: functions compiled to IDENTICAL code share one key and the
            # last one recorded owns it (finding C13-F1).  Implementation-only classification: the code
            # of named entries occurs more often in the program than there are names for it.
            spare = sum(occ.get(k, 1) - 1 for k in set(present.values()))
            for name in missing:
                sig = "syms:missing-entry:identical-code" if len(missing) <= spare else "syms:missing-entry"
                chk.count(f"{d}:{entry}:{sig}")
                chk.fail("oracle", sig, {"dialect": d, "entry": entry, "program": p["text"], "function": name},
                         "reachable non-inline function has no symbol entry whose code occurs in the program")
    if base_lines:
        io = lib.run_impl("base", base_lines, timeout=120)
        mo = lib.run_model("src", src_lines, timeout=300, per_job=20)
        for (p, name, args, proghex), a, b in zip(meta, mo, io):
            af = a.split()
            chk.count(f"{d}:{entry}:fn-run:{af[1][0] if len(af) > 1 else '?'}/{b.split()[0]}")
            if len(af) == 2 and af[1][0] == "V":
                if b != "ok " + af[1][1:]:
                    sig = compilers.classify("C13", p, entry, af[1], b, proghex)
                    sig = sig.replace("value-mismatch", "function-behaviour")
                    chk.fail("oracle", sig, {"dialect": d, "entry": entry, "program": p["text"], "function": name,
                                             "args": gen.hexv(args)}, {"source_call": af[1], "extracted_code": b})
        chk.sample({"function_run": base_lines[0][:200], "source_call": src_lines[0][:200]})
