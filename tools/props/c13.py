"""C13 — symbol tables describe the emitted program."""
import hashlib
import json
import re

import gen
import lib
import progen
import compilers

LEVEL = "proof"
HEX64 = re.compile(r"^[0-9a-f]{64}$")


def tree_hashes(v):
    """{tree hash hex: subtree} for every subtree of a CLVM value (iterative)."""
    out = {}
    memo = {}
    stack = [(v, False)]
    while stack:
        x, done = stack.pop()
        if isinstance(x, tuple):
            if not done:
                stack.append((x, True))
                stack.append((x[0], False))
                stack.append((x[1], False))
            else:
                h = hashlib.sha256(b"\x02" + memo[id(x[0])] + memo[id(x[1])]).digest()
                memo[id(x)] = h
                out.setdefault(h.hex(), x)
        else:
            h = hashlib.sha256(b"\x01" + x).digest()
            memo[id(x)] = h
            out.setdefault(h.hex(), x)
    return out


def split_env(prog):
    """(a (q . main) (c (q . ENV) 1)) -> ENV"""
    try:
        if prog[0] == b"\x02":
            main, rest = prog[1][0], prog[1][1][0]
            if main[0] == b"\x01" and rest[0] == b"\x04" and rest[1][0][0] == b"\x01" and rest[1][1][0] == b"\x01":
                return rest[1][0][1]
    except Exception:
        pass
    return None


def norm(text):
    return " ".join(text.replace("(", " ( ").replace(")", " ) ").split())


def calls(tree, names, acc):
    if tree[0] == "sym" and tree[1] in names:
        acc.add(tree[1])
    elif tree[0] == "list" and tree[1] and tree[1][0] == ("sym", "assign-inline"):
        # bindings of an assign-inline are substituted at their uses: an unused one vanishes,
        # so only the body is certainly part of the emitted program
        calls(tree[1][-1], names, acc)
    elif tree[0] == "list":
        for x in tree[1]:
            calls(x, names, acc)
        if tree[2] is not None:
            calls(tree[2], names, acc)


def reachable_defuns(p):
    """non-inline functions reachable from the main expression (through any function bodies)."""
    forms = p["tree"][1]
    bodies = {}
    for f in forms:
        if f[0] == "list" and len(f[1]) == 4 and f[1][0][0] == "sym" and f[1][0][1] in ("defun", "defun-inline"):
            bodies[f[1][1][1]] = (f[1][0][1] == "defun-inline", f[1][3])
    names = set(bodies)
    seen, todo = set(), set()
    calls(forms[-1], names, todo)
    while todo:
        n = todo.pop()
        if n in seen:
            continue
        seen.add(n)
        more = set()
        calls(bodies[n][1], names, more)
        todo |= more - seen
    return sorted(n for n in seen if not bodies[n][0])


def derived(p, fname):
    """(mod ARGS <sigil> helpers… (fname &rest ARGS)) — the source-level call of one function."""
    forms = list(p["tree"][1])
    forms[1] = progen.S("ARGS__")
    forms[-1] = progen.L(progen.S(fname), progen.S("&rest"), progen.S("ARGS__"))
    return ("list", forms, None)


def run(chk):
    rng = chk.rng
    quick = chk.tier == "quick"
    lib.std_obligations(chk)
    chk.cov["rule"] = ("generated programs with 0..4 functions x modern dialects x {unoptimised compile_file, CLI -O off/on}; "
                       "for every symbol entry whose key is the tree hash of a subtree of the emitted program: the value must be "
                       "a function of the source (or compiler-synthesised), the recorded argument list must be that function's, "
                       "and running the extracted code on (ENV . args) must equal the source-level call (Lang.evalSrc); "
                       "unoptimised builds: every reachable non-inline function has an entry whose code occurs in the program")
    ok, out = lib.build_harness()
    if not ok:
        chk.fail("proof", "harness-build", {}, out[-1500:])
        return
    n = 90 if quick else 2000
    for d in progen.MODERN:
        feats = ["functions", "inlines", "lets", "destructure", "captures", "constants", "literals", "qq", "assign"]
        progs = compilers.gen_programs(rng, d, n, nargs=1, features=feats)
        progs = [p for p in progs if p["nfns"] > 0] or progs[:1]
        for entry in ("file:000", "text:O0", "text:O1"):
            lines = [f"{entry} {p['text'].encode().hex()}" for p in progs]
            outs = lib.run_impl("syms", lines, timeout=60, per_job=4)
            check_entry(chk, rng, d, entry, progs, outs)


def check_entry(chk, rng, d, entry, progs, outs):
    base_lines, src_lines, meta = [], [], []
    for p, o in zip(progs, outs):
        f = o.split()
        chk.note_case((p["text"], entry), True)
        if not f or f[0] != "S":
            chk.count(f"{d}:{entry}:{f[0] if f else 'none'}")
            continue
        chk.count(f"{d}:{entry}:compiled")
        prog = gen.unhex(f[1])
        syms = json.loads(bytes.fromhex(f[2]).decode())
        hashes = tree_hashes(prog)
        env = split_env(prog)
        user = {fn["name"]: fn for fn in p["fns"]}
        keyed = {k: v for k, v in syms.items() if HEX64.match(k)}
        present = {}
        for k, name in keyed.items():
            if k not in hashes:
                chk.count(f"{d}:{entry}:entry-without-code")
                continue
            chk.count(f"{d}:{entry}:entry-with-code")
            present[name] = k
            if name not in user:
                if "_$_" in name or name.startswith("__chia__") or name == "*main*":
                    chk.count(f"{d}:{entry}:synthetic-entry")
                    continue
                chk.fail("oracle", "syms:unknown-name", {"dialect": d, "entry": entry, "program": p["text"], "key": k},
                         f"entry names {name!r}, which is not a function of the source")
                continue
            fn = user[name]
            want = norm(progen.text(fn["pattern"]))
            got = norm(syms.get(k + "_arguments", ""))
            if want != got:
                chk.fail("oracle", "syms:arguments", {"dialect": d, "entry": entry, "program": p["text"], "function": name},
                         {"recorded": got, "source": want})
            if env is not None and not fn["inline"]:
                args = progen.shape_value(rng, fn["shape"])
                base_lines.append(gen.hexv(hashes[k]) + " " + gen.hexv((env, args)))
                src_lines.append(progen.rich(derived(p, name)) + " " + gen.hexv(args))
                meta.append((p, name, args, f[1]))
        if entry == "file:000":
            for name in reachable_defuns(p):
                if name not in present:
                    chk.fail("oracle", "syms:missing-entry", {"dialect": d, "entry": entry, "program": p["text"], "function": name},
                             "reachable non-inline function has no symbol entry whose code occurs in the program")
    if base_lines:
        io = lib.run_impl("base", base_lines, timeout=120)
        mo = lib.run_model("src", src_lines, timeout=300, per_job=20)
        for (p, name, args, proghex), a, b in zip(meta, mo, io):
            af = a.split()
            chk.count(f"{d}:{entry}:fn-run:{af[1][0] if len(af) > 1 else '?'}/{b.split()[0]}")
            if len(af) == 2 and af[1][0] == "V":
                if b != "ok " + af[1][1:]:
                    sig = compilers.classify("C13", p, entry, af[1], b, proghex)
                    sig = sig.replace("value-mismatch", "function-behaviour")
                    chk.fail("oracle", sig, {"dialect": d, "entry": entry, "program": p["text"], "function": name,
                                             "args": gen.hexv(args)}, {"source_call": af[1], "extracted_code": b})
        chk.sample({"function_run": base_lines[0][:200], "source_call": src_lines[0][:200]})
