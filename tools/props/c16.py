"""C16 — the REPL / partial evaluator only ever returns what the compiled program would."""
import re

import gen
import lib
import progen
import compilers

LEVEL = "proof"
FEATS = ["functions", "inlines", "lets", "assign", "destructure", "captures", "constants", "macros", "literals", "qq", "applydata"]


def split_program(p):
    forms = p["tree"][1]
    helpers = [f for f in forms[2:-1] if not (f[0] == "list" and f[1] and f[1][0] == ("sym", "include"))]
    return forms[1], helpers, forms[-1]


def vanished_variable(body_text, residual):
    """a free variable of the expression that does not occur in the residual at all."""
    import re
    used = set(re.findall(r"\bP[0-9]+\b", body_text))
    left = set(re.findall(r"\bP[0-9]+\b", residual))
    return bool(used - left)


def normalise_residual(residual):
    """print/read matters that are not the evaluator's (C09/C15): the one-byte atoms 0x23 `#`, 0x3b `;`, 0x28 `(`,
    0x29 `)` are printed bare and not taken back by the reader - spell them as the numbers they are (a `(` followed
    by a blank / a `)` preceded by a blank can only be such an atom: lists print without inner blanks); `(q . ())`
    prints as `(q)`, which the compiler's quote form does not take."""
    residual = re.sub(r"(?<=[\s(])#(?=[\s)])", "35", residual)
    residual = re.sub(r"(?<=[\s(]);(?=[\s)])", "59", residual)
    residual = re.sub(r"\((?= )", "40", residual)
    residual = re.sub(r"(?<= )\)", "41", residual)
    residual = re.sub(r"\((q|1)\)", r"(\1 . ())", residual)
    return residual


def spelling_leaks(helpers, body, residual):
    """finding C16-F3 (a free variable is folded as the BYTES OF ITS OWN NAME) when the variable also survives
    elsewhere in the residual, so `vanished_variable` does not see it.  Mechanism-following test: enter the same
    session with every free variable P<n> respelled Q<n>; if the residual, with the names mapped back, is a
    different text, some constant in it was computed from a variable's spelling."""
    lines = [progen.text(h) for h in helpers] + [progen.text(body)]
    if any(re.search(r"\bQ[0-9]+\b", l) for l in lines):
        return False
    ren = lines[:-1] + [re.sub(r"\bP([0-9]+)\b", r"Q\1", lines[-1])]
    out = lib.run_impl("repl", [" ".join(l.encode().hex() for l in ren)], timeout=60)[0].split()
    if len(out) < 2 or out[0] != "R":
        return False
    other = normalise_residual(bytes.fromhex(out[1]).decode("utf8", "replace"))
    return re.sub(r"\bQ([0-9]+)\b", r"P\1", other) != residual


def free_variable_in_if_branch(body):
    """does a branch of some `if` of the main expression mention a free variable (P<n>)?  (C16-F1/F3's mechanism:
    the branches are handed to the compiler, which reads an identifier it does not know as its own quoted name;
    when the condition folds, the branch is RUN with the name's bytes standing for the variable — whether or not
    the variable also occurs elsewhere in the residual.  Lang/Shrink.lean mirrors it: `quoteFree`.)"""
    def mentions(t):
        if t[0] == "sym":
            return re.fullmatch(r"P[0-9]+", t[1]) is not None
        if t[0] == "list":
            return any(mentions(x) for x in t[1]) or (t[2] is not None and mentions(t[2]))
        return False

    def walk(t):
        if t[0] != "list":
            return False
        it = t[1]
        if it and it[0] == ("sym", "if") and any(mentions(x) for x in it[2:]):
            return True
        return any(walk(x) for x in it)
    return walk(body)


def let_bound_in_if(tree):
    """does some `if` mention a name bound by an enclosing let / let* / assign form?  (C16-F2: such a name
    reaches the evaluator's compiled `if` fragment as its renamed identifier; depending on what surrounds it
    the REPL prints the quoted identifier or folds the identifier's BYTES through the enclosing operators)."""
    def syms(t, acc):
        if t[0] == "sym":
            acc.add(t[1])
        elif t[0] == "list":
            for x in t[1]:
                syms(x, acc)
            if t[2] is not None:
                syms(t[2], acc)
        return acc

    def binders(t):
        it = t[1]
        kw = it[0][1] if it and it[0][0] == "sym" else None
        if kw in ("let", "let*") and len(it) == 3 and it[1][0] == "list":
            return syms(("list", [b[1][0] for b in it[1][1] if b[0] == "list" and b[1]], None), set())
        if kw in ("assign", "assign-inline", "assign-lambda") and len(it) >= 2:
            return syms(("list", it[1:-1:2], None), set())
        return set()

    def walk(t, bound):
        if t[0] != "list":
            return False
        it = t[1]
        if it and it[0] == ("sym", "if") and bound & syms(t, set()):
            return True
        b = bound | binders(t)
        return any(walk(x, b) for x in it)
    return walk(tree, set())


def wrap(params, helpers, body_text, sigil="*standard-cl-21*"):
    hs = " ".join(progen.text(h) for h in helpers)
    return f"(mod {progen.text(params)} (include {sigil}) {hs} {body_text})"


def run(chk):
    rng = chk.rng
    quick = chk.tier == "quick"
    lib.std_obligations(chk)
    chk.cov["rule"] = ("REPL sessions: the helper definitions (defun, defun-inline, defconstant, defmacro) of a generated program "
                       "entered one per line, then its main expression — closed (no parameters) or open (parameters left free); "
                       "the printed residual is put back into (mod PARAMS defs residual), compiled by the real compiler and run "
                       "by clvmr next to (mod PARAMS defs original) on 3 argument trees: wherever the original returns a value "
                       "the residual program must return the same; a residual of the form (q . c) must equal the compiled value; "
                       "Lang.evalSrc is the third opinion. distinct = (session, args)")
    ok, out = lib.build_harness()
    if not ok:
        chk.fail("proof", "harness-build", {}, out[-1500:])
        return
    n = 300 if quick else 8000
    sessions, meta = [], []
    for i in range(n):
        closed = i % 2 == 0
        g = progen.ProgGen(rng, "classic", [f for f in FEATS if rng.random() < 0.75], nparams=(0 if closed else None))
        g.classic = False       # allow let/assign/lambda in expressions; constants stay `defconstant`
        g.features |= ({"lets"} if rng.random() < 0.6 else set())
        p = g.program()
        p["text"] = progen.text(p["tree"])
        params, helpers, body = split_program(p)
        if any(h[1][0][1] == "defconst" for h in helpers):
            continue
        lines = [progen.text(h) for h in helpers] + [progen.text(body)]
        sessions.append(" ".join(l.encode().hex() for l in lines))
        args = [p["argv"]() for _ in range(3)]
        meta.append((p, params, helpers, body, args, closed))
    # the CORE stream: tied to the model of the reduction engine, and decided by the same oracle as the rest
    core_cases = gen_core_sessions(rng, 240 if quick else 3000)
    core_shrink_tie(chk, core_cases)
    for c in core_cases:
        p = {"tree": c["tree"], "text": progen.text(c["tree"]), "argv": c["argv"]}
        params, helpers, body = split_program(p)
        sessions.append(" ".join(l.encode().hex() for l in c["lines"]))
        meta.append((p, params, helpers, body, [p["argv"]() for _ in range(3)], c["closed"]))
    outs = lib.run_impl("repl", sessions, timeout=60, per_job=6)
    comp_lines, src_lines, keep = [], [], []
    for (p, params, helpers, body, args, closed), o in zip(meta, outs):
        f = o.split()
        chk.note_case((p["text"], closed), True)
        kind = f[0] if f else "none"
        chk.count(f"repl:{'closed' if closed else 'open'}:{kind.split('@')[0]}")
        if kind in ("panic", "abort") or kind.startswith("abort"):
            chk.fail("oracle", f"repl:{kind}", {"session": [progen.text(h) for h in helpers] + [progen.text(body)]}, o[:200])
            continue
        if kind != "R":
            continue            # the evaluator may stop at its depth limit / reject: no claim
        residual = bytes.fromhex(f[1]).decode("utf8", "replace")
        residual = normalise_residual(residual)
        ah = " ".join(gen.hexv(a) for a in args)
        comp_lines.append("text:O0 " + wrap(params, helpers, progen.text(body)).encode().hex() + " " + ah)
        comp_lines.append("text:O0 " + wrap(params, helpers, residual).encode().hex() + " " + ah)
        src_lines.append(progen.rich(p["tree"]) + " " + ah)
        keep.append((p, params, helpers, body, args, closed, residual))
    io = lib.run_impl("compile", comp_lines, timeout=60, per_job=4)
    mo = lib.run_model("src", src_lines, timeout=300, per_job=20)
    for j, (p, params, helpers, body, args, closed, residual) in enumerate(keep):
        orig, resid = io[2 * j].split(), io[2 * j + 1].split()
        src = mo[j].split()
        if not orig or orig[0] != "C":
            chk.count("original-does-not-compile")
            continue
        if not resid or resid[0] != "C":
            chk.count("residual-does-not-compile")
            bare = re.sub(r'"[^"]*"', "", residual)
            if bare.count("(") != bare.count(")"):
                # the one-byte atoms 0x28 / 0x29 print as bare parentheses; next to a real parenthesis (`(1 . ()` =
                # (q . 40)) no re-spelling can tell them apart, the text is simply not the tree any more: the
                # printer's matter (C09/C15), no claim about the evaluator from this residual
                chk.count("residual-unreadable:bare-parenthesis-atom(print matter)")
                continue
            # a residual that cannot be compiled is only a violation if the original returns a value
            if any(x[0] == "V" for x in orig[2:]):
                sig = "repl:residual-uncompilable"
                if not closed and re.search(r"(?:\(|\s)(?:1|q) \. [A-Z][0-9]+\)", residual):
                    sig = "repl:free-variable-quoted-in-compiled-fragment"
                elif re.search(r"(?:\(|\s)(?:1|q) \. [A-Za-z0-9_]+_\$_[0-9]+\)", residual):
                    sig = "repl:let-bound-name-quoted"
                chk.fail("oracle", sig,
                         {"session": [progen.text(h) for h in helpers] + [progen.text(body)], "residual": residual[:400]},
                         " ".join(resid)[:200])
            continue
        for k, (x, y) in enumerate(zip(orig[2:], resid[2:])):
            s = src[1 + k] if len(src) > 1 + k else "?"
            chk.count(f"orig-{x[0]}/resid-{y[0]}/src-{s[0]}")
            if x[0] == "V" and x != y:
                sig = "repl:residual-differs"
                if not closed and re.search(r"(?:\(|\s)(?:1|q) \. [A-Z][0-9]+\)", residual):
                    sig = "repl:free-variable-quoted-in-compiled-fragment"
                elif re.search(r"(?:\(|\s)(?:1|q) \. [A-Za-z0-9_]+_\$_[0-9]+\)", residual):
                    sig = "repl:let-bound-name-quoted"
                elif not closed and (vanished_variable(progen.text(body), residual)
                                     or free_variable_in_if_branch(body)
                                     or spelling_leaks(helpers, body, residual)):
                    sig = "repl:free-variable-folded-as-constant"
                elif let_bound_in_if(("list", list(helpers) + [body], None)):
                    sig = "repl:let-bound-name-in-if"
                if compilers.rest_call_of_binding_inline(p["tree"]):
                    sig = "compile:inline-rest-binding-form"
                if y == s and compilers.has_at_literal(("list", list(helpers) + [body], None), False):
                    # the RESIDUAL returns what the source means; the compiled ORIGINAL does not: the sessions are
                    # compiled under cl21, where the integer literal 64 is the byte `@` (the compiler's finding C01-F6)
                    sig = "compile:nonstrict-literal-64-is-env"
                chk.fail("oracle", sig,
                         {"session": [progen.text(h) for h in helpers] + [progen.text(body)], "params": progen.text(params),
                          "args": gen.hexv(args[k]), "args_text": gen.show(args[k]), "closed": closed},
                         {"compiled_original": x, "compiled_residual": y, "residual": residual[:400], "source_meaning": s})
    if keep:
        p, params, helpers, body, args, closed, residual = keep[0]
        chk.sample({"session": [progen.text(h) for h in helpers] + [progen.text(body)], "residual": residual[:300]})
    chk.cov["modelled_not_verified"] = [
        "Shrink.shrink (Lang/Shrink.lean) models shrink_bodyform_visited on the core language and is tied to the real REPL "
        "(counts core-tie:*); the soundness theorems cover variables / constants / operators / `if` with closed branches "
        "(core-tie:agree:covered-by-theorem); function calls outside `if` branches (call-by-name captures) and residuals that "
        "keep an undecided `if` are modelled and tied but NOT proved (core-tie:agree:model-only)",
        "continue_apply / promote_program_to_bodyform (the symbolic CLVM evaluator reached when constant code is applied to a "
        "non-constant environment) is not modelled: the model answers `unsup` (core-tie:engine-not-modelled(decompiler))",
        "the depth limit (200 VisitedMarker frames) is fuel in the model, not numerically tied (core-tie:depth:*)",
        "everything outside the core language (let/assign/lambda/inline/constants/macros): differential oracle only",
    ]


# ----------------------------------------------------------------------------------------------------
# tie of the modelled reduction engine (Lang/Shrink.lean, `modeld shrink`) to the real REPL (`cvh repl clvm`)
# ----------------------------------------------------------------------------------------------------
CORE_FEATURES = ["functions", "destructure", "literals"]


def gen_core_sessions(rng, n):
    """REPL sessions over the CORE language (Lang/Core.lean): 0..3 defuns (plain, recursive, destructuring
    parameters; every 8th session also `@` captures, which the model's fragment excludes), then one expression:
    closed (every parameter replaced by nothing: generated without parameters) or open (the parameters of the
    generated program are free variables of the REPL expression).  Boundary classes of the proofs/model are forced
    in: statically decided `if`s (condition (), 0x00 — a non-empty atom that is numerically zero —, a pair, a
    number), an `if` on a free variable, free variables inside the branches of a decided `if` (findings C16-F1/F3),
    calls with constant / destructured-constant / open arguments, a rest parameter bound to several arguments."""
    out = []
    for i in range(n):
        closed = i % 2 == 0
        feats = list(CORE_FEATURES) + (["captures"] if i % 8 == 7 else [])
        g = progen.ProgGen(rng, "cl21", feats, nparams=(0 if closed else None))
        p = g.program()
        forms = p["tree"][1]
        helpers = [f for f in forms[2:-1] if not (f[0] == "list" and f[1] and f[1][0] == ("sym", "include"))]
        body = forms[-1]
        kind = "plain"
        r = rng.random()
        S, L, I = progen.S, progen.L, progen.I
        names = sorted(p["types"])
        if r < 0.12:
            kind = "if-static"
            cond = rng.choice([progen.NILT, ("hex", b"\x00"), L(S("q"), I(1), I(2)), I(rng.randint(0, 3)),
                               L(S("="), I(2), I(rng.choice([2, 3]))), L(S("l"), L(S("q"), I(1)))])
            other = S(rng.choice(names)) if (names and rng.random() < 0.5) else g.lit("int")
            body = L(S("if"), cond, body, other) if rng.random() < 0.5 else L(S("if"), cond, other, body)
        elif r < 0.20 and names:
            kind = "if-open"
            body = L(S("if"), S(rng.choice(names)), body, g.lit("int"))
        elif r < 0.27:
            kind = "op-around-if"
            body = L(S("c"), L(S("if"), I(rng.randint(0, 1)), body, I(5)), body)
        elif r < 0.33:
            # a rest parameter bound to SEVERAL call arguments (`get_bodyform_from_arginput`: the `c` chain)
            kind = "rest-parameter"
            fn, pa, pb = g.fresh("fn_"), g.fresh("A"), g.fresh("A")
            helpers = helpers + [L(S("defun"), S(fn), L(S(pa), tail=S(pb)), L(S("c"), S(pb), S(pa)))]
            body = L(S(fn), body, I(rng.randint(2, 9)), rng.choice([I(3), L(S("+"), I(1), I(2)), body]))
        elif r < 0.37:
            kind = "failing-operator"
            body = L(S("c"), body, L(S("f"), L(S("+"), I(1), I(rng.randint(0, 3)))))
        tree = ("list", [progen.S("mod"), forms[1], L(S("include"), S("*standard-cl-21*"))] + helpers + [body], None)
        out.append({"lines": [progen.text(h) for h in helpers] + [progen.text(body)], "rich": progen.rich(tree),
                    "closed": closed, "kind": kind, "tree": tree, "argv": p["argv"]})
    return out


def core_shrink_outputs(cases):
    mo = lib.run_model("shrink", [c["rich"] for c in cases], timeout=300, per_job=20)
    io = lib.run_impl("repl", [" ".join(l.encode().hex() for l in c["lines"]) for c in cases], args=("clvm",),
                      timeout=120, per_job=10)
    return list(zip(mo, io))


def classify_core(m, i):
    """(class, detail, in_theorem_fragment) of one session: model line `S frag|notfrag thm|nothm R hex|E|D|U`
    vs implementation line `R texthex clvmhex | E msg | E@k msg | N`."""
    mf, f = m.split(), i.split()
    if not mf or mf[0] != "S":
        return "model:" + (mf[0] if mf else "none"), "", False
    thm = mf[2] == "thm"
    if mf[1] != "frag":
        return "outside-fragment", "", thm
    mk = mf[3]
    if mk == "U":
        return "engine-not-modelled(decompiler)", "", thm
    ik = f[0] if f else "none"
    stack = ik.startswith("E") and "stack limit exceeded" in i
    if mk == "D" or stack:
        return ("depth:both" if (mk == "D" and stack) else "depth:one-side-only"), "", thm
    if ik.startswith("E"):
        return ("agree:error" if mk == "E" else "DISAGREE:impl-error"), i[:200], thm
    if ik == "R":
        if mk != "R":
            return "DISAGREE:model-error", bytes.fromhex(f[1]).decode("utf8", "replace"), thm
        if len(f) > 2 and f[2] == mf[4]:
            return ("agree:constant" if mf[4].startswith("ff71") else "agree:residual"), "", thm
        return "DISAGREE:result", bytes.fromhex(f[1]).decode("utf8", "replace") + " clvm=" + (f[2] if len(f) > 2 else "?"), thm
    return "DISAGREE:" + ik, i[:200], thm


def core_shrink_tie(chk, cases):
    """the modelled engine against the real REPL: identical printed trees (as CLVM bytes) on every session of the
    model's fragment; any disagreement is a correspondence failure (the same sessions also go through the
    differential oracle below, which decides whether the implementation is at fault)."""
    res = core_shrink_outputs(cases)
    nbad = 0
    for c, (m, i) in zip(cases, res):
        cls, detail, thm = classify_core(m, i)
        chk.count("core-tie:" + cls)
        chk.count("core-tie:kind:" + c["kind"] + (":closed" if c["closed"] else ":open"))
        if cls.startswith("agree"):
            chk.count("core-tie:agree:" + ("covered-by-theorem" if thm else "model-only"))
        chk.note_case(("core-tie", tuple(c["lines"])), True)
        if cls.startswith("DISAGREE"):
            nbad += 1
            if nbad <= 5:
                chk.fail("correspondence", "corr:shrink-model-vs-repl:" + cls.split(":", 1)[1], {"session": c["lines"]},
                         {"model": m[:400], "impl": i[:200], "impl_text": detail[:400]})
    if cases:
        c, (m, i) = cases[0], res[0]
        chk.sample({"core_session": c["lines"], "model": m[:200], "impl": i[:200]})
