"""C16 — the REPL / partial evaluator only ever returns what the compiled program would."""
import re

import gen
import lib
import progen
import compilers

LEVEL = "proof"
FEATS = ["functions", "inlines", "lets", "assign", "destructure", "captures", "constants", "macros", "literals", "qq", "applydata"]


def split_program(p):
    forms = p["tree"][1]
    helpers = [f for f in forms[2:-1] if not (f[0] == "list" and f[1] and f[1][0] == ("sym", "include"))]
    return forms[1], helpers, forms[-1]


def vanished_variable(body_text, residual):
    """a free variable of the expression that does not occur in the residual at all."""
    import re
    used = set(re.findall(r"\bP[0-9]+\b", body_text))
    left = set(re.findall(r"\bP[0-9]+\b", residual))
    return bool(used - left)


def spelling_leaks(helpers, body, residual):
    """finding C16-F3 (a free variable is folded as the BYTES OF ITS OWN NAME) when the variable also survives
    elsewhere in the residual, so `vanished_variable` does not see it.  Mechanism-following test: enter the same
    session with every free variable P<n> respelled Q<n>; if the residual, with the names mapped back, is a
    different text, some constant in it was computed from a variable's spelling."""
    lines = [progen.text(h) for h in helpers] + [progen.text(body)]
    if any(re.search(r"\bQ[0-9]+\b", l) for l in lines):
        return False
    ren = lines[:-1] + [re.sub(r"\bP([0-9]+)\b", r"Q\1", lines[-1])]
    out = lib.run_impl("repl", [" ".join(l.encode().hex() for l in ren)], timeout=60)[0].split()
    if len(out) < 2 or out[0] != "R":
        return False
    other = bytes.fromhex(out[1]).decode("utf8", "replace")
    other = re.sub(r"(?<=[\s(])#(?=[\s)])", "35", other)
    return re.sub(r"\bQ([0-9]+)\b", r"P\1", other) != residual


def let_bound_in_if(tree):
    """does some `if` mention a name bound by an enclosing let / let* / assign form?  (C16-F2: such a name
    reaches the evaluator's compiled `if` fragment as its renamed identifier; depending on what surrounds it
    the REPL prints the quoted identifier or folds the identifier's BYTES through the enclosing operators)."""
    def syms(t, acc):
        if t[0] == "sym":
            acc.add(t[1])
        elif t[0] == "list":
            for x in t[1]:
                syms(x, acc)
            if t[2] is not None:
                syms(t[2], acc)
        return acc

    def binders(t):
        it = t[1]
        kw = it[0][1] if it and it[0][0] == "sym" else None
        if kw in ("let", "let*") and len(it) == 3 and it[1][0] == "list":
            return syms(("list", [b[1][0] for b in it[1][1] if b[0] == "list" and b[1]], None), set())
        if kw in ("assign", "assign-inline", "assign-lambda") and len(it) >= 2:
            return syms(("list", it[1:-1:2], None), set())
        return set()

    def walk(t, bound):
        if t[0] != "list":
            return False
        it = t[1]
        if it and it[0] == ("sym", "if") and bound & syms(t, set()):
            return True
        b = bound | binders(t)
        return any(walk(x, b) for x in it)
    return walk(tree, set())


def wrap(params, helpers, body_text, sigil="*standard-cl-21*"):
    hs = " ".join(progen.text(h) for h in helpers)
    return f"(mod {progen.text(params)} (include {sigil}) {hs} {body_text})"


def run(chk):
    rng = chk.rng
    quick = chk.tier == "quick"
    lib.std_obligations(chk)
    chk.cov["rule"] = ("REPL sessions: the helper definitions (defun, defun-inline, defconstant, defmacro) of a generated program "
                       "entered one per line, then its main expression — closed (no parameters) or open (parameters left free); "
                       "the printed residual is put back into (mod PARAMS defs residual), compiled by the real compiler and run "
                       "by clvmr next to (mod PARAMS defs original) on 3 argument trees: wherever the original returns a value "
                       "the residual program must return the same; a residual of the form (q . c) must equal the compiled value; "
                       "Lang.evalSrc is the third opinion. distinct = (session, args)")
    ok, out = lib.build_harness()
    if not ok:
        chk.fail("proof", "harness-build", {}, out[-1500:])
        return
    n = 300 if quick else 8000
    sessions, meta = [], []
    for i in range(n):
        closed = i % 2 == 0
        g = progen.ProgGen(rng, "classic", [f for f in FEATS if rng.random() < 0.75], nparams=(0 if closed else None))
        g.classic = False       # allow let/assign/lambda in expressions; constants stay `defconstant`
        g.features |= ({"lets"} if rng.random() < 0.6 else set())
        p = g.program()
        p["text"] = progen.text(p["tree"])
        params, helpers, body = split_program(p)
        if any(h[1][0][1] == "defconst" for h in helpers):
            continue
        lines = [progen.text(h) for h in helpers] + [progen.text(body)]
        sessions.append(" ".join(l.encode().hex() for l in lines))
        args = [p["argv"]() for _ in range(3)]
        meta.append((p, params, helpers, body, args, closed))
    outs = lib.run_impl("repl", sessions, timeout=60, per_job=6)
    comp_lines, src_lines, keep = [], [], []
    for (p, params, helpers, body, args, closed), o in zip(meta, outs):
        f = o.split()
        chk.note_case((p["text"], closed), True)
        kind = f[0] if f else "none"
        chk.count(f"repl:{'closed' if closed else 'open'}:{kind.split('@')[0]}")
        if kind in ("panic", "abort") or kind.startswith("abort"):
            chk.fail("oracle", f"repl:{kind}", {"session": [progen.text(h) for h in helpers] + [progen.text(body)]}, o[:200])
            continue
        if kind != "R":
            continue            # the evaluator may stop at its depth limit / reject: no claim
        residual = bytes.fromhex(f[1]).decode("utf8", "replace")
        # the one-byte atom 0x23 prints as a lone `#`, which the reader does not take back (a
        # print/read matter, C09/C15, not the evaluator's): spell it as the number it is
        residual = re.sub(r"(?<=[\s(])#(?=[\s)])", "35", residual)
        # likewise `(q . ())` prints as `(q)`, which the compiler's quote form does not take (print/read, not evaluation)
        residual = re.sub(r"\((q|1)\)", r"(\1 . ())", residual)
        ah = " ".join(gen.hexv(a) for a in args)
        comp_lines.append("text:O0 " + wrap(params, helpers, progen.text(body)).encode().hex() + " " + ah)
        comp_lines.append("text:O0 " + wrap(params, helpers, residual).encode().hex() + " " + ah)
        src_lines.append(progen.rich(p["tree"]) + " " + ah)
        keep.append((p, params, helpers, body, args, closed, residual))
    io = lib.run_impl("compile", comp_lines, timeout=60, per_job=4)
    mo = lib.run_model("src", src_lines, timeout=300, per_job=20)
    for j, (p, params, helpers, body, args, closed, residual) in enumerate(keep):
        orig, resid = io[2 * j].split(), io[2 * j + 1].split()
        src = mo[j].split()
        if not orig or orig[0] != "C":
            chk.count("original-does-not-compile")
            continue
        if not resid or resid[0] != "C":
            chk.count("residual-does-not-compile")
            # a residual that cannot be compiled is only a violation if the original returns a value
            if any(x[0] == "V" for x in orig[2:]):
                sig = "repl:residual-uncompilable"
                if not closed and re.search(r"(?:\(|\s)(?:1|q) \. [A-Z][0-9]+\)", residual):
                    sig = "repl:free-variable-quoted-in-compiled-fragment"
                elif re.search(r"(?:\(|\s)(?:1|q) \. [A-Za-z0-9_]+_\$_[0-9]+\)", residual):
                    sig = "repl:let-bound-name-quoted"
                chk.fail("oracle", sig,
                         {"session": [progen.text(h) for h in helpers] + [progen.text(body)], "residual": residual[:400]},
                         " ".join(resid)[:200])
            continue
        for k, (x, y) in enumerate(zip(orig[2:], resid[2:])):
            s = src[1 + k] if len(src) > 1 + k else "?"
            chk.count(f"orig-{x[0]}/resid-{y[0]}/src-{s[0]}")
            if x[0] == "V" and x != y:
                sig = "repl:residual-differs"
                if not closed and re.search(r"(?:\(|\s)(?:1|q) \. [A-Z][0-9]+\)", residual):
                    sig = "repl:free-variable-quoted-in-compiled-fragment"
                elif re.search(r"(?:\(|\s)(?:1|q) \. [A-Za-z0-9_]+_\$_[0-9]+\)", residual):
                    sig = "repl:let-bound-name-quoted"
                elif not closed and (vanished_variable(progen.text(body), residual)
                                     or spelling_leaks(helpers, body, residual)):
                    sig = "repl:free-variable-folded-as-constant"
                elif let_bound_in_if(("list", list(helpers) + [body], None)):
                    sig = "repl:let-bound-name-in-if"
                if compilers.rest_call_of_binding_inline(p["tree"]):
                    sig = "compile:inline-rest-binding-form"
                chk.fail("oracle", sig,
                         {"session": [progen.text(h) for h in helpers] + [progen.text(body)], "params": progen.text(params),
                          "args": gen.hexv(args[k]), "args_text": gen.show(args[k]), "closed": closed},
                         {"compiled_original": x, "compiled_residual": y, "residual": residual[:400], "source_meaning": s})
    if keep:
        p, params, helpers, body, args, closed, residual = keep[0]
        chk.sample({"session": [progen.text(h) for h in helpers] + [progen.text(body)], "residual": residual[:300]})
    chk.cov["modelled_not_verified"] = [
        "shrink_bodyform itself (evaluate.rs) is not modelled in Lean yet: the evaluator is compared against compiled code and the source semantics only",
    ]
