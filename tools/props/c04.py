"""C04 — the classic CLVM-level optimiser preserves the meaning of any CLVM it is given."""
import os
import re

import gen
import lib
from gen import lst, hexv, int_atom

LEVEL = "proof"

Q, A, I, C, F, R = b"\x01", b"\x02", b"\x03", b"\x04", b"\x05", b"\x06"


def q(v):
    return (Q, v)


def full_env(depth, base=0x21):
    """complete binary tree of the given depth with distinct atoms at the leaves."""
    cnt = [base]

    def go(d):
        if d == 0:
            cnt[0] += 1
            return int_atom(cnt[0])
        return (go(d - 1), go(d - 1))
    return go(depth)


def env_for_path(rng, p, extra=2):
    """an environment in which path `p` (unsigned int >= 1) resolves, with some structure below it."""
    bits = []
    while p > 1:
        bits.append(p & 1)
        p >>= 1
    v = gen.rand_tree(rng, extra, small=True)
    for b in reversed(bits):
        other = gen.rand_atom(rng, small=True)
        v = (other, v) if b else (v, other)
    return v


def deep_path_env(p):
    """an environment in which the (long) path p resolves, built without recursion."""
    bits = []
    while p > 1:
        bits.append(p & 1)
        p >>= 1
    v = b"\x2a"
    for b in reversed(bits):
        v = (b"", v) if b else (v, b"")
    return v


def path_after(p, expr_ops):
    """the path reached by applying f / r operators (innermost first) to path p."""
    for o in expr_ops:
        top = 1 << (p.bit_length() - 1)
        p = (p - top) | (top << 1) | (top if o == R else 0)
    return p


def path_atoms(rng, thorough):
    out = [b"", b"\x00", b"\x01", b"\x02", b"\x03", b"\x7f", b"\x80", b"\xff", b"\x00\x80", b"\x00\xff", b"\xff\x80", b"\xff\xff",
           b"\x80\x00", b"\x00\x01", b"\x00\x00\x05", b"\x80\x00\x00\x00", b"\x00\x80\x00\x00\x00", b"\xff\x80\x00\x00\x00"]
    for n in range(1, 10):
        out.append(b"\xff" * n)                       # all ones
        out.append(b"\x80" + b"\x00" * (n - 1))       # only the top bit
        out.append(b"\x7f" + b"\xff" * (n - 1))       # largest positive
        out.append(b"\x00" * (n - 1) + b"\x05")       # zero padded
        out.append(b"\x00" + b"\x80" + b"\x01" * max(0, n - 2))
        for _ in range(40 if thorough else 8):
            b = bytes(rng.randrange(256) for _ in range(n))
            out.append(b)
            out.append(bytes([b[0] | 0x80]) + b[1:])  # top bit set
            out.append(bytes([b[0] & 0x7f]) + b[1:])
            out.append(b"\x00" + b[1:])
            if n >= 2:
                out.append(b"\xff" + bytes([b[1] | 0x80]) + b[2:])   # sign-extended (non-canonical negative)
    seen = set()
    res = []
    for b in out:
        if b not in seen:
            seen.add(b)
            res.append(b)
    return res


def grammar_programs(leaves, depth, ops):
    """all programs of the given nesting depth over: leaf | (f E) | (r E) | (c E E) | (a (q . E) E) | (a E E)"""
    level = list(leaves)
    allp = list(level)
    for _ in range(depth):
        new = []
        for e in allp:
            if "f" in ops:
                new.append(lst([F, e]))
            if "r" in ops:
                new.append(lst([R, e]))
        for e1 in allp:
            for e2 in allp:
                if "c" in ops:
                    new.append(lst([C, e1, e2]))
                if "aq" in ops:
                    new.append(lst([A, q(e1), e2]))
        seen = set(allp)
        for n in new:
            if n not in seen:
                seen.add(n)
                allp.append(n)
    return allp


def extract_patterns():
    """(fn name, pattern text) for every `assemble(allocator, "...")` in optimize.rs"""
    src = open(os.path.join(lib.REPO, "src/classic/clvm_tools/stages/stage_2/optimize.rs")).read()
    out = []
    for m in re.finditer(r"fn\s+(\w+)\s*\(\s*allocator:\s*&mut Allocator\s*\)\s*->\s*NodePtr\s*\{\s*assemble\(allocator,\s*\"([^\"]*)\"\)", src):
        out.append((m.group(1), m.group(2)))
    return out


def classify(mline):
    f = mline.split()
    mirror = f[0] if f else "?"
    strict = f[1] if len(f) > 1 else "?"
    rules = f[2] if len(f) > 2 else "r:?"
    return mirror, strict, rules


def run(chk):
    rng = chk.rng
    quick = chk.tier == "quick"
    lib.std_obligations(chk)
    cases = []   # (stream, program, [envs])

    def add(stream, p, envs):
        cases.append((stream, p, envs))

    if chk.replay_cases is not None:
        rp = chk.replay_cases
        recs = [rp.get("case", {})] + [m.get("case", {}) for m in rp.get("more", [])]
        recs += [m.get("first_case", {}) for m in rp.get("no_longer_checks", [])]
        for rec in recs:
            toks = (rec.get("line") or "").split()
            if len(toks) >= 2 and toks[0] == "o":
                add("replay", gen.unhex(toks[1]), [gen.unhex(h) for h in toks[2:]])
        check_cases(chk, cases, [], quick)
        return
    generate(chk, rng, quick, add)
    check_cases(chk, cases, NLINES, quick)


NLINES = []


def generate(chk, rng, quick, add):

    E4 = full_env(4)
    E2 = full_env(2, 0x50)
    small_envs = [E4, b"", (b"\x07", E2)]

    # 0. corpus: the witnesses of the known findings and of past (mutation) failures, run first
    def deep_l(n, leaf):
        v = leaf
        for _ in range(n):
            v = (v, b"")
        return v
    lst17 = lst([int_atom(i + 1) for i in range(17)])
    for p, envs in [
        (lst([(A, b""), b"", Q]), small_envs),                                                   # ((a) () 1)
        (((C, Q), lst([lst([b"\x10", q(A), q(b"\x03")]), b"\x07"])), small_envs),              # ((c . 1) (+ (q . 2) (q . 3)) 7)
        (lst([A, q(((C, b""), lst([A, b"\x03"]))), b"\x05"]), small_envs),                       # (a (q . ((c) 2 3)) 5)
        (lst([A, q(b""), lst([F, Q])]), small_envs),                                              # (a (q) (f 1))
        (lst([A, q(lst([C, b"", Q])), b"\x05"]), small_envs),                                     # (a (q . (c () 1)) 5)
        (lst([A, q(lst([C, b"\x80", Q])), b"\x05"]), [(b"", (deep_l(7, b"\x09"), b""))]),        # (a (q . (c 0x80 1)) 5)
        (lst([F, b"\xff\xff"]), [lst17]),                                                        # (f 0xffff)
        (lst([F, b"\xff\x80"]), [deep_l(7, lst17)]),
        (lst([F, b"\x80\x00\x00\x00"]), [deep_l(32, b"\x09")]),                                # (f 0x80000000)
        # former finding C04-get-u32-path (get_u32 little-endian, repaired in /repo c2e6c4f): canonical top-bit
        # atoms of 4..9 bytes under f / r and under a chain; a regression is a fresh VIOLATION (no signature listed)
        (lst([R, b"\x80\x00\x00\x00"]), [deep_path_env(path_after(1 << 31, [R]))]),
        (lst([F, b"\xc0\x01\x02\x03"]), [deep_path_env(path_after(0xc0010203, [F]))]),
        (lst([F, lst([R, b"\x80\x00\x00\x00\x00"])]), [deep_path_env(path_after(1 << 39, [R, F]))]),
        (lst([R, b"\x9a\xbc\xde\xf0\x12\x34\x56\x78"]), [deep_path_env(path_after(0x9abcdef012345678, [R]))]),
        (lst([R, lst([C, b"", Q])]), small_envs), (q((b"", b"")), small_envs), (((A, Q), lst([b"", Q])), small_envs),
        (lst([F, b"\x80" + b"\x00" * 8]), [deep_l(72, b"\x09")]), (lst([A, q(A), A]), small_envs),
        (lst([F, Q]), small_envs), (lst([A, q(Q), A]), small_envs),
        # a 4097-byte path atom (217 << 32767) under substitution, in an environment deep enough for it
        (lst([A, q(int_atom(217 << 32767)), A]), [(deep_path_env(217 << 32767), b"")]),
        (lst([A, lst([b"\x17", q(int_atom(217)), q(int_atom(32767))]), b"\x06"]), small_envs),
    ]:
        add("corpus", p, envs)

    # 1. exhaustive: all trees up to N nodes over a reduced alphabet
    alpha = [b"", Q, A, C, F, R, b"\x03"]
    for t in gen.trees_upto(alpha, 9):
        add("exh-trees", t, small_envs)
    if not quick:
        for t in gen.trees([b"", Q, A, C, F], 11):
            add("exh-trees", t, small_envs)
    # 1b. exhaustive over a small expression grammar (reaches the rule patterns, which need > 11 nodes)
    leaves = [b"", Q, A, b"\x03", b"\x05", b"\x80", q(b""), q(Q), q((Q, A))]
    for p in grammar_programs(leaves, 2, ("f", "r", "c", "aq")):
        add("exh-grammar", p, small_envs)
    leaves2 = [Q, A, b"\x03", b"\x00", b"\xff", q((A, b"\x03")), lst([F, A]), ((C, b""), b"")]
    for p in grammar_programs(leaves2, 2 if not quick else 1, ("f", "r", "c", "aq")):
        add("exh-grammar2", p, small_envs)
    if quick:
        # depth 2 over a thinner leaf set
        for p in grammar_programs([Q, b"\x03", b"\x00", b"\xff", lst([F, A])], 2, ("f", "c", "aq")):
            add("exh-grammar2", p, small_envs)

    # 2. random typed / untyped programs
    n_typed = 6000 if quick else 120000
    for _ in range(n_typed):
        p, env = gen.typed_case(rng, rng.randint(2, 5))
        add("typed", p, [env, E4])
    for _ in range(3000 if quick else 60000):
        p = gen.rand_prog(rng, rng.randint(2, 5))
        add("rand-prog", p, [gen.rand_env(rng, 3), E4])
    core = ["i", "c", "f", "r", "l", "=", "+", "not"]
    for _ in range(3000 if quick else 60000):
        p, env = gen.typed_case(rng, rng.randint(2, 6), ops=core)
        add("typed-core", p, [env, E4])

    # 3. path atoms of 1..9 bytes under f / r and nested (incl. minimal top-bit atoms of >= 4 bytes: the class of the
    #    repaired get_u32 finding; streams 3 and 4 are what would catch its regression)
    patoms = path_atoms(rng, not quick)
    nlines = NLINES
    del nlines[:]
    for b in patoms:
        up = int.from_bytes(b, "big")
        envs = [env_for_path(rng, path_after(max(up, 1), [F])), env_for_path(rng, path_after(max(up, 1), [R]))]
        add("path-atom", lst([F, b]), envs)
        add("path-atom", lst([R, b]), envs)
        add("path-atom", lst([F, lst([R, b])]), [env_for_path(rng, path_after(max(up, 1), [R, F]), 1)])
        add("path-atom", lst([C, lst([R, b]), lst([F, b])]), envs)
        # the same atom inside substituted code
        add("path-subst", lst([A, q(lst([C, b, Q])), b"\x05"]), [(b"\x09", (env_for_path(rng, max(up, 1)), b"\x0b")), E4])
        add("path-subst", lst([A, q(b), A]), [(env_for_path(rng, max(up, 1)), b"\x0b")])
        nlines.append(f"n {b.hex()} f")
        nlines.append(f"n {b.hex()} r")

    # 4. f/r chains of length 0..80 applied to paths
    for n in range(0, 81):
        for _ in range(2 if quick else 12):
            base = rng.choice([1, 1, 2, 3, 5, 6, 7, rng.randint(1, 1 << rng.randint(1, 40))])
            ops = [rng.choice([F, R]) for _ in range(n)]
            e = int_atom(base)
            for o in ops:
                e = lst([o, e])
            add("fr-chain", e, [env_for_path(rng, path_after(base, ops))])
        # all-first and all-rest chains (paths 2^n and 2^(n+1)-1: top-bit / all-ones patterns)
        for o in (F, R):
            e = Q
            for _ in range(n):
                e = lst([o, e])
            add("fr-chain", e, [env_for_path(rng, path_after(1, [o] * n))])

    # 5. (a (q . X) ENV) re-rooting with arbitrary ENV
    for _ in range(5000 if quick else 100000):
        outer = gen.rand_env(rng, rng.randint(1, 3))
        tg = gen.TypedGen(rng, outer, ops=["c", "f", "r", "i", "+"])
        r = rng.random()
        if r < 0.3:
            envx = int_atom(rng.choice(tg.paths)[0])
        elif r < 0.4:
            envx = q(gen.rand_env(rng, 2))
        else:
            envx = tg.gen("any", rng.randint(1, 3))
        # inner program: typed against a guess of the inner env (any tree), mostly paths + core ops
        inner_env = gen.rand_env(rng, rng.randint(0, 3))
        ti = gen.TypedGen(rng, inner_env, ops=core)
        x = ti.gen(rng.choice(["any", "int", "pair"]), rng.randint(1, 3))
        if rng.random() < 0.3:
            x = rng.choice([b"", Q, A, b"\x03", b"\x05", b"\x00", b"\x80", lst([C, b"", Q]), lst([C, Q, b"\x80"]), x])
        add("reroot", lst([A, q(x), envx]), [outer, (inner_env, outer), E4])
    # 6. malformed: arbitrary trees, improper lists, pair heads
    for _ in range(3000 if quick else 60000):
        add("wild", gen.rand_tree(rng, 4, small=True), [E4])
    for _ in range(1500 if quick else 30000):
        p, env = gen.typed_case(rng, 3, ops=core)
        # wrap an operator into a pair head, or make a list improper
        r = rng.random()
        if r < 0.5:
            op = rng.choice([C, F, R, b"\x10", A, Q])
            p = ((op, b""), lst([p, rng.choice([A, q(b"\x05"), p])]))
        else:
            p = (rng.choice([C, F, b"\x10"]), (p, rng.choice([b"\x01", b"\x05", (p, b"\x07")])))
        add("malformed", p, [env, E4])
        if rng.random() < 0.3:
            add("malformed", lst([A, q(p), rng.choice([A, b"\x03", b"\x05", lst([C, A, b"\x03"])])]), [(env, env), E4])
    for hd in ((C, b""), (C, Q), (b"\x10", b""), (A, b""), (Q, b"")):
        for x in (A, b"\x03", q(b"\x05"), lst([b"\x10", q(A), q(b"\x03")])):
            for y in (A, b"\x05", q(b"")):
                ph = (hd, lst([x, y]))
                add("malformed", ph, small_envs)
                add("malformed", lst([A, q(ph), b"\x05"]), small_envs)
                add("malformed", lst([A, q(ph), lst([C, A, b"\x03"])]), small_envs)



def count_path_classes(chk, p):
    """distribution of the path-atom classes under f / r (the classes the path theorems split on)."""
    stack, depth = [p], 0
    while stack:
        x = stack.pop()
        if not isinstance(x, tuple):
            continue
        h, t = x
        if h in (F, R) and isinstance(t, tuple) and t[1] == b"" and isinstance(t[0], bytes):
            b = t[0]
            if not b or b[0] < 0x80:
                cls = "nonneg"
            elif len(b) >= 2 and b[0] == 0xff and b[1] >= 0x80:
                cls = "sign-extended"
            else:
                cls = "canonical-topbit-%s" % ("ge4" if len(b) >= 4 else "lt4")
            chk.count("path-atom-class:" + cls)
        stack.append(h)
        stack.append(t)


def check_cases(chk, cases, nlines, quick):
    rng = chk.rng
    lines = []
    for stream, p, envs in cases:
        lines.append("o " + hexv(p) + " " + " ".join(hexv(e) for e in envs))
        chk.count("stream:" + stream)
        count_path_classes(chk, p)
    for l in lines:
        chk.note_case(l.split()[1], nontrivial=True)
    chk.cov["rule"] = ("one case = one CLVM program (with 1..3 environments for the oracle); streams: exhaustive trees <= 9 nodes "
                       "(thorough: + 11 nodes) over {(),q,a,c,f,r,3}; exhaustive 2-level expression grammar over path/quote leaves; "
                       "type-directed and untyped random programs; (f X)/(r X)/substituted X for path atoms of 0..9 bytes "
                       "(all-ones, top-bit, zero-padded, sign-extended, random); f/r chains of length 0..80; (a (q . X) ENV) "
                       "re-rooting; arbitrary trees, improper lists, pair heads. distinct = distinct program hex")

    # patterns: the strings in optimize.rs, assembled by the real assembler, = the model's constants
    pats = extract_patterns()
    plines = [f"p {name} {text}" for name, text in pats]
    if len(pats) != 9:
        chk.fail("correspondence", "corr:opt-patterns", {"found": [p[0] for p in pats]},
                 "expected 9 pattern functions in optimize.rs (the model has 9 pattern constants)")
    lib.correspond(chk, "opt", plines, label="opt-patterns", sig=lambda l, a, b: "corr:opt-patterns")
    # NodePath arithmetic alone
    lib.correspond(chk, "opt", nlines, label="opt-nodepath", sig=lambda l, a, b: "corr:opt-nodepath")

    # the optimiser
    def norm_model(s):
        return s.split()[0] if s.split() else s

    def norm_impl(s):
        f = s.split()
        return f[0] if f else s

    def skip(l, a, b):
        f = a.split()
        m = f[0] if f else ""
        if len(f) > 1 and f[1] == "FLAG:sub-args-long-path" and len(b.split()) < 3:
            return True      # the implementation aborted (stack overflow); reported by the oracle below
        return m in ("unsupported", "fuel", "skipped-long-path")

    mo, io = lib.correspond(chk, "opt", lines, norm_model=norm_model, norm_impl=norm_impl, skip=skip,
                            label="opt", sig=lambda l, a, b: "corr:opt", timeout=900)
    if not mo:
        chk.finish_note = "harness missing"
        return

    # oracle (model-independent verdict; the model's flag only names the signature)
    shown = {}
    disagree = []
    for (stream, p, envs), l, m, o in zip(cases, lines, mo, io):
        mirror, strict, rules = classify(m)
        f = o.split(" ; ")
        head = f[0].split()
        if len(head) != 3:
            # abort (stack overflow), panic, timeout: the optimiser did not accept the program
            chk.count("impl:crash")
            sig = "opt:" + strict[5:] if strict == "FLAG:sub-args-long-path" else "opt:crash"
            chk.fail("oracle", sig, {"sub": "opt", "line": l[:4000], "program": gen.show(p)[:300]},
                     {"impl": o[:200], "model_flag": strict, "stream": stream})
            continue
        a_, b_, c_ = head
        chk.count("impl:" + ("changed" if a_.startswith("ok:") and a_[3:] != l.split()[1] else ("same" if a_.startswith("ok:") else "err")))
        chk.count("model-strict:" + (strict if not strict.startswith("ok") else "clean"))
        if rules.startswith("r:"):
            for i, ch in enumerate(rules[2:]):
                if ch == "1":
                    chk.count("rule-fires:" + RULES[i])
        if a_ != b_ or a_ != c_:
            chk.fail("correspondence", "corr:opt-entrypoints", {"line": l, "program": gen.show(p)},
                     {"optimize_sexp/default-runner": a_[:120], "optimize_sexp/stage2-runner": b_[:120], "run_optimizer": c_[:120]})
        explained = (mirror == a_) or mirror in ("unsupported", "fuel", "skipped-long-path")
        sig_base = "opt:" + strict[5:] if strict.startswith("FLAG:") else "opt:unflagged"
        if not explained:
            sig_base = "opt:unexplained"      # the model does not reproduce the implementation here
            disagree.append((stream, p, envs))
        for env, pair in zip(envs, f[1:]):
            before, after = pair.split()
            chk.count("oracle:evaluations")
            if not before.startswith("ok:"):
                chk.count("oracle:original-fails")
                continue
            chk.count("oracle:original-returns")
            if after == before:
                continue
            kind = "rejects" if after == "-" else ("fails" if after == "fail" else "differs")
            sig = sig_base
            detail = {"original": before, "optimised": a_[:200], "after": after, "kind": kind, "model_flag": strict, "stream": stream}
            chk.count(f"oracle:violation:{sig}")
            if sig not in shown:
                shown[sig] = 0
            shown[sig] += 1
            if shown[sig] <= 3:
                chk.fail("oracle", sig, {"sub": "opt", "line": "o " + hexv(p) + " " + hexv(env), "program": gen.show(p), "env": gen.show(env)}, detail)
    # search around model/implementation disagreements for a failing input (oracle only)
    if disagree:
        widened = []
        for stream, p, envs in disagree[:40]:
            more = [gen.rand_env(rng, 4) for _ in range(20)] + [full_env(5), full_env(6)] + list(envs)
            progs = [p, lst([C, p, Q]), lst([F, lst([C, p, Q])]), lst([A, q(p), Q]), lst([A, q(p), lst([C, A, b"\x03"])])]
            stack = [p]
            while stack and len(progs) < 40:
                x = stack.pop()
                if isinstance(x, tuple):
                    progs.append(x)
                    stack += [x[0], x[1]]
            for pp in progs:
                widened.append((pp, more))
        wl = ["o " + hexv(pp) + " " + " ".join(hexv(e) for e in es) for pp, es in widened]
        wo = lib.run_impl("opt", wl, timeout=600)
        for (pp, es), o in zip(widened, wo):
            f = o.split(" ; ")
            for env, pair in zip(es, f[1:]):
                before, after = pair.split()
                chk.count("oracle:widened-evaluations")
                if before.startswith("ok:") and after != before:
                    chk.fail("oracle", "opt:unexplained", {"sub": "opt", "line": "o " + hexv(pp) + " " + hexv(env),
                                                          "program": gen.show(pp), "env": gen.show(env)},
                             {"original": before, "after": after, "optimised": f[0].split()[0][:200], "found-by": "widened search"})
                    break
    # samples
    for stream in ("exh-grammar", "typed", "path-atom", "fr-chain", "reroot", "malformed"):
        for (s, p, envs), m, o in zip(cases, mo, io):
            if s == stream and o.split()[0].startswith("ok:") and o.split()[0][3:] != hexv(p) and len(gen.show(p)) < 120:
                chk.sample({"stream": s, "program": gen.show(p), "optimised": gen.show(gen.unhex(o.split()[0][3:])), "model": m.split()[0][:80]}, limit=8)
                break
    chk.cov["exhaustive"] = "all trees <= %d nodes over 7 leaves; 2-level grammar" % (9 if quick else 11)
    chk.cov["modelled_not_verified"] = [
        "termination of the optimiser loop (the model is fuel-bounded; theorems are about runs that return)",
        "the memo of optimize_sexp_: theorem memo_transparent is about a tree-keyed memo model; SHA-256 tree-hash collisions and "
        "NodePtr keys surviving into another allocator (CompilerOperators.opt_memo reused) are outside the model",
        "NodePtr identity of NIL: an empty atom created by clvmr new_substr on a heap atom is not the NIL pointer, "
        "so seems_constant treats it as non-constant (conservative; the model folds it)",
        "allocator limits / cost limits of the runner used by constant_optimizer",
        "operators the Lean driver's operator table does not implement (BLS, secp, keccak, modpow, %, coinid): such cases are "
        "checked implementation-vs-consensus only",
    ]
    chk.assumptions.append("OpSem is a parameter of every theorem; rules that mention f/r/c need the operator table to implement "
                           "them as first/rest/cons (hypothesis CoreOps, proved for the driver's Ops.chiaOps)")


RULES = ["cons_optimizer", "constant_optimizer", "cons_q_a_optimizer", "var_change_optimizer_cons_eval",
         "children_optimizer", "path_optimizer", "quote_null_optimizer", "apply_null_optimizer"]
