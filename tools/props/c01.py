"""C01 — compiled modern Chialisp computes what the source means."""
import json

import gen
import lib
import progen
import compilers
import core3gen

LEVEL = "proof"


def run(chk):
    rng = chk.rng
    quick = chk.tier == "quick"
    lib.std_obligations(chk)
    chk.cov["rule"] = ("programs from the scope-tracking generator tools/progen.py, one stratum per dialect sigil x random "
                       "feature subsets {functions, inlines, lets, assign(+hints), destructure, captures, rest, lambda, "
                       "constants, macros, literals, qq, applydata, manyparams}; 3 argument trees fitted to the parameter "
                       "pattern each; compiled by the real compiler (CLI path without and with -O) and run by clvmr; "
                       "the oracle is Lang.evalSrc (Lean) on the same tree: whenever it returns v the compiled program "
                       "must return v. distinct = distinct (program text, args); non-trivial = program has >= 1 helper or "
                       "binding form")
    ok, out = lib.build_harness()
    if not ok:
        chk.fail("proof", "harness-build", {}, out[-1500:])
        return
    compilers.name_lookup_correspondence(chk, rng, 400 if quick else 6000)
    compilers.core_correspondence(chk, rng, 250 if quick else 6000, dialects=("cl21", "strict21"))
    # Layer B2: core + defun-inline (destructuring parameters) + let/let*: model bytes == real compiler bytes
    # (two strata: inline functions only; inline functions + let/let* with shadowing)
    compilers.core2_correspondence(chk, rng, 100 if quick else 1500, dialects=("cl21", "strict21"),
                                   features=compilers.CORE2_INLINES, label="core2-inlines")
    compilers.core2_correspondence(chk, rng, 100 if quick else 1500, dialects=("cl21", "strict21"),
                                   features=compilers.CORE2_DENSE, label="core2-lets")
    # Layer B3: core2 + constants evaluated at compile time (defconstant literal, defconst closed expression
    # over functions, inline functions, lets and other constants in any order): model bytes == real compiler bytes
    core3gen.core3_correspondence(chk, rng, 90 if quick else 2000, dialects=("cl21", "strict21"), label="core3-constants")
    core3gen.defconst_let_probe(chk, rng)
    compilers.quoted_name_probe(chk, rng)
    n = 80 if quick else 3000
    for d in progen.MODERN:
        progs = compilers.gen_programs(rng, d, n, nargs=3)
        compilers.differential(chk, "C01", progs, entries=["text:O0", "text:O1"], label=d)
    chk.cov["modelled_not_verified"] = [
        "outside the byte-tied, kernel-checked compiler models (Layer B `Core.compileCore`: functions; Layer B2 "
        "`Core2.compileCore2`: + inline functions with destructuring parameters + let/let* with shadowing; Layer B3 "
        "`Core3.compileCore3`: + defconstant literals and defconst closed expressions evaluated at compile time; dialects cl21 and "
        "strict-cl21, non-optimising) the compiler pipeline (assign, lambda, &rest calls, macros, cl22+ code "
        "generators, optimisers) is not covered by a theorem; it is compared with the Lean source semantics on generated programs",
        "Layer B3 models the compile-time value of a constant as the consensus evaluator's result on the compiled body; the real "
        "compiler uses its partial evaluator (evaluate.rs): equality of the two is checked on every generated program through the "
        "emitted bytes, not proved; programs whose constants the real evaluator cannot reduce are rejected by the compiler (counted "
        "as impl-rejects-constant-not-reduced), `defconstant` with a non-literal body (quoted unevaluated by the compiler) is not read",
        "user-written defmacro bodies other than qq templates, embed/include files, nested mod: not generated here",
    ]
    chk.assumptions.append("Lang.evalSrc (lean/ChialispModel/Lang/Sem.lean) is the statement of the language's call-by-value meaning")
