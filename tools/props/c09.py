"""C09 — printed values and programs re-read to the identical value in both syntaxes."""
import itertools
import json
import os
import re
import sys
import time

import gen
import lib

LEVEL = "proof"

SIG_BACKSLASH = "text:classic-backslash-in-quoted"
SIG_BAREWORD = "text:cli-bare-symbol-constant"

SPECIAL = b"\"'\\().;# a0x-"
KEYWORDS = [b"q", b"a", b"i", b"c", b"f", b"r", b"l", b"x", b"=", b">s", b"sha256", b"substr", b"strlen",
            b"concat", b"+", b"-", b"*", b"/", b"divmod", b">", b"ash", b"lsh", b"logand", b"logior",
            b"logxor", b"lognot", b"point_add", b"pubkey_for_exp", b"not", b"any", b"all", b"softfork",
            b"coinid", b"g1_subtract", b"g1_multiply", b"g1_negate", b"g2_add", b"g2_subtract", b"g2_multiply",
            b"g2_negate", b"g1_map", b"g2_map", b"bls_pairing_identity", b"bls_verify", b"modpow", b"%",
            b"keccak256", b"secp256k1_verify", b"secp256r1_verify"]
LOOKALIKES = [b"0x12", b"0x", b"0xzz", b"0X12", b"0x123", b"123", b"-5", b"-0", b"007", b"-007", b"1_0", b"+5",
              b"--5", b"-", b"+", b"_5", b"5_", b"1e5", b"0x1g", b"#a", b"##a", b"#q", b"#sha256", b"#", b".",
              b"..", b".5", b"a.b", b";c", b"a;b", b"\"", b"'", b"\\", b"a\\", b"a\\\\", b"\\\\", b"a\\\"b",
              b"a b", b" ab", b"ab ", b"(ab)", b"(a", b"a)", b"a\tb", b"a\nb", b"a\rb", b"a\x0cb", b"a\x7fb",
              b"a\x80b", b"\xc3\xa9\xc3\xa9", b"\xe2\x82\xac", b"abc\\", b"\\abc", b"ab\\c", b"a\\bc\\d", b"\\\\\\",
              b"it's", b"say \"hi\"", b"'q'", b"\"q\"", b"x'y\"z", b"0x0x0", b"00", b"000", b"-00", b"9" * 30, b"-" + b"9" * 30]


def is_bq_atom(b):
    """the defect class: printed as a quoted string (len > 2, all PRINTABLE_CHARS) and contains a backslash."""
    return len(b) > 2 and all(32 <= c <= 126 and c != 34 for c in b) and 0x5c in b


def has_bq(v):
    stack = [v]
    while stack:
        x = stack.pop()
        if isinstance(x, tuple):
            stack.append(x[0])
            stack.append(x[1])
        elif is_bq_atom(x):
            return True
    return False


def subst_bq(v):
    """the same tree with the backslashes of the defect-class atoms replaced by '/'."""
    spine = []
    while isinstance(v, tuple):
        spine.append(subst_bq(v[0]))
        v = v[1]
    r = v.replace(b"\\", b"/") if is_bq_atom(v) else v
    for x in reversed(spine):
        r = (x, r)
    return r


def contexts(a):
    one = b"\x01"
    return [a, (a, (one, b"")), (one, (a, b"")), (one, a), (one, ((a, b""), b"")), ((a, b""), (one, b"")), (a, a)]


def rich_variants(b, rng):
    out = []
    if b == b"":
        out += ["N", "Q22;", "Q27;", "A;"]
    else:
        out += ["Q22" + b.hex() + ";", "Q27" + b.hex() + ";", "Q78" + b.hex() + ";"]
        i = int.from_bytes(b, "big", signed=True)
        if i != 0 and gen.int_atom(i) == b:
            out.append(f"I{i};")
    return out


def rich_of_val(rng, v, atoms=False):
    if isinstance(v, tuple):
        return "C" + rich_of_val(rng, v[0], atoms) + rich_of_val(rng, v[1], atoms)
    c = rich_variants(v, rng)
    if atoms and v:
        c.append("A" + v.hex() + ";")
    return rng.choice(c)


def token_soup(rng, n):
    toks = [b"(", b")", b" ", b".", b" . ", b"\"", b"'", b"\\", b";", b"\n", b"#", b"#(", b"a", b"q", b"sha256", b"12", b"-3",
            b"0x", b"0x1f", b"0xg", b"\"ab\"", b"'c d'", b"\"x\\\"y\"", b"; comment\n", b"\t", b"\r", b"_", b"+", b"-",
            b"\xc2\xa0", b"\xc2\x85", b"\x0b", b"\x0c", b"()", b"(a . b)", b"(1 2 3)", b"((", b"))", b"00", b"1_000"]
    return b"".join(rng.choice(toks) for _ in range(n))


def mutate_text(rng, t):
    if not t:
        return rng.choice([b"(", b")", b"."])
    k = rng.randrange(len(t))
    r = rng.random()
    if r < 0.3:
        return t[:k] + t[k + 1:]
    if r < 0.6:
        return t[:k] + rng.choice([b"(", b")", b".", b" ", b"\"", b"\\", b";", b"#", b"'", b"0", b"x", b"-"]) + t[k:]
    if r < 0.8:
        return t[:k]
    return t[:k] + t[k:k + 1] * 2 + t[k + 1:]


DIALECTS_FIXED = ["*standard-cl-23.1*", "*standard-cl-24*"]
DIALECTS_LEGACY = ["*standard-cl-21*", "*standard-cl-22*", "*standard-cl-23*"]


def literals(rng):
    strs = ['"hello"', '"hello world"', "'single'", "'has \"dq\" inside'", '"it\'s"', "'say \\'x\\''", '"a(b)c"', '"semi;colon"', '"#hash"',
            '"dot . dot"', '"0x12"', '"123"', '"-5"', '"q"', '"sha256"', '""', "''", '"x"', "'x'", '"ab"',
            '"with \\"escaped\\" quotes"', '"back\\\\slash"', '"tab\\tliteral"', '"a\nb"']
    hexes = ["0x00", "0x0000", "0x0001", "0x00ff", "0xff", "0xffff", "0xff00", "0x80", "0x0080", "0x7f", "0x1", "0x123",
             "0xDEADBEEF", "0x" + "ab" * 32, "0x" + "00" * 32, "0x68656c6c6f", "0x615c62", "0x", "0x22", "0x6122"]
    ints = ["0", "1", "-1", "127", "128", "-128", "-129", "255", "256", "32767", "32768", "-32768", "-32769", "007", "-007",
            "00", "-0", "12345678901234567890", "-12345678901234567890", str(2 ** 255), str(-2 ** 255), str(2 ** 64 - 1),
            "0000000000000000000001"]
    pool = strs + hexes + ints
    return pool


def gen_programs(rng, n):
    pool = literals(rng)
    progs = []
    templates = [
        lambda d, a, b, c: f"(mod () (include {d}) {a})",
        lambda d, a, b, c: f"(mod () (include {d}) (q . {a}))",
        lambda d, a, b, c: f"(mod (X) (include {d}) (c {a} X))",
        lambda d, a, b, c: f"(mod (X) (include {d}) (list {a} {b} {c} X))",
        lambda d, a, b, c: f"(mod (X) (include {d}) (q {a} {b} . {c}))",
        lambda d, a, b, c: f"(mod (X) (include {d}) (defconstant K {a}) (c K (c {b} X)))",
        lambda d, a, b, c: f"(mod (X) (include {d}) (defun fn1 (P Q) (c P (c Q {c}))) (fn1 {a} {b}))",
        lambda d, a, b, c: f"(mod (X) (include {d}) (defun-inline fn1 (P) (c P {b})) (fn1 {a}))",
        lambda d, a, b, c: f"(mod (X) (include {d}) (if X {a} {b}))",
        lambda d, a, b, c: f"(mod (X) (include {d}) (concat {a} {b}))",
        lambda d, a, b, c: f"(mod (X) (include {d}) (sha256 {a} X))",
        lambda d, a, b, c: f"(mod (X) (include {d}) (c (q . ({a} . {b})) {c}))",
        lambda d, a, b, c: f"(mod (X) (include {d}) (defun fn1 (P) (if P (c {a} (fn1 (r P))) {b})) (fn1 X))",
    ]
    for i in range(n):
        d = rng.choice(DIALECTS_FIXED if rng.random() < 0.7 else DIALECTS_LEGACY)
        a, b, c = rng.choice(pool), rng.choice(pool), rng.choice(pool)
        t = templates[i % len(templates)]
        progs.append((d, t(d, a, b, c)))
    return progs


def atom_hex(a):
    """consensus serialisation of an atom, fast path."""
    n = len(a)
    if n == 0:
        return "80"
    if n == 1 and a[0] < 0x80:
        return a.hex()
    if n < 0x40:
        return f"{0x80 | n:02x}" + a.hex()
    return gen.hexv(a)


def check_values(chk, items, label, m_too=True):
    """items: [(value, (versions…))].  Runs the classic pair (d-lines, per version) and the modern
    triple (m-lines) through model and implementation, then the property oracle on the implementation."""
    dlines, mlines = [], []
    for it in items:
        v, vers = it[0], it[1]
        h = atom_hex(v) if isinstance(v, bytes) else gen.hexv(v)
        for ver in vers:
            dlines.append((f"d {ver} {h}", v))
        if m_too and (len(it) < 3 or it[2]):
            mlines.append((f"m {h}", v))
    for l, v in dlines:
        chk.note_case(l, nontrivial=v != b"")
    for l, v in mlines:
        chk.note_case(l, nontrivial=v != b"")
    dm, di = lib.correspond(chk, "text", [l for l, _ in dlines], label="text-d")
    mm, mi = lib.correspond(chk, "text", [l for l, _ in mlines], label="text-m") if mlines else ([], [])
    if len(di) != len(dlines) or len(mi) != len(mlines):
        return dlines, di, mlines, mi
    # any model/implementation disagreement: search the neighbourhood of the disagreeing values
    bad = [v for (l, v), a, b in zip(dlines, dm, di) if a != b] + [v for (l, v), a, b in zip(mlines, mm, mi) if a != b]
    if bad:
        widen(chk, bad)

    # ---- oracle: classic pair
    failing = []
    for (l, v), o in zip(dlines, di):
        f = o.split(" ", 1)
        want = "ok " + (atom_hex(v) if isinstance(v, bytes) else gen.hexv(v))
        if o == "panic" or len(f) != 2:
            chk.fail("oracle", "text:panic", {"line": l[:300]}, o[:200])
        elif f[1] != want:
            failing.append((l, v, f))
    chk.count("d:values with a backslash-quoted atom", sum(1 for l, v in dlines if has_bq(v)))
    # attribute failures: a failure is the listed backslash defect only when the value contains an atom
    # of the defect class AND the same tree with those backslashes replaced by '/' round-trips.
    twins = [f"d {l.split()[1]} {gen.hexv(subst_bq(v))}" for l, v, _ in failing if has_bq(v)]
    twin_out = iter(lib.run_impl("text", twins)) if twins else iter([])
    for l, v, f in failing:
        text = bytes.fromhex(f[0]).decode("latin-1")
        if has_bq(v):
            t = next(twin_out).split(" ", 1)
            if len(t) == 2 and t[1] == "ok " + gen.hexv(subst_bq(v)):
                chk.fail("oracle", SIG_BACKSLASH, {"line": l[:300], "text": text[:200]},
                         f"disassembles to {text[:200]!r}, assembles to {f[1][:200]}")
                chk.count("d:known-backslash failures")
                continue
        chk.fail("oracle", "text:classic-roundtrip", {"line": l[:300], "text": text[:200]},
                 f"disassembles to {text[:200]!r}, assembles to {f[1][:200]}")

    # ---- oracle: modern print of converted values
    for (l, v), o in zip(mlines, mi):
        f = parse_triple(o)
        want = atom_hex(v) if isinstance(v, bytes) else gen.hexv(v)
        if f is None:
            chk.fail("oracle", "text:panic" if o == "panic" else "text:modern-error", {"line": l[:300]}, o[:300])
            continue
        text = bytes.fromhex(f[0]).decode("latin-1")[:200]
        if f[5] != want:
            chk.fail("oracle", "text:conv", {"line": l[:300]}, "convert_to(convert_from v) differs")
        if f[1] != "P:ok" or f[2] != want:
            chk.fail("oracle", "text:modern-reread", {"line": l[:300], "text": text}, f"parse_sexp gives {f[1]} {f[2][:200]}")
        if f[3] != "A:ok" or f[4] != want:
            chk.fail("oracle", "text:modern-to-classic", {"line": l[:300], "text": text}, f"assemble gives {f[3]} {f[4][:200]}")
    return dlines, di, mlines, mi


_widened = [False]


def widen(chk, bad_values):
    """model and implementation disagree on these values: run the property oracle (implementation only)
    on a widened neighbourhood — every single-byte substitution of their atoms by the special characters,
    in every list position and operator-set version."""
    if _widened[0]:
        return
    _widened[0] = True
    atoms = []

    def collect(v):
        stack = [v]
        while stack and len(atoms) < 40:
            x = stack.pop()
            if isinstance(x, tuple):
                stack += [x[0], x[1]]
            else:
                atoms.append(x[:12])
    for v in bad_values[:20]:
        collect(v)
    lines, vals = [], []
    for a in atoms:
        for i in range(len(a) + 1):
            for c in SPECIAL + b"\x00\x7f\x80\xff\t\n":
                for b in (a[:i] + bytes([c]) + a[i + 1:], a[:i] + bytes([c]) + a[i:]):
                    for ctx in contexts(b):
                        for ver in (0, 1, 2):
                            lines.append(f"d {ver} {gen.hexv(ctx)}")
                            vals.append(ctx)
                        lines.append(f"m {gen.hexv(ctx)}")
                        vals.append(ctx)
    out = lib.run_impl("text", lines)
    chk.count("widened-search:lines", len(lines))
    for l, v, o in zip(lines, vals, out):
        want = gen.hexv(v)
        if l[0] == "d":
            f = o.split(" ", 1)
            if (len(f) != 2 or f[1] != "ok " + want) and not has_bq(v):
                chk.fail("oracle", "text:classic-roundtrip", {"line": l, "found-by": "widened search"}, o[:300])
        else:
            f = parse_triple(o)
            if f is None or f[1] != "P:ok" or f[2] != want or f[3] != "A:ok" or f[4] != want:
                chk.fail("oracle", "text:modern-reread", {"line": l, "found-by": "widened search"}, o[:300])


def rich_atoms(rs):
    """atoms (bytes) of the bare `A…;` leaves of a rich encoding."""
    out = []
    i, n = 0, len(rs)
    while i < n:
        c = rs[i]
        if c in "NC":
            i += 1
            continue
        j = rs.index(";", i)
        if c == "A" and j > i + 1:
            out.append(bytes.fromhex(rs[i + 1:j]))
        i = j + 1
    return out


def quote_bare_atoms(rs):
    """the same rich value with every non-empty bare atom turned into a double-quoted string."""
    out = []
    i, n = 0, len(rs)
    while i < n:
        c = rs[i]
        if c in "NC":
            out.append(c)
            i += 1
            continue
        j = rs.index(";", i)
        if c == "A" and j > i + 1:
            out.append("Q22" + rs[i + 1:j] + ";")
        else:
            out.append(rs[i:j + 1])
        i = j + 1
    return "".join(out)


def ambiguous_bare_atom(b):
    """a bare symbol that a reader does not take literally: an operator name for the classic assembler,
    a leading `#` for both readers."""
    return b[:1] == b"#" or b in KEYWORDS or (b[:1] == b"#" and b[1:] in KEYWORDS)


def check_rich(chk, rlines):
    """r-lines: printer/reader models vs implementation on rich values; oracle where the theorems apply."""
    for l in rlines:
        chk.note_case(l)
    rm, ri = lib.correspond(chk, "text", rlines, label="text-r")
    for l, o in zip(rlines, ri):
        f = parse_triple(o)
        if has_bare_atom(l.split()[1]):
            chk.count("r:bare-atom (outside the quantifier, correspondence only)")
            if o == "panic":
                chk.fail("oracle", "text:panic", {"line": l[:300]}, o[:300])
            continue
        if f is None:
            chk.fail("oracle", "text:panic" if o == "panic" else "text:modern-error", {"line": l[:300]}, o[:300])
            continue
        text = bytes.fromhex(f[0]).decode("latin-1")[:200]
        if f[1] != "P:ok" or f[2] != f[5]:
            chk.fail("oracle", "text:modern-reread", {"line": l[:300], "text": text}, f"parse_sexp gives {f[1]} {f[2][:200]} want {f[5][:200]}")
        if f[3] != "A:ok" or f[4] != f[5]:
            chk.fail("oracle", "text:modern-to-classic", {"line": l[:300], "text": text}, f"assemble gives {f[3]} {f[4][:200]} want {f[5][:200]}")
    return ri


def check_texts(chk, texts):
    """p/a-lines: both reader models vs implementation on arbitrary text; no panics."""
    plines = ["p " + t.hex() for t in texts]
    alines = []
    for t in texts:
        try:
            t.decode("utf-8")
        except UnicodeDecodeError:
            continue
        alines.append("a " + t.hex())
    for l in plines + alines:
        chk.note_case(l)
    pm, pi = lib.correspond(chk, "text", plines, label="text-p")
    am, ai = lib.correspond(chk, "text", alines, label="text-a")
    for l, o in zip(plines, pi):
        chk.count("p:" + o.split(" ")[0].split(",")[0][:24])
        if o == "panic":
            chk.fail("oracle", "text:panic", {"line": l}, "parse_sexp panicked")
    for l, o in zip(alines, ai):
        chk.count("a:" + o.split(" ")[0][:24])
        if o == "panic":
            chk.fail("oracle", "text:panic", {"line": l}, "assemble panicked")


def check_programs(chk, progs, opts=("0", "1")):
    """c-lines: compile like the command line; the printed text must denote the library bytes."""
    clines = []
    for d, p in progs:
        for opt in opts:
            clines.append((f"c {opt} {p.encode().hex()}", d, p))
    ok, out = lib.build_harness()
    co = lib.run_impl("text", [l for l, _, _ in clines], timeout=900) if ok else []
    follow = []
    for (l, d, p), o in zip(clines, co):
        chk.note_case(l)
        f = o.split(" ")
        if o == "panic":
            chk.fail("oracle", "text:panic", {"program": p}, "compiler panicked")
            continue
        if len(f) != 3:
            chk.count("c:" + o[:20])
            continue
        chk.count("c:compiled " + ("legacy" if any(x in p for x in DIALECTS_LEGACY) else "fixed"))
        follow.append((l, d, p, f))
    r2 = ["r " + f[0] for _, _, _, f in follow]
    r2m, r2i = lib.correspond(chk, "text", r2, label="text-c")
    cfail = []
    for (l, d, p, f), o in zip(follow, r2i):
        g = parse_triple(o)
        text = bytes.fromhex(f[1]).decode("latin-1")
        case = {"program": p, "optimize": l.split()[1], "printed": text[:300]}
        if g is None:
            chk.fail("oracle", "text:panic" if o == "panic" else "text:modern-error", case, o[:300])
            continue
        if g[0] != f[1]:
            chk.fail("oracle", "text:harness-inconsistent", case, "to_string differs between two calls")
        tag = "-legacy" if any(x in p for x in DIALECTS_LEGACY) else ""
        bad = []
        if g[3] != "A:ok" or g[4] != g[5]:
            bad.append(("text:cli-text-vs-bytes" + tag, f"assemble(printed) = {g[3]} {g[4][:200]}, library bytes {g[5][:200]}"))
        if g[1] != "P:ok" or g[2] != g[5]:
            bad.append(("text:cli-text-reparse" + tag, f"parse_sexp(printed) = {g[1]} {g[2][:200]}, library bytes {g[5][:200]}"))
        if f[2] not in ("-", g[5]):
            chk.fail("oracle", "text:cli-vs-library-compile" + tag, case, f"compile_clvm_text gives {f[2][:200]}, command-line result {g[5][:200]}")
        if bad and tag and rich_atoms(f[0]):
            # legacy integer mode keeps constants that went through compile-time evaluation as bare
            # `Atom`s (printed bare or as a decimal): documented as lossy and excluded by the property
            chk.count("c:legacy-mode results with bare atoms that do not re-read (excluded by the property)")
            continue
        if bad:
            cfail.append((case, f[0], bad))
    # attribute: the listed bare-symbol finding only if the result contains an ambiguous bare atom AND the
    # same result with its bare atoms quoted passes both re-read oracles
    amb = [(case, rs, bad) for case, rs, bad in cfail if any(ambiguous_bare_atom(b) for b in rich_atoms(rs))]
    twin_out = lib.run_impl("text", ["r " + quote_bare_atoms(rs) for _, rs, _ in amb]) if amb else []
    cleared = {}
    for (case, rs, bad), o in zip(amb, twin_out):
        g = parse_triple(o)
        cleared[id(bad)] = g is not None and g[1] == "P:ok" and g[3] == "A:ok" and g[2] == g[5] and g[4] == g[5]
    for case, rs, bad in cfail:
        for sig, detail in bad:
            if cleared.get(id(bad)):
                chk.fail("oracle", SIG_BAREWORD, case, detail)
                chk.count("c:known bare-symbol failures")
            else:
                chk.fail("oracle", sig, case, detail)


def replay(chk):
    """--replay: re-run exactly the recorded case(s) through harness, driver and oracle."""
    rc = chk.replay_cases
    cases = [rc.get("case", {})] + [m.get("case", {}) for m in rc.get("more", [])]
    cases += [n.get("first_case", {}) for n in rc.get("no_longer_checks", [])]
    values, richs, texts, progs = [], [], [], []
    for c in cases:
        l = c.get("line")
        if l:
            f = l.split()
            if f[0] == "d" and len(f) == 3:
                values.append((gen.unhex(f[2]), (int(f[1]),), False))
            elif f[0] == "m" and len(f) == 2:
                values.append((gen.unhex(f[1]), (), True))
            elif f[0] == "r":
                richs.append(l)
            elif f[0] in ("p", "a"):
                texts.append(bytes.fromhex(f[1]) if len(f) > 1 else b"")
        if c.get("program"):
            progs.append((DIALECTS_FIXED[0] if "-legacy" not in rc.get("signature", "") else DIALECTS_LEGACY[0],
                          c["program"], c.get("optimize", "0")))
    if values:
        check_values(chk, values, "replay")
    if richs:
        check_rich(chk, richs)
    if texts:
        check_texts(chk, texts)
    for o in sorted(set(o for _, _, o in progs)):
        check_programs(chk, [(d, p) for d, p, o2 in progs if o2 == o], opts=(o,))
    if "more" not in rc or rc.get("case") is not None or rc.get("no_longer_checks"):
        chk.cov["rule"] = "replay of recorded cases"


def run(chk):
    rng = chk.rng
    quick = chk.tier == "quick"
    if hasattr(sys, "set_int_max_str_digits"):
        sys.set_int_max_str_digits(0)
    T0 = time.time()

    def lap(what):
        chk.dist["t:" + what] = round(time.time() - T0, 1)
    lib.std_obligations(chk)
    lap("obligations")
    if chk.replay_cases is not None:
        replay(chk)
        return
    chk.cov["rule"] = (
        "d-lines: classic disassemble->assemble on every atom of length 0..2 (and 0..3 in thorough) alone and in 6 list "
        "positions (head, non-head, dotted tail, nested head, head-of-head, pair) x operator-set versions 0,1,2(,3); strings of length 3..4 "
        "over the special characters; keyword names and number/hex look-alikes; random trees and programs. m-lines: the same "
        "values through convert_from_clvm_rs (fixed mode) -> to_string -> parse_sexp / classic assemble. r-lines: rich "
        "spellings incl. both quote kinds, hex-origin strings and bare atoms. p/a-lines: both readers on token soup and "
        "mutated printed text. c-lines: programs with literal constants compiled like the command line; printed text vs "
        "library bytes. distinct = distinct protocol lines; non-trivial = not the empty atom")

    # ---- corpus of minimised past failures (mutation witnesses, known findings) runs first
    cp = os.path.join(lib.ROOT, "corpus", "C09.jsonl")
    if os.path.exists(cp):
        saved, chk.replay_cases = chk.replay_cases, {"more": [{"case": json.loads(l)} for l in open(cp) if l.strip()]}
        replay(chk)
        chk.replay_cases = saved
        lap("corpus")

    # ---- tables
    lib.correspond(chk, "text", ["k"], label="text-tables", norm_model=norm_tables, norm_impl=norm_tables, jobs=1)
    chk.note_case("k")

    # ---- values
    one = [bytes([x]) for x in range(256)]
    two = [bytes([x, y]) for x in range(256) for y in range(256)]
    items = []

    def add(v, vers=(0, 1, 2), m=True):
        items.append((v, vers, m))

    for a in [b""] + one:
        for c in contexts(a):
            add(c, (0, 1, 2, 3))
    for a in two:
        add(a, (2,))
        add((a, (b"\x01", b"")), (rng.randrange(3),), m=not quick)
        add((b"\x01", a), (rng.randrange(3),), m=not quick)
        if not quick:
            add((b"\x01", (a, b"")), (rng.randrange(3),))
    three = []
    for c in range(256):
        three += [bytes([c, 97, 98]), bytes([97, c, 98]), bytes([97, 98, c]), bytes([c, 92, 98]), bytes([c, c, c]),
                  bytes([48, 120, c]), bytes([c, 48, 49])]
    three += [bytes([rng.randrange(256), rng.randrange(256), rng.randrange(256)]) for _ in range(30000)]
    three += [bytes([rng.randrange(32, 127), rng.randrange(32, 127), rng.randrange(32, 127)]) for _ in range(30000)]
    for a in three:
        add(a, (2,))
    for a in three[:4000 if quick else 60000]:
        for c in contexts(a)[1:4]:
            add(c, (rng.randrange(3),))
    specials = [bytes(t) for n in (3, 4) for t in itertools.product(SPECIAL, repeat=n)]
    if quick:
        specials = [s for s in specials if len(s) == 3] + rng.sample([s for s in specials if len(s) == 4], 6000)
    named = KEYWORDS + LOOKALIKES + list(gen.BOUNDARY_ATOMS)
    for a in specials:
        add(a, (2,))
        add(rng.choice(contexts(a)[1:]), (rng.randrange(3),))
    for a in named:
        for c in contexts(a):
            add(c)
    for _ in range(4000 if quick else 80000):
        add(gen.rand_tree(rng, 4), (rng.randrange(4),))
    for _ in range(2000 if quick else 40000):
        add(gen.rand_prog(rng, 4), (rng.randrange(3),))
    sizes = (33, 64, 600) if quick else (33, 64, 1000, 5000)
    longs = [bytes(rng.randrange(256) for _ in range(n)) for n in sizes]
    longs += [bytes(rng.randrange(32, 127) for _ in range(n)) for n in sizes]
    longs += [b"a" * 2000 + b"\\" + b"b" * 10, b"\\" * 50]
    for a in longs:
        add(a, (2,))
        add((a, (a, b"")), (1,))
    deep = b""
    for _ in range(300):
        deep = (deep, b"\x05")
    add(deep, (2,))
    add(gen.lst([bytes([i % 256]) for i in range(3000)]), (2,))
    lap("gen")
    dlines, di, mlines, mi = check_values(chk, items, "main")
    chk.sample({"line": dlines[700][0], "meaning": "d <operator-set version> <clvm hex>"})
    chk.sample({"line": mlines[-1][0][:120], "meaning": "m <clvm hex>"})
    lap("values")
    if not quick:
        # every atom of length 3, alone, latest operator set + modern triple; in chunks
        for x in range(0, 256, 4):
            chunk = [(bytes([x + dx, y, z]), (2,)) for dx in range(4) for y in range(256) for z in range(256)]
            check_values(chk, chunk, "len3")
        lap("len3-exhaustive")

    # ---- rich spellings (model vs implementation on the printer itself; oracle where the theorem applies)
    rlines = []
    for a in [b""] + one + named + specials[:3000] + longs[:6]:
        for r in rich_variants(a, rng) + (["A" + a.hex() + ";"] if a else []):
            rlines.append("r " + r)
            rlines.append("r CI5;" + r)
            rlines.append("r C" + r + "N")
    for q in range(256):
        rlines.append(f"r Q{q:02x}61{q:02x}62;")
        rlines.append(f"r CNQ{q:02x}{q:02x}{q:02x};")
    rlines += ["r I0;", "r CI1;I0;", "r CI0;I0;", "r CNQ22;", "r CNA;", "r CA;A;", "r CQ22;Q27;"]
    for _ in range(6000 if quick else 100000):
        rlines.append("r " + rich_of_val(rng, gen.rand_tree(rng, 3), atoms=rng.random() < 0.3))
    chk.sample({"line": rlines[40], "meaning": "r <rich value>"})
    ri = check_rich(chk, rlines)

    lap("r")
    # ---- both readers on arbitrary text (malformed stream): correspondence only (+ no panics)
    texts = list(FIXED_TEXTS)
    printed = [bytes.fromhex(o.split(" ")[0]) for o in di[::53] if o != "panic" and o.split(" ")[0]]
    printed += [bytes.fromhex(o.split(" ")[0]) for o in ri[::7] if o != "panic" and o.split(" ")[0]]
    for t in printed:
        if len(t) > 400:
            continue
        texts.append(t)
        texts.append(mutate_text(rng, t))
        texts.append(mutate_text(rng, mutate_text(rng, t)))
    for _ in range(4000 if quick else 60000):
        texts.append(token_soup(rng, rng.randint(1, 12)))
    check_texts(chk, texts)

    lap("pa")
    # ---- compiler outputs: the printed program denotes the library bytes
    progs = gen_programs(rng, 60 if quick else 1200) + gen_bareword_programs(rng, 12 if quick else 120)
    chk.sample({"program": progs[3][1], "meaning": "c-line program (compiled with and without -O)"})
    check_programs(chk, progs)

    lap("c")
    chk.cov["exhaustive"] = {"atoms_len_0_2": True, "atoms_len_3": not quick}
    chk.cov["modelled_not_verified"] = [
        "UTF-8 validity of the assembler input (always a &str in the code) is not modelled; texts are byte lists",
        "bare symbol atoms (a quoted bareword constant in compiler output) are outside the theorems' hypothesis NoBareAtom: correspondence only, plus the listed finding",
        "allocator limits, source locations (C15) and the `#(…)` structured-list reader are modelled but no theorem is stated about them",
        "the compiler itself (c-lines) is not modelled: its outputs are fed to the printer/reader models and to the oracle",
    ]
    chk.assumptions.append("keyword tables are hand-copied in Text/KwTables.lean and compared with the runtime tables on every run (k line)")


FIXED_TEXTS = [b"", b"(", b")", b"()", b"( )", b"(.)", b"(. a)", b"(a .)", b"(a . )", b"(a b . )", b"(a . b c)", b"(a . b . c)",
               b"(a . (b))", b"(a .b)", b"(a. b)", b"#(a b c)", b"#(a b c d e)", b"#()", b"#(a)", b"#(a . b)", b"# (a)",
               b"(#a #q ##a #zz)", b"a b", b"a ; c\nb", b"; only comment", b"\"unterminated", b"\"esc\\", b"'a\\'b'",
               b"(\"a\" . \"b\")", b"(1 . 2 )", b"( 1 . 2)", b"(1 .2)", b"(1 . 2", b"1_0", b"(+5 -5 +-5 -+5 _5 5_ --5)",
               b"0x", b"0xA", b"0XAB", b"0xgg", b"0x1g", b"0xabc", b"(0x 0x1 0xzz)", b"a\xc2\xa0b", b"a\xc2\x85b", b"a\x0bb",
               b"(a\x0cb)", b"((((((a))))))", b"(a (b (c . d) e) . f)", b"(\"\\\\\")", b"(\"a\\nb\")", b"'", b"\"\"", b"(q . (1 2))",
               b"(a)(b)", b"(a))", b"a)", b".", b". a", b"(a;c\n)", b"(a . b;c\n)", b"(a . ;c\nb)", b"(a . \"s\" ;c\n)",
               b"(a . \"s\" x)", b"(a . (b) )", b"\xff", b"(\xff\xfe)", b"-", b"(-)", b"(- 1)", b"00x1", b"-0x1"]


def gen_bareword_programs(rng, n):
    """quoted bareword constants — adjacent to the property's quantifier (not string/hex/number literals)."""
    words = ["foo", "a", "q", "sha256", "x", "c", "+", "##a", "#foo", "bar-baz", "softfork", "hello_world", "i", "all"]
    progs = []
    for i in range(n):
        d = rng.choice(DIALECTS_FIXED)
        w, w2 = rng.choice(words), rng.choice(words)
        t = [f"(mod () (include {d}) (q . {w}))", f"(mod (X) (include {d}) (c (q . {w}) X))",
             f"(mod (X) (include {d}) (list (q . {w}) \"{w2}\" X))", f"(mod (X) (include {d}) (q {w} {w2}))"][i % 4]
        progs.append((d, t))
    return progs


TRIPLE = re.compile(r"^(\S*) P:(ok|err:\S+)(?: (\S+))? A:(ok|err:\S+)(?: (\S+))? (\S+)$")


def parse_triple(o):
    """(text hex, parse status, parse value, assemble status, assemble value, own bytes) or None."""
    m = TRIPLE.match(o)
    if not m:
        return None
    return [m.group(1), "P:" + m.group(2), m.group(3) or "", "A:" + m.group(4), m.group(5) or "", m.group(6)]


def norm_tables(s):
    parts = []
    for p in s.split(" "):
        if ":" not in p:
            parts.append(p)
            continue
        k, v = p.split(":", 1)
        rows = v.split(",")
        if k != "P":
            rows = sorted(set(rows))
        parts.append(k + ":" + ",".join(rows))
    return " ".join(parts)


def has_bare_atom(rs):
    """does the rich encoding contain a non-empty `A…;` atom?"""
    i = 0
    n = len(rs)
    while i < n:
        c = rs[i]
        if c in "NC":
            i += 1
            continue
        j = rs.index(";", i)
        if c == "A" and j > i + 1:
            return True
        i = j + 1
    return False
