"""C02, kernel-checked part: the modern compiler's CLVM-level passes (null_optimization,
remove_double_apply, brief_path_selection and their sequencing in Strategy23 / ExistingStrategy).

  * correspondence: `cvh passes` (the REAL pass functions, reached through the public API) vs
    `modeld passes` (Opt/Passes.lean), output compared byte-for-byte in the rich text encoding,
    on exhaustive small rich trees, an exhaustive expression grammar, random larger trees, and on
    every post_codegen_* call the real compiler makes while compiling generated programs
    (`cvh passes rec`: compile_file's own steps with the optimizer object wrapped in a recorder);
  * oracle (implementation alone): consensus value (clvmr) of the converted input vs the converted
    output on environments, one-directional;
  * the model's ghost flag marks the runs the `_partial` theorems exclude.  On arbitrary trees a
    flagged run whose value changes is a witnessed exclusion (counted); an UNFLAGGED run whose
    value changes contradicts the theorems and fails the check.  On inputs that come from source
    programs (recorded pass calls, build-vs-build) every changed value fails the check, with the
    flag class as signature."""
import collections
import time
from concurrent.futures import ThreadPoolExecutor

import gen
import lib
import passgen as pg
import progen
import compilers
from passgen import N, I, A, Q, C, L

CMDS_ALL = ("n0", "d1", "d0", "s", "b", "p", "f")
CMDS_MAIN = ("n0", "d1", "b", "p")


def full_env(depth, base=0x21):
    cnt = [base]

    def go(d):
        if d == 0:
            cnt[0] += 1
            return gen.int_atom(cnt[0])
        return (go(d - 1), go(d - 1))
    return go(depth)


E4 = full_env(4)
E2 = full_env(2, 0x50)
ENVS = [E4, b"", (b"\x07", E2)]


# ---- corpus: the counter-witnesses of Props/C02.lean and past (mutation) failures, run first ----
def corpus():
    q = lambda x: C(I(1), x)
    out = [
        # collapse_constant_condition, legacy zero
        L(I(3), q(Q(b"\x00")), I(2), I(3)), L(I(3), q(A(b"\x00\x00")), I(2), I(3)), L(I(3), q(I(0)), I(2), I(3)),
        L(I(3), q(N), I(2), I(3)), L(I(3), q(I(1)), I(2), I(3)), L(I(3), N, I(2), I(3)), L(I(3), A(b"\x00"), I(2), I(3)),
        L(I(3), q(N), I(2), I(3), I(5)), L(I(3), q(L(I(1))), I(2), I(3)),
        # null_optimization: root quote, legacy zero, pair head, the mod.rs tests
        L(I(1), L(I(1))), C(I(1), I(0)), L(L(I(4)), L(I(1)), L(I(1))), L(I(2), L(I(1), I(1)), L(I(4), L(I(1)), I(1))),
        L(I(2), L(I(1), L(I(1)), L(I(1)), L(I(1))), L(I(1))), L(I(4), L(A(b"q")), L(I(5), L(I(113)))), L(I(4), C(I(1), Q(b"")), I(1)),
        # remove_double_apply: requoted data, pair head, nested
        L(I(2), C(I(1), C(I(1), L(L(I(3), N, I(2), I(3))))), I(1)), L(L(I(4)), L(I(2), q(I(5)), I(1)), I(7)),
        L(I(2), q(L(I(2), q(L(I(3), q(I(1)), I(2), I(3))), I(1))), I(1)), L(I(2), q(I(5)), I(1), I(9)), L(I(2), q(I(5)), I(1), tail=I(0)),
        L(I(2), L(I(3), q(I(1)), q(L(I(2), q(C(I(1), L(L(I(3), N, I(2), I(3))))), I(1))), q(q(I(5)))), I(1)),
        # brief: the brief.rs test, negative integer, terminators, quoted
        L(I(5), L(I(5), L(I(6), L(I(5), I(11))))), L(I(5), I(-128)), L(I(5), I(-1)), L(I(5), I(0)), L(I(6), I(1)), L(I(5), A(b"\x0b")),
        L(I(4), L(I(5), L(I(6), I(1))), L(I(1), I(5), I(2))), L(I(5), L(I(6), I(255))), L(I(6), L(I(6), L(I(6), I(128)))),
        L(L(I(4)), I(3), L(I(4), I(4), A(b"\x00"), tail=I(0))), L(I(5), I(2), tail=I(0)), L(I(5), I(2), tail=A(b"")),
        L(I(5), L(I(6), L(I(5), I(0x7fffffff)))), L(I(6), L(I(5), L(I(5), I(1 << 70)))),
    ]
    return out


def gen_cases(chk, quick):
    rng = chk.rng
    cases = []   # (stream, rich, cmds)

    for r in corpus():
        cases.append(("corpus", r, CMDS_ALL))
    # exhaustive small trees: every spelling of the numbers the passes look at
    wide = [N, I(0), A(b""), Q(b""), A(b"\x00"), Q(b"\x00"), I(1), A(b"\x01"), Q(b"\x01"), I(2), I(3), I(5), I(6), A(b"q"), I(113), I(-1)]
    for t in pg.trees_upto(wide, 5):
        cases.append(("exh-wide", t, CMDS_MAIN))
    narrow = [N, I(1), I(2), I(3), I(5), A(b"\x00")] if quick else [N, I(1), A(b"\x01"), I(2), I(3), I(5), A(b"q"), I(0), A(b"\x00")]
    for t in pg.trees(narrow, 7):
        cases.append(("exh-7", t, CMDS_MAIN))
    if not quick:
        for t in pg.trees([N, I(1), I(2), I(3), I(5)], 9):
            cases.append(("exh-9", t, CMDS_MAIN))
    # exhaustive expression grammar over the forms the passes match
    gl = [N, I(1), I(2), I(5), Q(b"\x00")] if quick else [N, I(1), I(2), I(5), Q(b"\x00"), I(0), A(b"q")]
    g = pg.grammar(gl, 2)
    if quick and len(g) > 6000:
        g = g[:1500] + rng.sample(g[1500:], 4500)
    for t in g:
        cases.append(("exh-grammar", t, CMDS_MAIN))
    # random larger trees biased to the rewritten shapes and their near misses
    for _ in range(4500 if quick else 150000):
        cases.append(("random", pg.rand_expr(rng, rng.randint(2, 6)), CMDS_ALL))
    # long f / r chains over integer paths of every width
    for n in range(1, 70 if quick else 200):
        base = rng.choice([1, 2, 3, 5, 6, 7, rng.randint(1, 1 << rng.randint(1, 80))])
        e = I(base)
        for _ in range(n):
            e = L(rng.choice(pg.spellings(rng.choice([5, 6]))), e)
        cases.append(("fr-chain", e, ("b", "p")))
    return cases


def run_pass_cases(chk, cases, quick):
    envh = " ".join(gen.hexv(e) for e in ENVS)
    lines, meta = [], []
    for stream, r, cmds in cases:
        e = pg.enc(r)
        chk.note_case(("passes", e), nontrivial=r[0] == "C")
        chk.count("passes:stream:" + stream)
        for cmd in cmds:
            for m in ("0", "1"):
                extra = ""
                if stream == "fr-chain":
                    # an environment deep enough along the composed path
                    extra = " " + gen.hexv(chain_env(r))
                lines.append(f"{cmd} {m} {e} {envh}{extra}")
                meta.append((stream, cmd, m))

    def nm(s):
        return s.split(" | ")[0].strip()

    def ni(s):
        return s.split(" |")[0].strip()

    # model and implementation side by side (same diffing as lib.correspond)
    with ThreadPoolExecutor(max_workers=2) as ex:
        fm = ex.submit(lib.run_model, "passes", lines, timeout=900)
        fi = ex.submit(lib.run_impl, "passes", lines, timeout=900)
        mo, io = fm.result(), fi.result()
    nbad = 0
    for l, a, b in zip(lines, mo, io):
        if nm(a) != ni(b):
            nbad += 1
            if nbad <= 5:
                chk.fail("correspondence", "corr:passes-" + l.split()[0], {"sub": "passes", "line": l}, {"model": a[:300], "impl": b[:300]})
    chk.count("passes:lines", len(lines))
    chk.count("passes:disagreements", nbad)
    chk.cov["traces_validated_against_impl"] = chk.cov.get("traces_validated_against_impl", 0) + len(lines) - nbad
    shown = collections.Counter()
    for l, (stream, cmd, m), a, b in zip(lines, meta, mo, io):
        fl = a.split(" | ")[1].split() if " | " in a else ["F?", "O?"]
        flagged = fl[0] == "F1"
        if fl[1] == "O1":
            chk.fail("correspondence", "passes:fuel-exhausted", {"sub": "passes", "line": l}, a[:200])
        if flagged:
            chk.count(f"passes:flagged:{cmd}:m{m}")
        if " |" not in b:
            chk.fail("oracle", "passes:crash", {"sub": "passes", "line": l}, b[:200])
            continue
        head = b.split(" |")[0].split()
        changed_tree = len(head) == 2 and head[1] != l.split()[2]
        chk.count(f"passes:{cmd}:" + ("rewritten" if changed_tree else "same"))
        if cmd == "d0":
            continue       # list-tail entry: its argument is an operand list, not an expression
        pairs = b.split(" |")[1].split()
        for k in range(0, len(pairs) - 1, 2):
            before, after = pairs[k], pairs[k + 1]
            chk.count("passes:oracle:evaluations")
            if not before.startswith("ok:"):
                continue
            chk.count("passes:oracle:original-returns")
            if after == before:
                continue
            if flagged:
                chk.count(f"passes:excluded-shape-witnessed:{cmd}:m{m}")
                break
            sig = f"passes:unflagged-value-change:{cmd}"
            shown[sig] += 1
            if shown[sig] <= 2:
                chk.fail("oracle", sig, {"sub": "passes", "line": l, "input": pg.show(pg.dec(l.split()[2]))[:300]},
                         {"output": pg.show(pg.dec(head[1]))[:300], "before": before[:120], "after": after[:120], "stream": stream})
            break
    for stream in ("exh-grammar", "random", "fr-chain"):
        for l, (s, cmd, m), b in zip(lines, meta, io):
            if s == stream and cmd == "p" and " |" in b and b.split()[1] != l.split()[2] and len(l.split()[2]) < 160:
                chk.sample({"stream": s, "cmd": cmd, "mode": m, "input": pg.show(pg.dec(l.split()[2])),
                            "output": pg.show(pg.dec(b.split()[1]))}, limit=8)
                break


def chain_env(r):
    """environment for an f/r chain over an integer path: deep enough along the composed path."""
    ops = []
    while r[0] == "C":
        h = r[1]
        k = h[1] if h[0] == "I" else (h[1][0] if h[0] == "A" else h[2][0])
        ops.append(k)
        r = r[2][1]
    p = r[1]
    # path composed: base path first, then the chain from the innermost operator outwards
    bits = []
    while p > 1:
        bits.append(p & 1)
        p >>= 1
    for k in reversed(ops):
        bits.append(1 if k == 6 else 0)
    v = b"\x2a"
    for b in reversed(bits):
        v = (b"", v) if b else (v, b"")
    return v


# ---- programs: what the passes see inside real compilations ---------------------------------------

# (body, class) — class: the REPAIRED defect (fix: commits c770023-3, findings C02-null-root-quote,
# C02-legacy-zero-truthy, C02-double-apply-requoted) the program was built to exercise, many of them through
# an INNER compilation (the `if` macro compiles each wing with `com`, through a fresh optimizer object the
# recorder cannot see).  If the two builds of such a program differ again the class names the regression.
DIRECTED = [
    # quoted constants whose sub-lists look like `(q)`, and constant conditions spelt with zero bytes
    ("(q (1))", "null-root-quote"), ("(q . ((1) 2))", "null-root-quote"), ("(if A (q . ((1) 2)) (q . (3 (1))))", "null-root-quote"),
    ("(c A (q . ((1) (1 . 2))))", None), ("(if A (c B (q . ((1)))) (q . ((q) 7)))", "null-root-quote"),
    ("(i 0x00 A B)", "legacy-zero-truthy"), ("(i 0x0000 A B)", "legacy-zero-truthy"), ("(i (q . 0x00) A B)", "legacy-zero-truthy"), ("(if 0x00 A B)", None), ("(i 0 A B)", None),
    ("(i () A B)", None), ("(i 1 A B)", None), ("(i 0x01 A B)", None),
    ("(c (i 0x00 A B) (i (q . 0x0000) B A))", "legacy-zero-truthy"), ("(i (concat 0x00) A B)", None),
    ("(if 1 (q . ((3 () 2 3))) A)", "double-apply-requoted"), ("(if (= 1 1) (q . ((3 () 2 3))) A)", "double-apply-requoted"),
    ("(if 1 (q . ((2 (1 . 5) 1))) A)", "double-apply-requoted"),
    ("(c A (if (l (q . (1))) (q . ((3 () 2 3))) A))", "double-apply-requoted"), ("(a (q 1 . ((3 () 2 3))) 1)", "double-apply-requoted"),
    ("(if A (q . ((3 () 2 3))) B)", "double-apply-requoted"), ("(if A (q . ((3 0 5 6) 7)) B)", "double-apply-requoted"),
    ("(c (f (r (c A (c B ())))) (r (f (c (c A B) A))))", None), ("(f (r (r (c A (c B (c A ()))))))", None), ("(c (q) (c (q . ()) A))", None),
    ("(defun K (X) (q . ((1) 2))) (c (K A) (K 3))", "null-root-quote"), ("(defconstant K (q . ((1) 2))) (c K A)", "null-root-quote"),
    ("(defun F (X) (if X (c (q . ((1) (3 () 2 3))) (F (r X))) (q . ((1) 2)))) (F A)", "null-root-quote"),
    ("(defun F (X Y) (if X (i 0x00 X Y) (i (q . 0x0000) Y X))) (F A B)", "legacy-zero-truthy"),
    ("(let ((x (+ A 1))) (c x (q . ((1) (q) 7))))", None), ("(assign x (+ A 1) y (q . ((1))) (c x y))", None),
]


def directed_programs():
    out = []
    for d in ("cl23", "cl23.1", "cl24"):
        for body, cls in DIRECTED:
            text = f"(mod (A B) (include {progen.SIGILS[d]}) {body})"
            out.append({"dialect": d, "text": text, "built_for": cls,
                        "args": [gen.lst([gen.int_atom(5), gen.int_atom(6)]), gen.lst([b"", gen.int_atom(9)]),
                                 gen.lst([gen.lst([gen.int_atom(1), gen.int_atom(2)]), gen.int_atom(3)])]})
    return out


def stage_of(line, flags):
    """`S<null><double apply><brief>` of a flagged model line (`n0` runs the null stage only)."""
    t = flags.split()
    if line.split()[0] == "n0" or len(t) < 3 or t[2] == "S-":
        return "S100"
    return t[2]


def flag_class(stages):
    """name of the excluded class (shape the `_partial` theorems exclude) a flagged recorded call met."""
    if stages[1:2] == "1":
        return "null-excluded-shape"
    if stages[2:3] == "1":
        return "double-apply-excluded-shape"
    return "brief-excluded-shape"


def run_recorded(chk, quick):
    rng = chk.rng
    progs = directed_programs()
    n = 15 if quick else 600
    for d in ("cl23", "cl23.1", "cl24"):
        for p in compilers.gen_programs(rng, d, n, nargs=2):
            progs.append({"dialect": d, "text": p["text"], "args": p["args"]})
    lines = []
    for p in progs:
        for bits in ("10", "01"):
            lines.append(f"rec {bits} " + p["text"].encode().hex())
    out = lib.run_impl("passes", lines, timeout=(60 if quick else 600), per_job=8)
    ml, exp, src = [], [], []
    for ln, o in zip(lines, out):
        bits = ln.split()[1]
        f = o.split()
        chk.count("passes:rec:" + (f[0] if f else "none"))
        if not f or f[0] != "R":
            continue
        mode = f[1]
        for item in f[2:]:
            k, i, r = item.split(":")
            chk.count(f"passes:rec:call:{k}:{bits}")
            if bits == "01":
                # ExistingStrategy: post_codegen_function_optimize is the identity without `optimize`;
                # post_codegen_output_optimize is null_optimization(x, false) (frontend_opt, stepping > 22)
                if k == "f":
                    if i != r:
                        chk.fail("correspondence", "corr:passes-existing-function", {"line": ln[:300]}, {"in": i[:200], "out": r[:200]})
                    continue
                k = "n0"
            ml.append(f"{k} {mode} {i} {gen.hexv(E4)} {gen.hexv(ENVS[2])}")
            exp.append(r)
            src.append(bytes.fromhex(ln.split()[2]).decode())
    mo = lib.run_model("passes", ml)
    nbad = 0
    nflag = 0
    probe = []        # calls the oracle looks at: rewritten by the compiler, flagged by the model, or disagreeing
    for l, m, e, s in zip(ml, mo, exp, src):
        chk.note_case(("passes-rec", l.split()[0], l.split()[2]), nontrivial=True)
        mm = m.split(" | ")
        got = mm[0].split()[1] if len(mm[0].split()) > 1 else "?"
        bad = got != e
        if bad:
            nbad += 1
            if nbad <= 5:
                chk.fail("correspondence", "corr:passes-recorded-" + l.split()[0], {"sub": "passes", "line": l[:600], "program": s[:400]},
                         {"model": got[:300], "compiler": e[:300]})
        else:
            chk.cov["traces_validated_against_impl"] = chk.cov.get("traces_validated_against_impl", 0) + 1
        rewritten = l.split()[2] != e
        if rewritten:
            chk.count("passes:rec:rewritten")
        toks = mm[1].split() if len(mm) > 1 else []
        chk.count("passes:rec:codegen-shape:" + (toks[3] if len(toks) > 3 else "?"))
        flagged = len(mm) > 1 and mm[1].startswith("F1")
        if flagged:
            nflag += 1
            chk.count("passes:rec:flag-class:" + flag_class(stage_of(l, mm[1])))
        if rewritten or flagged or bad:
            probe.append((l, e, s, flag_class(stage_of(l, mm[1])) if flagged else None))
    chk.count("passes:rec:calls", len(ml))
    chk.count("passes:rec:disagreements", nbad)
    chk.count("passes:rec:flagged", nflag)
    # the oracle on the calls made inside real compilations: value of the pass input vs value of what the
    # COMPILER made of it (the harness re-runs the pass on the recorded input; it must reproduce the recorded output)
    shown = collections.Counter()
    if probe:
        io = lib.run_impl("passes", [l for l, _, _, _ in probe])
        for (l, e, s, cls), b in zip(probe, io):
            head = b.split(" |")[0].split()
            if len(head) != 2 or head[1] != e:
                chk.fail("correspondence", "corr:passes-recorded-replay", {"sub": "passes", "line": l[:600], "program": s[:400]},
                         {"recorded": e[:300], "replayed": b[:300]})
                continue
            pairs = b.split(" |")[1].split() if " |" in b else []
            for k in range(0, len(pairs) - 1, 2):
                chk.count("passes:rec:oracle:evaluations")
                if pairs[k].startswith("ok:") and pairs[k + 1] != pairs[k]:
                    sig = "passes:recorded-call-value-change:" + (cls or l.split()[0])
                    shown[sig] += 1
                    if shown[sig] <= 2:
                        chk.fail("oracle", sig,
                                 {"sub": "passes", "line": l[:600], "program": s[:400], "pass_input": pg.show(pg.dec(l.split()[2]))[:300]},
                                 {"pass_output": pg.show(pg.dec(head[1]))[:300], "before": pairs[k][:120], "after": pairs[k + 1][:120]})
                    break
    # build-vs-build on the directed programs (the differential part of c02.py covers the generated ones)
    dp = directed_programs()
    res = {}
    for e in ("file:000", "file:100"):
        il = [e + " " + p["text"].encode().hex() + " " + " ".join(gen.hexv(a) for a in p["args"]) for p in dp]
        res[e] = lib.run_impl("compile", il, timeout=60, per_job=4)
    dshown = collections.Counter()
    for i, p in enumerate(dp):
        f, g = res["file:000"][i].split(), res["file:100"][i].split()
        for k in range(len(p["args"])):
            chk.note_case(("passes-directed", p["text"], k), nontrivial=True)
        if not f or not g or f[0] != "C":
            continue
        if g[0] != "C":
            if any(x[0] == "V" for x in f[2:]):
                chk.fail("oracle", f"compile:C02:{p['dialect']}:opt-breaks-compile", {"program": p["text"]}, {"off": res["file:000"][i][:150], "on": res["file:100"][i][:150]})
            continue
        for k, (x, y) in enumerate(zip(f[2:], g[2:])):
            if x[0] == "V" and x != y:
                cls = p["built_for"]
                sig = ("compile:C02:passes-regression:" + cls) if cls else "compile:C02:directed-builds-differ"
                dshown[sig] += 1
                if dshown[sig] > 2:
                    chk.count("passes:directed:more:" + sig)
                    break
                chk.fail("oracle", sig, {"dialect": p["dialect"], "entries": ["file:000", "file:100"], "program": p["text"],
                                         "args": gen.hexv(p["args"][k])}, {"file:000": x, "file:100": y})
                break


def run(chk):
    quick = chk.tier == "quick"
    ok, out = lib.build_harness()
    if not ok:
        chk.fail("proof", "harness-build", {}, out[-1500:])
        return
    if chk.replay_cases is not None:
        rp = chk.replay_cases
        recs = [rp.get("case", {})] + [m.get("case", {}) for m in rp.get("more", [])]
        recs += [m.get("first_case", {}) for m in rp.get("no_longer_checks", [])]
        cases = []
        for rec in recs:
            toks = (rec.get("line") or "").split()
            if rec.get("sub") == "passes" and len(toks) >= 3:
                cases.append(("replay", pg.dec(toks[2]), (toks[0],)))
        if cases:
            run_pass_cases(chk, cases, quick)
        return
    t0 = time.time()
    cases = gen_cases(chk, quick)
    t1 = time.time()
    run_pass_cases(chk, cases, quick)
    t2 = time.time()
    run_recorded(chk, quick)
    chk.cov["passes_wall_s"] = {"generate": round(t1 - t0, 1), "trees": round(t2 - t1, 1), "recorded+directed": round(time.time() - t2, 1)}
    chk.cov["rule"] += (" || passes: one case = one rich tree x pass entry point x integer mode (corpus of the Lean counter-witnesses; "
                        "exhaustive trees <= 5 nodes over 16 leaf spellings, 7 nodes over 6; exhaustive 2-level grammar over q/a/i/c/f/r forms; "
                        "random expressions biased to the rewritten shapes and near misses; f/r chains of length 1..70 over paths of up to 80 bits), "
                        "plus every post_codegen_* call recorded inside real compilations of generated and directed programs (cl23, cl23.1, cl24)")
    chk.cov["modelled_not_verified"] = chk.cov.get("modelled_not_verified", []) + [
        "passes: the Rust `while` loop is modelled with fuel 2*size+2 (proved never to be exhausted: C02.remove_double_apply_terminates); "
        "Rc sharing / source locations are not modelled (locations do not influence any decision of the passes)",
        "passes: the remaining excluded classes (pair in operator position, negative path Integer, (q . Integer 0) under the legacy "
        "conversion) have kernel-checked counter-witnesses and were never met on a recorded pass input "
        "(every recorded input was expression-shaped, counter passes:rec:codegen-shape)",
        "passes: inner compilations (macros, `com`) create their own optimizer object and are not seen by the recorder; their effect is covered build-vs-build",
    ]
    chk.assumptions.append("PassOps (Proofs/PassesLemmas.lean): f/r/c are first/rest/cons, `i` selects by nil-ness, operator 0x71 on no operands "
                           "does not return a non-nil value; proved for the driver's table Ops.chiaOps (C02.pass_ops_chia)")
