"""C03 strata reaching two defects of the unchanged classic compiler that the program generator never produced.

Stratum `reroot` — a nested `(a (mod PARAMS BODY) ARG)` (the classic compiler's only re-rooting source form:
it emits `(a (q . CODE) ARG')`, which the stage-2 optimiser's variable-change step rewrites by substituting
every path of CODE with the matching part of ARG').  `path_from_args` reads the path atom as a SIGNED number:
a parameter whose path has 8k significant bits (depth 7, 15, 23 … below the inner root: the 7th / 15th
parameter of a flat list, or any name that deep in a destructuring pattern) is "negative", is treated like
path 1 and is replaced by the WHOLE argument expression (finding C04-sub-args-neg, here reached from source).
The oracle is `Lang.evalSrc` on the lambda twin (`(mod PARAMS BODY)` without helpers means what
`(lambda PARAMS BODY)` means) and the cl21 build of the same text.

Stratum `inlinecap` — classic `defun-inline` whose parameter list destructures and contains `(@ name pat)`
captures below the top level, the capture name used in the body.  Oracle `Lang.evalSrc`, the cl21 build and
the same program with `defun` instead of `defun-inline`."""
import gen
import lib
import progen

S, L, I = progen.S, progen.L, progen.I

SIG_REROOT = "compile:classic-opt-reroot-signed-path"
SIG_INLINECAP = "compile:classic-inline-nested-capture"


# ---- patterns with known depths ---------------------------------------------------------------

def leaves_with_depth(shape, depth=0, acc=None):
    """(name, depth below the pattern's root, is_capture) of every name of a shape
    ('leaf', name) | ('cap', name, shape) | ('cons', shape_or_None, shape_or_None)."""
    acc = acc if acc is not None else []
    if shape is None:
        return acc
    if shape[0] == "leaf":
        acc.append((shape[1], depth, False))
    elif shape[0] == "cap":
        acc.append((shape[1], depth, True))
        leaves_with_depth(shape[2], depth, acc)
    else:
        leaves_with_depth(shape[1], depth + 1, acc)
        leaves_with_depth(shape[2], depth + 1, acc)
    return acc


def shape_tree(s):
    if s is None:
        return progen.NILT
    if s[0] == "leaf":
        return S(s[1])
    if s[0] == "cap":
        return L(S("@"), S(s[1]), shape_tree(s[2]))
    items = []
    cur = s
    while cur is not None and cur[0] == "cons":
        items.append(shape_tree(cur[1]))
        cur = cur[2]
    return ("list", items, shape_tree(cur) if cur is not None else None)


def shape_value(rng, s, vals):
    """an argument fitting the shape; leaves get distinct small integers (recorded in vals)."""
    if s is None:
        return b""
    if s[0] == "leaf":
        v = gen.int_atom(rng.randint(100, 900) + 1000 * len(vals))
        vals[s[1]] = v
        return v
    if s[0] == "cap":
        v = shape_value(rng, s[2], vals)
        vals[s[1]] = v
        return v
    return (shape_value(rng, s[1], vals), shape_value(rng, s[2], vals))


def flat_shape(names):
    s = None
    for n in reversed(names):
        s = ("cons", ("leaf", n), s)
    return s


def deep_shape(rng, depth, fresh):
    """a pattern with one name exactly `depth` steps below the root (random first/rest steps), every
    sibling position on the way named as well (or nil)."""
    target = fresh()
    s = ("leaf", target)
    for _ in range(depth):
        sib = ("leaf", fresh()) if rng.random() < 0.7 else None
        if rng.random() < 0.5:
            s = ("cons", s, sib)
        else:
            if sib is None:
                sib = ("leaf", fresh())        # `(() . X)` prints as a nil head: fine, but keep heads named
            s = ("cons", sib, s)
    return s, target


def subst_names(t, names, new):
    if t[0] == "sym":
        return S(new) if t[1] in names else t
    if t[0] == "list":
        return ("list", [subst_names(x, names, new) for x in t[1]], subst_names(t[2], names, new) if t[2] is not None else None)
    return t


REROOT_SIZES = [5, 6, 6, 7, 7, 7, 7, 8, 8, 9, 12, 13, 14, 14, 15, 15, 15, 15, 16, 16, 17, 18]
DEEP_DEPTHS = [5, 6, 7, 7, 7, 8, 9, 14, 15, 15, 16]


def gen_reroot(rng, n):
    progs = []
    for k in range(n):
        ctr = [0]

        def fresh():
            ctr[0] += 1
            return f"A{ctr[0]}"
        if k % 3 != 2:
            size = rng.choice(REROOT_SIZES)
            names = [fresh() for _ in range(size)]
            inner = flat_shape(names)
            last, prev = names[-1], names[-2]
            kind = "flat"
        else:
            d = rng.choice(DEEP_DEPTHS)
            inner, last = deep_shape(rng, d, fresh)
            others = [nm for nm, _, _ in leaves_with_depth(inner) if nm != last]
            prev = rng.choice(others) if others else last
            names = [nm for nm, _, _ in leaves_with_depth(inner)]
            kind = "deep"
        depth_of = {nm: dp for nm, dp, _ in leaves_with_depth(inner)}
        first = names[0]
        bk = rng.choice(["plus", "plus", "cons", "cons2", "if", "list", "eq", "nested"])
        if bk == "plus":
            body, used = L(S("+"), S(last), I(rng.randint(1, 9))), [last]
        elif bk == "cons":
            body, used = L(S("c"), S(last), S(prev)), [last, prev]
        elif bk == "cons2":
            body, used = L(S("c"), S(prev), S(last)), [last, prev]
        elif bk == "if":
            body, used = L(S("if"), S(first), S(last), S(prev)), [first, last, prev]
        elif bk == "list":
            body, used = L(S("list"), S(last), S(first)), [last, first]
        elif bk == "eq":
            body, used = L(S("="), S(last), S(last)), [last]
        else:
            body, used = L(S("c"), L(S("+"), S(last), I(1)), S(prev)), [last, prev]
        inner_tree = shape_tree(inner)
        # the argument expression: a parameter of the outer program or a first/rest chain of one
        ak = rng.choice(["param", "param", "param", "rest", "first", "restrest", "quoted-outer"])
        vals = {}
        argvals = [shape_value(rng, inner, vals) for _ in range(3)]
        xs = [gen.int_atom(rng.randint(1, 99)) for _ in range(3)]
        if ak == "param":
            arg, wrap, chain = S("YY"), (lambda v: v), 0
        elif ak == "rest":
            arg, wrap, chain = L(S("r"), S("YY")), (lambda v: (gen.int_atom(5), v)), 1
        elif ak == "first":
            arg, wrap, chain = L(S("f"), S("YY")), (lambda v: (v, gen.int_atom(5))), 1
        elif ak == "restrest":
            arg, wrap, chain = L(S("r"), L(S("r"), S("YY"))), (lambda v: (gen.int_atom(5), (gen.int_atom(6), v))), 2
        else:
            arg, wrap, chain = S("YY"), (lambda v: v), 0
        outer = rng.choice([("XX", "YY"), ("YY", "XX"), ("XX", "YY", "ZZ"), ("WW", "XX", "YY")])
        args = []
        for v, x in zip(argvals, xs):
            args.append(gen.lst([wrap(v) if o == "YY" else x for o in outer]))
        form = rng.choice(["mod", "mod", "mod", "mod-in-call"])
        pat = L(*[S(o) for o in outer])

        def program(head):
            app = L(S("a"), L(S(head), inner_tree, body), arg)
            if form == "mod-in-call":
                app = L(S("c"), S("XX"), app)
            return L(S("mod"), pat, app)
        tree = program("mod")
        twin = program("lambda")
        hit = sorted({depth_of[u] for u in used if depth_of[u] % 8 == 7})
        # what the defect's mechanism predicts: every name 7 (mod 8) steps down stands for the WHOLE argument
        signed = {u for u in used if depth_of[u] % 8 == 7}
        body0, itree0 = body, inner_tree
        body = subst_names(body0, signed, "ALL")
        inner_tree = L(S("@"), S("ALL"), itree0)
        predicted = program("lambda")
        body, inner_tree = body0, itree0
        progs.append({"tree": tree, "text": progen.text(tree), "rich": progen.rich(twin), "dialect": "classic",
                      "rich_defect": progen.rich(predicted),
                      "args": args, "nfns": 1, "features": ["reroot"], "kind": kind, "body": bk, "argkind": ak,
                      "used_depths": sorted({depth_of[u] for u in used}), "signed_depths": hit,
                      "arg_depth": outer.index("YY") + 1 + chain})
    return progs


# ---- inline functions with captures below the top level ---------------------------------------

def gen_inlinecap(rng, n):
    progs = []
    for k in range(n):
        ctr = [0]

        def fresh():
            ctr[0] += 1
            return f"B{ctr[0]}"

        def leafpat():
            if rng.random() < 0.25:
                return ("cons", ("leaf", fresh()), ("leaf", fresh()))      # dotted pair
            return flat_shape([fresh() for _ in range(rng.randint(1, 3))])

        def sub(depth, want_cap, encl):
            """a list-shaped sub pattern; with want_cap one position holds the capture under test.
            returns (shape, capture name, name of the nearest enclosing explicit capture or None)"""
            m = rng.randint(1, 3)
            pos = rng.randrange(m) if want_cap else -1
            items = []
            found = (None, None)
            for i in range(m):
                if i == pos:
                    r = rng.random()
                    if depth < 3 and r < 0.3:
                        inner, cn, en = sub(depth + 1, True, encl)
                        items.append(inner)
                        found = (cn, en)
                    elif depth < 3 and r < 0.5:
                        # a capture inside an explicit capture
                        outer = fresh()
                        inner, cn, en = sub(depth + 1, True, outer)
                        items.append(("cap", outer, inner))
                        found = (cn, en)
                    else:
                        cn = fresh()
                        items.append(("cap", cn, leafpat()))
                        found = (cn, encl)
                else:
                    items.append(("leaf", fresh()))
            tail = ("leaf", fresh()) if rng.random() < 0.2 else None
            s = tail
            for it in reversed(items):
                s = ("cons", it, s)
            return s, found[0], found[1]
        nparams = rng.randint(1, 3)
        cap_at = rng.randrange(nparams)
        params = []
        capname, encl, where = None, None, "nested"
        topcap = None
        for i in range(nparams):
            if i == cap_at:
                r = rng.random()
                if r < 0.15:
                    # control: the capture IS a top-level parameter (handled by another branch of the code)
                    capname = fresh()
                    params.append(("cap", capname, leafpat()))
                    where = "toplevel"
                elif r < 0.3:
                    # the destructured top-level parameter is itself an explicit capture
                    topcap = fresh()
                    s, capname, encl = sub(1, True, topcap)
                    params.append(("cap", topcap, s))
                    where = "under-toplevel-capture"
                else:
                    s, capname, encl = sub(1, True, None)
                    params.append(s)
                    where = "in-capture" if encl else "nested"
            elif rng.random() < 0.3:
                params.append(sub(1, False, None)[0])
            else:
                params.append(("leaf", fresh()))

        def plist(ps):
            sh = None
            for q in reversed(ps):
                sh = ("cons", q, sh)
            return sh
        pshape = plist(params)
        info = leaves_with_depth(pshape)
        plain = [nm for nm, _, c in info if not c]
        other = rng.choice(plain)
        bk = rng.choice(["cap", "cap", "cons", "list", "first"])

        def mkbody(cn):
            if bk == "cap":
                return S(cn)
            if bk == "cons":
                return L(S("c"), S(cn), S(other))
            if bk == "list":
                return L(S("list"), S(other), S(cn))
            return L(S("f"), S(cn))
        mains = [f"P{i + 1}" for i in range(nparams)]
        vals = {}
        args = []
        for _ in range(3):
            vs = [shape_value(rng, q, vals) for q in params]
            args.append(gen.lst(vs))
        call = L(S("pick"), *[S(m) for m in mains])

        def program(kw, ps, body):
            return L(S("mod"), L(*[S(m) for m in mains]), L(S(kw), S("pick"), shape_tree(plist(ps)), body), call)
        tree = program("defun-inline", params, mkbody(capname))
        # what the defect's mechanism predicts: the name stands for what the capture at the top of its parameter
        # stands for — an explicit one, or the hidden capture the compiler wraps a destructured parameter in
        # (captures in between are bound to that same selection and pass it on)
        if where == "toplevel":
            predicted = tree
        elif topcap:
            predicted = program("defun-inline", params, mkbody(topcap))
        else:
            ps2 = list(params)
            ps2[cap_at] = ("cap", "HID", params[cap_at])
            predicted = program("defun-inline", ps2, mkbody("HID"))
        progs.append({"tree": tree, "text": progen.text(tree), "rich": progen.rich(tree), "dialect": "classic",
                      "rich_defect": progen.rich(predicted), "where": where,
                      "args": args, "nfns": 1, "features": ["inlinecap"], "body": bk, "capture": capname,
                      "defun_text": progen.text(program("defun", params, mkbody(capname)))})
    return progs


# ---- running -----------------------------------------------------------------------------------

def with_sigil(text):
    i = text.index(")") + 1       # end of the main parameter list (flat in both strata)
    return text[:i] + " (include *standard-cl-21*)" + text[i:]


def run_stratum(chk, label, progs, classify):
    if not progs:
        return
    argl = [" ".join(gen.hexv(a) for a in p["args"]) for p in progs]
    mo = lib.run_model("src", [p["rich"] + " " + a for p, a in zip(progs, argl)], per_job=20)
    po = lib.run_model("src", [p["rich_defect"] + " " + a for p, a in zip(progs, argl)], per_job=20)
    tmo = 20 if chk.tier == "quick" else 120
    io = lib.run_impl("compile", ["text:O1 " + p["text"].encode().hex() + " " + a for p, a in zip(progs, argl)],
                      timeout=tmo, per_job=8)
    tw = lib.run_impl("compile", ["text:O0 " + with_sigil(p["text"]).encode().hex() + " " + a for p, a in zip(progs, argl)],
                      timeout=tmo, per_job=8)
    dfo = None
    if "defun_text" in progs[0]:
        dfo = lib.run_impl("compile", ["text:O1 " + p["defun_text"].encode().hex() + " " + a for p, a in zip(progs, argl)],
                           timeout=tmo, per_job=8)
    for i, p in enumerate(progs):
        mf, f, g = mo[i].split(), io[i].split(), tw[i].split()
        if not mf or mf[0] != "S":
            chk.fail("correspondence", "src-model-broken", {"program": p["text"]}, mo[i][:200])
            continue
        chk.count(f"{label}:programs")
        pf = po[i].split()
        for key in ("kind", "body", "argkind", "where"):
            if key in p:
                chk.count(f"{label}:{key}:{p[key]}")
        for d in p.get("used_depths", []):
            chk.count(f"{label}:used-depth:{d}")
        if p.get("signed_depths"):
            chk.count(f"{label}:uses-a-depth-7-mod-8-name")
        if not f or f[0] != "C":
            chk.count(f"{label}:classic-{f[0] if f else 'none'}")
            if f and f[0] == "E":
                # every program of these strata is in the language the classic compiler accepts
                chk.fail("oracle", f"compile:C03:{label}:rejected", {"program": p["text"]}, io[i][:200])
            continue
        chk.count(f"{label}:compiled")
        for k, (s, r) in enumerate(zip(mf[1:], f[2:])):
            chk.note_case((p["text"], gen.hexv(p["args"][k]), label))
            chk.count(f"{label}:src-{s[0]}/impl-{r[0]}")
            if s[0] != "V":
                # the strata are built to return values: an undefined source meaning is a generator bug
                chk.fail("correspondence", f"gen:{label}:source-meaning-undefined", {"program": p["text"]}, mo[i][:200])
                continue
            case = {"dialect": "classic", "entry": "text:O1", "program": p["text"], "args": gen.hexv(p["args"][k]),
                    "args_text": gen.show(p["args"][k])}
            if s != r:
                chk.count(f"{label}:classic-differs-from-source")
                pred = pf[1 + k] if len(pf) > 1 + k and pf[0] == "S" else "?"
                # the defect's prediction: the same value, or a failure where the predicted program has no value
                as_predicted = (pred == r) if r[0] == "V" else (pred[0] in ("F", "U"))
                sig = classify(p, as_predicted)
                chk.count(f"{label}:mismatch:{sig}")
                chk.fail("oracle", sig, case,
                         {"source_meaning": s, "compiled_result": r, "predicted_by_mechanism": pred, "emitted": f[1][:300]})
            # second sentence of the property: the cl21 build of the same text
            if g and g[0] == "C" and len(g) > 2 + k:
                y = g[2 + k]
                chk.count(f"{label}:classic-vs-cl21:{r[0]}/{y[0]}")
                if y[0] == "V" and y != s:
                    chk.fail("oracle", f"compile:C03:{label}:cl21-differs-from-source", case, {"source_meaning": s, "cl21": y})
            else:
                chk.count(f"{label}:cl21-{g[0] if g else 'none'}")
            if dfo is not None:
                h = dfo[i].split()
                if h and h[0] == "C" and len(h) > 2 + k:
                    chk.count(f"{label}:defun-twin:{'same' if h[2 + k] == s else 'DIFFERS'}")
                    if h[2 + k] != s:
                        chk.fail("oracle", f"compile:C03:{label}:defun-twin-differs-from-source",
                                 dict(case, program=p["defun_text"]), {"source_meaning": s, "compiled_result": h[2 + k]})
    p = progs[0]
    chk.sample({"stratum": label, "program": p["text"][:400], "args": [gen.show(a) for a in p["args"]][:2],
                "source_meaning": mo[0][:120], "classic": io[0][:160]}, limit=10)


def classify_reroot(p, as_predicted):
    # the mechanism of C04-sub-args-neg: a name the inner body uses lies 7 (mod 8) steps below the inner root, so
    # its path atom has the top bit of its first byte set and sub_args puts the WHOLE argument expression there;
    # the compiled result must be what that substitution computes
    if p["signed_depths"] and as_predicted:
        return SIG_REROOT
    if not as_predicted and p["arg_depth"] + max(p["used_depths"]) >= 16:
        # C01-F3: path_optimizer folds the (r (r … ARG)) chain step by step, reading each intermediate path as a
        # signed number; from 16 steps below the OUTER root on (argument's depth + the name's depth) bytes are lost
        return "compile:classic-opt-signed-path"
    return "compile:C03:classic:reroot:value-mismatch"


def classify_inlinecap(p, as_predicted):
    # formulate_path_selections_for_destructuring_arg binds a capture met below another capture (an explicit
    # top-level one, or the hidden one of a destructured top-level parameter) to that capture's selection
    if p["where"] != "toplevel" and as_predicted:
        return SIG_INLINECAP
    return "compile:C03:classic:inlinecap:value-mismatch"


def run(chk, n_reroot, n_inlinecap):
    rng = chk.rng
    run_stratum(chk, "reroot", gen_reroot(rng, n_reroot), classify_reroot)
    run_stratum(chk, "inlinecap", gen_inlinecap(rng, n_inlinecap), classify_inlinecap)
