"""C17 — an argument reported as unused really cannot influence the result."""
import gen
import lib
import progen
import compilers

LEVEL = "proof"


def leaves(shape, acc):
    if shape[0] == "leaf":
        acc.append(shape)
    elif shape[0] == "cap":
        leaves(shape[2], acc)
    else:
        for x in shape[1]:
            leaves(x, acc)
        if shape[2] is not None:
            leaves(shape[2], acc)
    return acc


def value_with(rng, shape, fixed):
    """argument value for the shape; leaves named in `fixed` take the given values."""
    if shape[0] == "leaf":
        return fixed[shape[1]] if shape[1] in fixed else progen.gen_value(rng, shape[2])
    if shape[0] == "cap":
        return value_with(rng, shape[2], fixed)
    tail = value_with(rng, shape[2], fixed) if shape[2] is not None else b""
    return gen.lst([value_with(rng, x, fixed) for x in shape[1]], tail)


def if_mentions_bound(tree):
    """an `if` form one of whose sub-forms mentions a let/assign-bound variable (V<n>)."""
    def mentions(t):
        if t[0] == "sym":
            return t[1].startswith("V") and t[1][1:].isdigit()
        if t[0] == "list":
            return any(mentions(x) for x in t[1]) or (t[2] is not None and mentions(t[2]))
        return False

    def walk(t):
        if t[0] != "list":
            return False
        if t[1] and t[1][0] == ("sym", "if") and mentions(t):
            return True
        return any(walk(x) for x in t[1])
    return walk(tree)


def in_guard_condition(tree, u):
    """`u` occurs in the condition of an `if` one of whose branches is a raise `(x …)`."""
    def mentions(t):
        if t[0] == "sym":
            return t[1] == u
        if t[0] == "list":
            return any(mentions(x) for x in t[1]) or (t[2] is not None and mentions(t[2]))
        return False

    def is_raise(t):
        return t[0] == "list" and bool(t[1]) and t[1][0] == ("sym", "x")

    def walk(t):
        if t[0] != "list":
            return False
        it = t[1]
        if len(it) == 4 and it[0] == ("sym", "if") and (is_raise(it[2]) or is_raise(it[3])) and mentions(it[1]):
            return True
        return any(walk(x) for x in it)
    return walk(tree)


def nested_if(tree):
    """an `if` form that contains another `if` form."""
    def has_if(t, top):
        if t[0] != "list":
            return False
        if not top and t[1] and t[1][0] == ("sym", "if"):
            return True
        return any(has_if(x, False) for x in t[1])

    def walk(t):
        if t[0] != "list":
            return False
        if t[1] and t[1][0] == ("sym", "if") and has_if(t, True):
            return True
        return any(walk(x) for x in t[1])
    return walk(tree)


def int_literals(tree):
    """integer literals of the program, those of the main expression (outermost first) first."""
    out = []

    def bfs(t):
        q = [t]
        while q:
            x = q.pop(0)
            if x[0] == "int":
                if x[1] not in out:
                    out.append(x[1])
            elif x[0] == "list":
                q.extend(x[1])
    forms = tree[1]
    bfs(forms[-1])
    for f in forms[2:-1]:
        bfs(f)
    return out[:10]


def gen_case(rng, dialect):
    feats = [f for f in ["functions", "inlines", "lets", "assign", "destructure", "lambda", "constants", "qq", "applydata"]
             if rng.random() < 0.7]
    g = progen.ProgGen(rng, dialect, feats)
    n = rng.randint(1, 8)
    pat, types, argv, shape = g.pattern(n, allow_nested=True, prefix="p")
    names = sorted(types)
    used = [x for x in names if rng.random() < 0.6]
    helpers = []
    if g.has("constants") and rng.random() < 0.5:
        helpers.append(g.make_constant())
    for _ in range(rng.randint(0, 2)):
        if rng.random() < 0.5 and g.has("inlines"):
            helpers.append(g.make_function(True))
        elif g.has("functions"):
            helpers.append(g.make_function(False))
    sc = progen.Scope({x: types[x] for x in used})
    ret = rng.choice(["int", "bytes", "ilist", "any"])
    body = g.expr(sc, ret, rng.randint(1, 4)) if used else g.lit(ret)
    r = rng.random()
    if used and r < 0.2:
        # a parameter used only under a condition on another
        c = rng.choice(used)
        body = progen.L(progen.S("if"), progen.S(c), body, progen.I(7))
    elif r < 0.42 and names:
        # guard idiom: a parameter (possibly otherwise unused) only decides between returning and raising
        c = rng.choice(names)
        t = types[c]
        if t == "int":
            cond = progen.L(progen.S(rng.choice(["=", ">"])), progen.S(c), progen.I(rng.randint(0, 9)))
        elif t == "bytes":
            cond = progen.L(progen.S("="), progen.L(progen.S("sha256"), progen.S(c)), ("hex", bytes(rng.randrange(256) for _ in range(32))))
        else:
            cond = progen.L(progen.S("l"), progen.S(c)) if rng.random() < 0.5 else progen.S(c)
        if rng.random() < 0.5:
            cond = progen.L(progen.S("not"), cond)
        body = progen.L(progen.S("if"), cond, body, progen.L(progen.S("x")))
    elif used and r < 0.5:
        # a parameter used only in a failing branch
        c = rng.choice(used)
        body = progen.L(progen.S("if"), progen.L(progen.S("="), progen.I(1), progen.I(2)), progen.L(progen.S("x"), progen.S(c)), body)
    forms = [progen.S("mod"), pat, progen.L(progen.S("include"), progen.S(progen.SIGILS[dialect]))] + helpers + [body]
    tree = ("list", forms, None)
    return {"tree": tree, "text": progen.text(tree), "rich": progen.rich(tree), "shape": shape, "types": types,
            "names": names, "intended_used": used, "dialect": dialect, "features": sorted(g.used_features), "nfns": len(g.fns)}


def run(chk):
    rng = chk.rng
    quick = chk.tier == "quick"
    lib.std_obligations(chk)
    chk.cov["rule"] = ("programs with 1..8 lower-case parameters (flat, nested, dotted) where each parameter is independently used "
                       "directly / through helpers, inlines, lets, lambdas / only under a condition / only in a failing branch / not "
                       "at all; the real check_unused reports a set U; for every u in U, 4 pairs of argument trees differing only in u "
                       "are run through the compiled program (clvmr): outcomes must be identical (same value or both fail). "
                       "distinct = (program, parameter, argument pair)")
    ok, out = lib.build_harness()
    if not ok:
        chk.fail("proof", "harness-build", {}, out[-1500:])
        return
    n = 400 if quick else 12000
    cases = [gen_case(rng, rng.choice(["cl21", "cl21", "cl23", "cl24", "strict21"])) for _ in range(n)]
    # explicit @ / path programs (the evaluator resolves explicit environment paths itself)
    for _ in range(n // 10):
        k = rng.randint(2, 4)
        names = [f"q{i}" for i in range(k)]
        path = rng.choice([2, 5, 11, 3, 7, 4, 6])
        tree = progen.L(progen.S("mod"), progen.L(*[progen.S(x) for x in names]),
                        progen.L(progen.S("include"), progen.S("*standard-cl-21*")),
                        progen.L(progen.S("a"), progen.L(progen.S("q"), tail=progen.I(path)), progen.S("@")))
        shape = ("plist", [("leaf", x, "int") for x in names], None)
        cases.append({"tree": tree, "text": progen.text(tree), "rich": progen.rich(tree), "shape": shape,
                      "types": {x: "int" for x in names}, "names": names, "intended_used": [], "dialect": "cl21",
                      "features": ["explicit-path"], "nfns": 0})
    outs = lib.run_impl("unused", [c["text"].encode().hex() for c in cases], timeout=60, per_job=8)
    comp_lines, meta = [], []
    for c, o in zip(cases, outs):
        f = o.split(" ", 1)
        chk.count(f"unused:{f[0]}")
        if f[0] in ("panic",) or f[0].startswith("abort"):
            chk.fail("oracle", f"unused:{f[0]}", {"program": c["text"]}, o[:200])
            continue
        if f[0] != "U":
            continue
        reported = [x for x in (f[1].split(",") if len(f) > 1 else []) if x]
        chk.count("reported-unused", len(reported))
        for u in c["intended_used"]:
            if u in reported:
                chk.count("reported-although-referenced")
        lv = {l[1]: l for l in leaves(c["shape"], [])}
        for u in reported:
            if u not in lv:
                continue        # a capture name: no leaf to vary independently
            pairs = []
            lits = [gen.int_atom(k + dk) for k in int_literals(c["tree"]) for dk in (0, 1, -1)]
            for j in range(6):
                fixed = {l[1]: progen.gen_value(rng, l[2]) for l in lv.values() if l[1] != u}
                v1 = progen.gen_value(rng, lv[u][2]) if (j % 2 == 0 or not lits) else rng.choice(lits)
                a1 = value_with(rng, c["shape"], dict(fixed, **{u: v1}))
                v2 = rng.choice([b"", b"\x01", gen.rand_tree(rng, 2, True), progen.gen_value(rng, lv[u][2])] + lits[:9])
                a2 = value_with(rng, c["shape"], dict(fixed, **{u: v2}))
                pairs += [a1, a2]
            comp_lines.append("text:O0 " + c["text"].encode().hex() + " " + " ".join(gen.hexv(a) for a in pairs))
            meta.append((c, u, pairs))
    io = lib.run_impl("compile", comp_lines, timeout=60, per_job=4)
    for (c, u, pairs), o in zip(meta, io):
        f = o.split()
        if not f or f[0] != "C":
            chk.count("does-not-compile")
            continue
        res = f[2:]
        for j in range(0, len(res) - 1, 2):
            chk.note_case((c["text"], u, gen.hexv(pairs[j]), gen.hexv(pairs[j + 1])), True)
            same = res[j] == res[j + 1] or (res[j][0] == "F" and res[j + 1][0] == "F")
            chk.count("pair:same" if same else "pair:DIFFERENT")
            if not same:
                sig = "unused:value-differs" if (res[j][0] == "V" and res[j + 1][0] == "V") else "unused:discarded-but-evaluated"
                if sig == "unused:discarded-but-evaluated" and in_guard_condition(c["tree"], u):
                    sig = "unused:guard-condition-parameter"
                if sig == "unused:value-differs" and if_mentions_bound(c["tree"]):
                    sig = "unused:evaluator-com-leak"
                elif sig == "unused:value-differs" and nested_if(c["tree"]):
                    sig = "unused:nested-conditional-drops-names"
                if "explicit-path" in c["features"] or "(@ " in c["text"] or " @)" in c["text"]:
                    sig = "unused:explicit-env-path"
                chk.fail("oracle", sig, {"program": c["text"], "parameter": u, "args1": gen.hexv(pairs[j]),
                                         "args2": gen.hexv(pairs[j + 1]), "args1_text": gen.show(pairs[j]),
                                         "args2_text": gen.show(pairs[j + 1])},
                         {"result1": res[j], "result2": res[j + 1]})
    if cases:
        chk.sample({"program": cases[0]["text"][:400], "reported": outs[0]})
    chk.cov["modelled_not_verified"] = ["check_parameters_used_compileform / mash_conditions are not modelled in Lean; "
                                        "non-interference is observed on the compiled program"]
