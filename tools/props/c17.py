"""C17 — an argument reported as unused really cannot influence the result."""
import gen
import lib
import progen
import compilers

LEVEL = "proof"


def leaves(shape, acc):
    if shape[0] == "leaf":
        acc.append(shape)
    elif shape[0] == "cap":
        leaves(shape[2], acc)
    else:
        for x in shape[1]:
            leaves(x, acc)
        if shape[2] is not None:
            leaves(shape[2], acc)
    return acc


def value_with(rng, shape, fixed):
    """argument value for the shape; leaves named in `fixed` take the given values."""
    if shape[0] == "leaf":
        return fixed[shape[1]] if shape[1] in fixed else progen.gen_value(rng, shape[2])
    if shape[0] == "cap":
        return value_with(rng, shape[2], fixed)
    tail = value_with(rng, shape[2], fixed) if shape[2] is not None else b""
    return gen.lst([value_with(rng, x, fixed) for x in shape[1]], tail)


def if_mentions_bound(tree):
    """an `if` form one of whose sub-forms mentions a let/assign-bound variable (V<n>)."""
    def mentions(t):
        if t[0] == "sym":
            return t[1].startswith("V") and t[1][1:].isdigit()
        if t[0] == "list":
            return any(mentions(x) for x in t[1]) or (t[2] is not None and mentions(t[2]))
        return False

    def walk(t):
        if t[0] != "list":
            return False
        if t[1] and t[1][0] == ("sym", "if") and mentions(t):
            return True
        return any(walk(x) for x in t[1])
    return walk(tree)


def in_guard_condition(tree, u):
    """`u` occurs in the condition of an `if` one of whose branches is a raise `(x …)`."""
    def mentions(t):
        if t[0] == "sym":
            return t[1] == u
        if t[0] == "list":
            return any(mentions(x) for x in t[1]) or (t[2] is not None and mentions(t[2]))
        return False

    def is_raise(t):
        return t[0] == "list" and bool(t[1]) and t[1][0] == ("sym", "x")

    def walk(t):
        if t[0] != "list":
            return False
        it = t[1]
        if len(it) == 4 and it[0] == ("sym", "if") and (is_raise(it[2]) or is_raise(it[3])) and mentions(it[1]):
            return True
        return any(walk(x) for x in it)
    return walk(tree)


def nested_if(tree):
    """an `if` form that contains another `if` form."""
    def has_if(t, top):
        if t[0] != "list":
            return False
        if not top and t[1] and t[1][0] == ("sym", "if"):
            return True
        return any(has_if(x, False) for x in t[1])

    def walk(t):
        if t[0] != "list":
            return False
        if t[1] and t[1][0] == ("sym", "if") and has_if(t, True):
            return True
        return any(walk(x) for x in t[1])
    return walk(tree)


def int_literals(tree):
    """integer literals of the program, those of the main expression (outermost first) first."""
    out = []

    def bfs(t):
        q = [t]
        while q:
            x = q.pop(0)
            if x[0] == "int":
                if x[1] not in out:
                    out.append(x[1])
            elif x[0] == "list":
                q.extend(x[1])
    forms = tree[1]
    bfs(forms[-1])
    for f in forms[2:-1]:
        bfs(f)
    return out[:10]


def gen_case(rng, dialect):
    feats = [f for f in ["functions", "inlines", "lets", "assign", "destructure", "lambda", "constants", "qq", "applydata"]
             if rng.random() < 0.7]
    g = progen.ProgGen(rng, dialect, feats)
    n = rng.randint(1, 8)
    pat, types, argv, shape = g.pattern(n, allow_nested=True, prefix="p")
    names = sorted(types)
    used = [x for x in names if rng.random() < 0.6]
    helpers = []
    if g.has("constants") and rng.random() < 0.5:
        helpers.append(g.make_constant())
    for _ in range(rng.randint(0, 2)):
        if rng.random() < 0.5 and g.has("inlines"):
            helpers.append(g.make_function(True))
        elif g.has("functions"):
            helpers.append(g.make_function(False))
    sc = progen.Scope({x: types[x] for x in used})
    ret = rng.choice(["int", "bytes", "ilist", "any"])
    body = g.expr(sc, ret, rng.randint(1, 4)) if used else g.lit(ret)
    r = rng.random()
    if used and r < 0.2:
        # a parameter used only under a condition on another
        c = rng.choice(used)
        body = progen.L(progen.S("if"), progen.S(c), body, progen.I(7))
    elif r < 0.42 and names:
        # guard idiom: a parameter (possibly otherwise unused) only decides between returning and raising
        c = rng.choice(names)
        t = types[c]
        if t == "int":
            cond = progen.L(progen.S(rng.choice(["=", ">"])), progen.S(c), progen.I(rng.randint(0, 9)))
        elif t == "bytes":
            cond = progen.L(progen.S("="), progen.L(progen.S("sha256"), progen.S(c)), ("hex", bytes(rng.randrange(256) for _ in range(32))))
        else:
            cond = progen.L(progen.S("l"), progen.S(c)) if rng.random() < 0.5 else progen.S(c)
        if rng.random() < 0.5:
            cond = progen.L(progen.S("not"), cond)
        body = progen.L(progen.S("if"), cond, body, progen.L(progen.S("x")))
    elif used and r < 0.5:
        # a parameter used only in a failing branch
        c = rng.choice(used)
        body = progen.L(progen.S("if"), progen.L(progen.S("="), progen.I(1), progen.I(2)), progen.L(progen.S("x"), progen.S(c)), body)
    ints = [x for x in names if types[x] == "int"]
    if ints and names and rng.random() < 0.12:
        # a parameter used only inside a branch whose partial evaluation is DEEP (a recursion on a literal
        # count that the evaluator cannot finish within its stack limit): the use must still be seen
        L, S, I = progen.L, progen.S, progen.I
        pw = g.fresh("pw_")
        helpers.append(L(S("defun"), S(pw), L(S("B"), S("E")),
                         L(S("if"), L(S("="), S("E"), I(0)), I(1), L(S("*"), S("B"), L(S(pw), S("B"), L(S("-"), S("E"), I(1)))))))
        u = rng.choice(ints)
        c = rng.choice(names)
        deep = L(S(pw), S(u), I(rng.choice([20, 25, 40])))
        body = L(S("if"), S(c), L(S("c"), deep, body), body) if rng.random() < 0.5 else L(S("if"), S(c), body, L(S("c"), deep, body))
    r2 = rng.random()
    if names and r2 < 0.07:
        # an expression nested past the evaluator's stack limit (a long `list`): the check either gives up (no claim)
        # or must still see the parameter at the far end (seed C17-1: evaluator errors swallowed under ignore_exn)
        L, S, I = progen.L, progen.S, progen.I
        c = rng.choice(names)
        k = rng.choice([90, 120, 160])
        body = L(*([S("list"), body] + [I(1000 + j) for j in range(k)] + [S(c)]))
    elif len(names) >= 2 and r2 < 0.14 and dialect != "strict21":
        # a lambda with a capture whose body has an `if`, applied via `a` under another operator: reducing the
        # operator's argument makes the evaluator raise (seed C17-1's other trigger)
        L, S, I = progen.L, progen.S, progen.I
        c1, c2 = rng.sample(names, 2)
        lam = L(S("lambda"), L(L(S("&"), S(c1)), S("on_1")), L(S("if"), S("on_1"), S(c1), I(0)))
        body = L(S("c"), L(S("a"), lam, L(S("list"), S(c2))), body)
    forms = [progen.S("mod"), pat, progen.L(progen.S("include"), progen.S(progen.SIGILS[dialect]))] + helpers + [body]
    tree = ("list", forms, None)
    return {"tree": tree, "text": progen.text(tree), "rich": progen.rich(tree), "shape": shape, "types": types,
            "names": names, "intended_used": used, "dialect": dialect, "features": sorted(g.used_features), "nfns": len(g.fns)}


CORE_FEATURES = ["functions", "destructure", "captures", "literals"]


def sym_occurs(t, name):
    if t[0] == "sym":
        return t[1] == name
    if t[0] == "list":
        return any(sym_occurs(x, name) for x in t[1]) or (t[2] is not None and sym_occurs(t[2], name))
    return False


def enclosing_captures(shape, leaf, above=()):
    """names of the `(@ cap pat)` captures around the leaf `leaf` (None if the leaf is absent)."""
    if shape[0] == "leaf":
        return list(above) if shape[1] == leaf else None
    if shape[0] == "cap":
        return enclosing_captures(shape[2], leaf, tuple(above) + (shape[1],))
    for x in list(shape[1]) + ([shape[2]] if shape[2] is not None else []):
        r = enclosing_captures(x, leaf, above)
        if r is not None:
            return r
    return None


def captured_leaves(shape, cap):
    """every name (leaf or inner capture) under the capture named `cap`."""
    def names(s, acc):
        if s[0] == "leaf":
            acc.append(s[1])
        elif s[0] == "cap":
            acc.append(s[1])
            names(s[2], acc)
        else:
            for x in s[1]:
                names(x, acc)
            if s[2] is not None:
                names(s[2], acc)
        return acc

    def find(s):
        if s[0] == "cap":
            return names(s[2], []) if s[1] == cap else find(s[2])
        if s[0] == "plist":
            for x in list(s[1]) + ([s[2]] if s[2] is not None else []):
                r = find(x)
                if r is not None:
                    return r
        return None
    return find(shape) or []


def gen_core_case(rng, dialect):
    """a program of the CORE language (Lang/Core.lean: mod + defuns + operators + lazy if + calls) with 1..8
    lower-case parameters, flat / nested / dotted / captured; each parameter independently used directly, only as an
    argument of a helper (possibly one that ignores it), only under a condition, inside nested conditionals, only in
    the dead branch of a statically decided `if`, or not at all."""
    g = progen.ProgGen(rng, dialect, CORE_FEATURES)
    n = rng.randint(1, 8)
    pat, types, argv, shape = g.pattern(n, allow_nested=True, prefix="p")
    names = sorted(types)
    used = [x for x in names if rng.random() < 0.6]
    unused = [x for x in names if x not in used]
    helpers = []
    for _ in range(rng.randint(0, 2)):
        helpers.append(g.make_recursive() if rng.random() < 0.25 else g.make_function(False))
    ign = None
    if rng.random() < 0.4:
        # a helper that ignores its second parameter
        ign = g.fresh("fn_")
        a, b = g.fresh("A"), g.fresh("A")
        helpers.append(progen.L(progen.S("defun"), progen.S(ign), progen.L(progen.S(a), progen.S(b)), progen.S(a)))
    sc = progen.Scope({x: types[x] for x in used})
    ret = rng.choice(["int", "bytes", "ilist", "any"])
    body = g.expr(sc, ret, rng.randint(1, 4)) if used else g.lit(ret)
    kind = "plain"
    r = rng.random()
    if used and r < 0.18:
        kind = "under-condition"
        body = progen.L(progen.S("if"), progen.S(rng.choice(used)), body, progen.I(7))
    elif ign and unused and r < 0.40:
        kind = "argument-of-ignoring-helper"
        u = rng.choice(unused)
        arg = progen.S(u) if rng.random() < 0.6 else progen.L(progen.S("c"), progen.S(u), progen.I(1))
        body = progen.L(progen.S(ign), body, arg)
    elif used and r < 0.52:
        kind = "nested-conditional"
        c1, c2 = rng.choice(used), rng.choice(names)
        body = progen.L(progen.S("if"), progen.S(c1),
                        progen.L(progen.S("if"), progen.S(c2), body, g.expr(sc, ret, 1)), g.lit(ret))
    elif unused and r < 0.62:
        kind = "static-condition"
        u = rng.choice(unused)
        k = rng.randint(0, 5)
        cond = progen.L(progen.S("="), progen.I(k), progen.I(k + rng.choice([0, 0, 1])))
        body = progen.L(progen.S("if"), cond, body, progen.S(u))
    forms = [progen.S("mod"), pat, progen.L(progen.S("include"), progen.S(progen.SIGILS[dialect]))] + helpers + [body]
    tree = ("list", forms, None)
    return {"tree": tree, "text": progen.text(tree), "rich": progen.rich(tree), "shape": shape, "types": types,
            "names": names, "intended_used": used, "dialect": dialect, "features": sorted(g.used_features) + ["core"],
            "nfns": len(helpers), "core": True, "core_kind": kind, "body": body}


def core_model_tie(chk, rng, cases, io):
    """the theorem's side: for every CORE program, the model of the use check (`Core.reportedUnused`, the set the
    kernel-checked non-interference theorem covers) against the real report, and `Core.compileCore` against the real
    compiler's bytes (what makes the theorem speak about the real compiled program).  Returns, per case, the set of
    names covered by the theorem (None when the program is outside the core or the tie is broken)."""
    mo = lib.run_model("unused", [c["rich"] for c in cases], per_job=40)
    ko = lib.run_model("core", [c["rich"] for c in cases], per_job=40)
    co = lib.run_impl("compile", ["text:O0 " + c["text"].encode().hex() for c in cases], per_job=4, timeout=60)
    covered = []
    for c, m, o, k, cc in zip(cases, mo, io, ko, co):
        mf, of, kf, cf = m.split(" "), o.split(" ", 1), k.split(), cc.split()
        chk.count(f"core:model:{mf[0]}")
        chk.count(f"core:kind:{c['core_kind']}")
        if mf[0] != "M":
            covered.append(None)
            continue
        if mf[1] != "wf":
            chk.fail("correspondence", "corr:core-progWF", {"program": c["text"]},
                     "generated core program does not satisfy the theorem's hypothesis progWF")
            covered.append(None)
            continue
        model = set(bytes.fromhex(x).decode("latin-1") for x in (mf[2].split(",") if len(mf) > 2 else []) if x)
        # byte identity of the compiler model (the theorem is about `compileCore P`)
        tied = bool(kf) and kf[0] == "K" and bool(cf) and cf[0] == "C" and kf[2] == cf[1]
        if kf and kf[0] == "K" and cf and cf[0] == "C" and kf[2] != cf[1]:
            chk.count("core:BYTES-DIFFER")
            chk.fail("correspondence", "corr:core-compile-bytes", {"program": c["text"]},
                     {"model": kf[2][:400], "impl": cf[1][:400]})
        chk.count("core:bytes-equal" if tied else "core:not-compiled-by-impl")
        if of[0] != "U":
            chk.count(f"core:real:{of[0]}")
            covered.append(model if tied else None)
            continue
        real = set(x for x in (of[1].split(",") if len(of) > 1 else []) if x)
        chk.note_case(("core-usecheck", c["text"]), bool(real or model))
        rel = "equal" if real == model else "model-subset-of-real" if model < real else \
              "real-subset-of-model" if real < model else "incomparable"
        chk.count(f"core:relation:{rel}")
        for x in sorted(real):
            if x in model:
                chk.count("core:real-report:covered-by-theorem")
            else:
                # the evaluator removed an occurrence the main expression has: not covered by the theorem,
                # decided by the differential oracle below (NOT a violation by itself)
                chk.count("core:real-report:oracle-only")
                chk.count(f"core:oracle-only:{c['core_kind']}")
                if not sym_occurs(c["body"], x):
                    chk.fail("correspondence", "corr:usecheck-model-misses-absent-name", {"program": c["text"], "name": x},
                             "reported by the real check, absent from the main expression, yet not reported by the model")
        for x in sorted(model - real):
            # a name absent from the main expression cannot occur in a residue of it — except a capture name
            # `(@ x pat)` around a leaf the expression uses: the evaluator's environment expression carries the
            # capture's token where compiled code uses a path into it (the real check is then MORE conservative)
            if any(sym_occurs(c["body"], y) for y in captured_leaves(c["shape"], x)):
                chk.count("core:model-reports-more:capture-around-used-name")
                continue
            chk.count("core:model-reports-more:UNEXPLAINED")
            chk.fail("correspondence", "corr:usecheck-model-reports-more", {"program": c["text"], "name": x},
                     {"model": sorted(model), "real": sorted(real)})
        covered.append(model if tied else None)
    if cases:
        chk.sample({"core_program": cases[0]["text"][:300], "model_report": mo[0], "real_report": io[0]})
    return covered


def run(chk):
    rng = chk.rng
    quick = chk.tier == "quick"
    lib.std_obligations(chk)
    chk.cov["rule"] = ("programs with 1..8 lower-case parameters (flat, nested, dotted) where each parameter is independently used "
                       "directly / through helpers, inlines, lets, lambdas / only under a condition / only in a failing branch / not "
                       "at all; the real check_unused reports a set U; for every u in U, 4 pairs of argument trees differing only in u "
                       "are run through the compiled program (clvmr): outcomes must be identical (same value or both fail). "
                       "distinct = (program, parameter, argument pair). CORE stream (programs of Lang/Core.lean with the same "
                       "parameter strata + argument of an ignoring helper / nested conditional / statically decided if): model "
                       "Core.reportedUnused vs the real report (model must be a subset; real reports inside it are covered by the "
                       "kernel-checked theorem), Core.compileCore vs real compiler bytes, and the same differential oracle")
    ok, out = lib.build_harness()
    if not ok:
        chk.fail("proof", "harness-build", {}, out[-1500:])
        return
    n = 400 if quick else 12000
    cases = [gen_case(rng, rng.choice(["cl21", "cl21", "cl23", "cl24", "strict21"])) for _ in range(n)]
    # explicit @ / path programs (the evaluator resolves explicit environment paths itself)
    for _ in range(n // 10):
        k = rng.randint(2, 4)
        names = [f"q{i}" for i in range(k)]
        path = rng.choice([2, 5, 11, 3, 7, 4, 6])
        tree = progen.L(progen.S("mod"), progen.L(*[progen.S(x) for x in names]),
                        progen.L(progen.S("include"), progen.S("*standard-cl-21*")),
                        progen.L(progen.S("a"), progen.L(progen.S("q"), tail=progen.I(path)), progen.S("@")))
        shape = ("plist", [("leaf", x, "int") for x in names], None)
        cases.append({"tree": tree, "text": progen.text(tree), "rich": progen.rich(tree), "shape": shape,
                      "types": {x: "int" for x in names}, "names": names, "intended_used": [], "dialect": "cl21",
                      "features": ["explicit-path"], "nfns": 0})
    # CORE programs: model of the check vs the real report, compiler model vs real bytes; the same programs also
    # go through the differential oracle below
    ncore = 240 if quick else 2000
    core_cases = [gen_core_case(rng, rng.choice(["cl21", "cl21", "strict21"])) for _ in range(ncore)]
    cases += core_cases
    outs = lib.run_impl("unused", [c["text"].encode().hex() for c in cases], timeout=60, per_job=8)
    covered = core_model_tie(chk, rng, core_cases, outs[len(cases) - len(core_cases):])
    for c, cov in zip(core_cases, covered):
        c["covered"] = cov
    comp_lines, meta = [], []
    for c, o in zip(cases, outs):
        f = o.split(" ", 1)
        chk.count(f"unused:{f[0]}")
        if f[0] in ("panic",) or f[0].startswith("abort"):
            chk.fail("oracle", f"unused:{f[0]}", {"program": c["text"]}, o[:200])
            continue
        if f[0] != "U":
            continue
        reported = [x for x in (f[1].split(",") if len(f) > 1 else []) if x]
        chk.count("reported-unused", len(reported))
        for u in c["intended_used"]:
            if u in reported:
                chk.count("reported-although-referenced")
        lv = {l[1]: l for l in leaves(c["shape"], [])}
        npairs = 6
        if c.get("core") and c.get("covered") is not None:
            # core stream: every report the theorem does NOT cover goes through the oracle, of those it covers
            # (usually most of a long parameter list) one (thorough: two) is sampled, with fewer pairs
            cov = [u for u in reported if u in c["covered"] and u in lv]
            reported = [u for u in reported if u not in c["covered"]] + rng.sample(cov, min(1 if quick else 2, len(cov)))
            chk.count("core:covered-reports-not-sampled", max(0, len(cov) - (1 if quick else 2)))
        for u in reported:
            if u not in lv:
                continue        # a capture name: no leaf to vary independently
            pairs = []
            lits = [gen.int_atom(k + dk) for k in int_literals(c["tree"]) for dk in (0, 1, -1)]
            np_u = 3 if (c.get("core") and c.get("covered") is not None and u in c["covered"]) else npairs
            for j in range(np_u):
                fixed = {l[1]: progen.gen_value(rng, l[2]) for l in lv.values() if l[1] != u}
                v1 = progen.gen_value(rng, lv[u][2]) if (j % 2 == 0 or not lits) else rng.choice(lits)
                a1 = value_with(rng, c["shape"], dict(fixed, **{u: v1}))
                v2 = rng.choice([b"", b"\x01", gen.rand_tree(rng, 2, True), progen.gen_value(rng, lv[u][2])] + lits[:9])
                a2 = value_with(rng, c["shape"], dict(fixed, **{u: v2}))
                pairs += [a1, a2]
            comp_lines.append("text:O0 " + c["text"].encode().hex() + " " + " ".join(gen.hexv(a) for a in pairs))
            meta.append((c, u, pairs))
            if c.get("covered") is not None:
                caps = enclosing_captures(c["shape"], u) or []
                # the pairs meet the theorem's hypotheses when `u` and every capture around it are unmentioned
                c.setdefault("predicted", {})[u] = u in c["covered"] and all(k in c["covered"] for k in caps)
                chk.count("core:pairs-predicted-by-theorem" if c["predicted"][u] else "core:pairs-oracle-only")
    # batches keep every process's share small enough for the per-process timeout (a timed-out share is split and
    # re-run, which on a loaded machine used to re-run most of a thorough tier several times)
    io = []
    for k in range(0, len(comp_lines), 2400):
        io += lib.run_impl("compile", comp_lines[k:k + 2400], timeout=120, per_job=4)
    for (c, u, pairs), o in zip(meta, io):
        f = o.split()
        if not f or f[0] != "C":
            chk.count("does-not-compile")
            continue
        res = f[2:]
        for j in range(0, len(res) - 1, 2):
            chk.note_case((c["text"], u, gen.hexv(pairs[j]), gen.hexv(pairs[j + 1])), True)
            same = res[j] == res[j + 1] or (res[j][0] == "F" and res[j + 1][0] == "F")
            chk.count("pair:same" if same else "pair:DIFFERENT")
            if not same and c.get("predicted", {}).get(u):
                # the theorem (compiler model byte-identical on this program) says this cannot happen
                chk.fail("oracle", "unused:core-theorem-contradicted",
                         {"program": c["text"], "parameter": u, "args1": gen.hexv(pairs[j]), "args2": gen.hexv(pairs[j + 1])},
                         {"result1": res[j], "result2": res[j + 1]})
                continue
            if not same:
                sig = "unused:value-differs" if (res[j][0] == "V" and res[j + 1][0] == "V") else "unused:discarded-but-evaluated"
                if sig == "unused:discarded-but-evaluated" and in_guard_condition(c["tree"], u):
                    sig = "unused:guard-condition-parameter"
                if sig == "unused:value-differs" and if_mentions_bound(c["tree"]):
                    sig = "unused:evaluator-com-leak"
                elif sig == "unused:value-differs" and nested_if(c["tree"]):
                    sig = "unused:nested-conditional-drops-names"
                if "explicit-path" in c["features"] or "(@ " in c["text"] or " @)" in c["text"]:
                    sig = "unused:explicit-env-path"
                chk.fail("oracle", sig, {"program": c["text"], "parameter": u, "args1": gen.hexv(pairs[j]),
                                         "args2": gen.hexv(pairs[j + 1]), "args1_text": gen.show(pairs[j]),
                                         "args2_text": gen.show(pairs[j + 1])},
                         {"result1": res[j], "result2": res[j + 1]})
    if cases:
        chk.sample({"program": cases[0]["text"][:400], "reported": outs[0]})
    chk.cov["modelled_not_verified"] = [
        "the partial evaluator behind check_parameters_used_compileform (shrink_bodyform / mash_conditions) is not modelled; "
        "Core.reportedUnused under-approximates its report on the core language by syntactic absence from the main "
        "expression (counts core:real-report:covered-by-theorem vs core:real-report:oracle-only); real reports outside the "
        "model's set and every program outside the core language are decided by the differential oracle only"]
