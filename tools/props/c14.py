"""C14 — front ends never crash: any input yields a result or a located error.

Theorem side (Props/C14.lean): totality / bounds of the MODELLED front ends (modern reader,
classic deserialiser, classic IR reader + assembler, the step machine under an iteration
limit, the REPL's line assembly incl. the exact reachability condition of its `panic!`).

Harness side (`cvh crash`): EVERY entry point of the property's list, on the real library,
in-process with `catch_unwind` + a panic hook that records the panic `Location`, inside child
processes (a stack overflow / abort / wall-clock timeout kills the child only and is attributed
to the single input that has no output line).  Streams exactly as the quantifier says: token
soup over keywords and delimiters, EVERY single-token deletion / duplication / adjacent swap
(+ random far swaps) of programs from tools/progen.py, tools/clgen.py and /repo/resources/tests,
truncation at every byte offset, random bytes, parenthesis nesting up to 200.

For the modelled front ends the Lean model is run on the same malformed streams and ok/err
(+ message, + location) must agree: modern reader (`reader w|s`), classic assembler (`text a`),
classic deserialiser (`serde d`).  For compile errors the location oracle of C15 is applied:
`CompileErr.0` names the input, an include that is available and mentioned, or a built-in
pseudo-file, and line/col is a byte range of that text.

A panic / abort / timeout is `chk.fail("oracle", sig, …)`.  Signatures are per panic SITE
(`crash:panic:<file>:<enclosing fn>`, from the panic hook's location — line numbers are not part
of the signature so that unrelated edits do not rename a finding), per entry-point family and
input class for aborts (`crash:abort:<family>:include-cycle` …) and per entry point for timeouts.
"""
import bisect
import os
import re
import shutil
import subprocess
import tempfile
from concurrent.futures import ThreadPoolExecutor

import clgen
import compilers
import gen
import lib
import progen
from props import c14_reader, c15

LEVEL = "proof"
REPO = lib.REPO
INPUT_NAME = "*verif-input*"

SIGILS = [None, "*standard-cl-21*", "*strict-cl-21*", "*standard-cl-22*", "*standard-cl-23*",
          "*standard-cl-23.1*", "*standard-cl-24*"]
DIALECT_OF = {None: "classic", "*standard-cl-21*": "cl21", "*strict-cl-21*": "strict21", "*standard-cl-22*": "cl22",
              "*standard-cl-23*": "cl23", "*standard-cl-23.1*": "cl23.1", "*standard-cl-24*": "cl24"}

# ----------------------------------------------------------------------------------------
# the work directory: include files every generated input may name
# ----------------------------------------------------------------------------------------

WORK_FILES = {
    "good.clinc": b"(\n  (defun good (A) (+ A 1))\n)\n",
    "gen_inc.clinc": clgen.INCLUDE_FILE.encode(),
    "empty.clinc": b"",
    "blank.clinc": b"  \n ; nothing here\n",
    "atom.clinc": b"justanatom\n",
    "self.clinc": b"(\n  (include self.clinc)\n)\n",
    "cyc-a.clinc": b"(\n  (include cyc-b.clinc)\n  (defun ca (A) A)\n)\n",
    "cyc-b.clinc": b"(\n  (include cyc-a.clinc)\n)\n",
    "nest1.clinc": b"(\n  (include good.clinc)\n  (defun n1 (A) (good A))\n)\n",
    "bad-unbound.clinc": b"(\n  ; helper with an unbound name\n  (defun bad (A)\n     (+ A unbound-name))\n)\n",
    "bad-form.clinc": b"(\n  (defun)\n)\n",
    "bad-dup.clinc": b"(\n  (defun dd (A) A)\n\n  (defun dd (B) B)\n)\n",
    "bad-unterminated.clinc": b"(\n  (defun uu (A) \"abc)\n)\n",
    "data.bin": bytes(range(0, 40)),
    "data.hex": b"ff01ff02ff0380",
    "bad.hex": b"ff01zz",
    "trunc.hex": b"ff01",
    "odd.hex": b"ff018",
    "data.sexp": b"(1 2 (3 . 4) \"five\")",
    "two.sexp": b"(1 2) (3 4)",
    "none.sexp": b"   ",
    "bad.sexp": b"(1 2",
}
CYCLIC = {"self.clinc", "cyc-a.clinc", "cyc-b.clinc"}
TEXTLESS_PSEUDO = c15.TEXTLESS_PSEUDO | {"*command*", "*program*", "*args*", "*repl*", "*hex*"}


def prepare_workdir(quick):
    tmp = tempfile.mkdtemp(prefix="cvh-c14-")
    for n, b in WORK_FILES.items():
        with open(os.path.join(tmp, n), "wb") as f:
            f.write(b)
    # the include files the shipped sources name (flat; first one wins on a name clash)
    root = os.path.join(REPO, "resources", "tests")
    for d, _, names in sorted(os.walk(root)):
        for n in sorted(names):
            if n.endswith((".clib", ".clinc", ".clvm", ".clsp", ".hex", ".sexp", ".bin", ".dat")):
                dst = os.path.join(tmp, n)
                src = os.path.join(d, n)
                if not os.path.exists(dst) and os.path.getsize(src) < 200000:
                    shutil.copy(src, dst)
    return tmp


# ----------------------------------------------------------------------------------------
# streams
# ----------------------------------------------------------------------------------------

KEYWORDS = [b"mod", b"defun", b"defun-inline", b"defmacro", b"defmac", b"defconstant", b"defconst", b"let", b"let*",
            b"assign", b"lambda", b"include", b"embed-file", b"qq", b"unquote", b"@", b"&rest", b".", b'"', b"'",
            b"#", b"(", b")", b"(", b")", b"(", b")", b" ", b" ", b"\n", b"if", b"list", b"c", b"f", b"r", b"a", b"q", b"x",
            b"i", b"+", b"-", b"*", b"=", b"com", b"opt", b"&", b"bin", b"hex", b"sexp", b"X", b"Y", b"foo", b"1", b"0",
            b"-1", b"0x10", b"0x", b"\"s\"", b"'t'", b";", b"; c\n", b"()", b"#(", b"\\", b"deftype", b"defalias",
            b"namespace", b"import", b"export", b"sha256", b"quote", b"function", b"@*env*", b"@*env-1*", b"unquote-splicing",
            b"good.clinc", b"empty.clinc", b"self.clinc", b"cyc-a.clinc", b"nest1.clinc", b"atom.clinc", b"blank.clinc",
            b"data.bin", b"data.hex", b"bad.hex", b"data.sexp", b"two.sexp", b"none.sexp", b"nonexistent.clinc",
            b"*standard-cl-21*", b"*strict-cl-21*", b"*standard-cl-22*", b"*standard-cl-23*", b"*standard-cl-23.1*",
            b"*standard-cl-24*", b"*macros*", b"*standard-cl-99*"]

FORM_HEADS = [b"mod", b"defun", b"defun-inline", b"defmacro", b"defmac", b"defconstant", b"defconst", b"let", b"let*",
              b"assign", b"lambda", b"include", b"embed-file", b"qq", b"unquote", b"if", b"list", b"com", b"opt", b"a",
              b"q", b"c", b"+", b"x", b"@", b"&rest", b"deftype"]


def soup_free(rng):
    n = rng.randrange(1, 18)
    out = bytearray()
    for _ in range(n):
        out += rng.choice(KEYWORDS)
        if rng.random() < 0.7:
            out += b" "
    return bytes(out)


def soup_form(rng, depth=3):
    """a balanced form whose heads are keywords but whose shape is arbitrary (too short, atoms where
    lists are expected, dotted tails, …)"""
    if depth <= 0 or rng.random() < 0.35:
        return rng.choice([b"X", b"Y", b"1", b"()", b"foo", b"\"s\"", b"0x10", b"-1", b"@", b"&rest", b"q", b"a",
                           b"good.clinc", b"empty.clinc", b"data.hex", b"data.sexp", b"bin", b"hex", b"sexp", b"#a",
                           b"*standard-cl-23*", b"self.clinc", b"two.sexp", b"none.sexp", b"atom.clinc", b"blank.clinc"])
    n = rng.choice([0, 1, 1, 2, 2, 3, 3, 4, 5])
    items = [rng.choice(FORM_HEADS) if rng.random() < 0.8 else soup_form(rng, depth - 1)]
    items += [soup_form(rng, depth - 1) for _ in range(n)]
    body = b" ".join(items)
    if n and rng.random() < 0.12:
        body += b" . " + soup_form(rng, depth - 1)
    return b"(" + body + b")"


def soup_mod(rng):
    """`(mod <args> [sigil] <soup forms>)`: gets past the outermost checks under every dialect"""
    sig = rng.choice(SIGILS)
    forms = [soup_form(rng, rng.choice([1, 2, 3])) for _ in range(rng.randrange(0, 4))]
    args = rng.choice([b"()", b"(X)", b"(X Y)", b"X", b"(X . Y)", b"((X Y) Z)", b"(@ X (Y Z))", b"(X &rest Y)", b"1",
                       b"(\"s\")", b"(X X)", b"(&rest)", b"(@)", b"(@ X)", b"(@ 1 (Y))"])
    inc = [b"(include " + sig.encode() + b")"] if sig else []
    return b"(mod " + b" ".join([args] + inc + forms) + b")"


def single_token_mutants(rng, text, far_swaps=8):
    """EVERY single-token deletion, duplication and adjacent swap, plus a few far swaps"""
    toks = c15.tokens_of(text)
    out = []
    for a, b in toks:
        out.append((text[:a] + text[b:], "del"))
        out.append((text[:b] + b" " + text[a:b] + text[b:], "dup"))
    for (a, b), (c, d) in zip(toks, toks[1:]):
        out.append((text[:a] + text[c:d] + text[b:c] + text[a:b] + text[d:], "swap"))
    for _ in range(far_swaps if len(toks) > 3 else 0):
        i, j = sorted(rng.sample(range(len(toks)), 2))
        (a, b), (c, d) = toks[i], toks[j]
        out.append((text[:a] + text[c:d] + text[b:c] + text[a:b] + text[d:], "swap"))
    return out


def generator_programs(rng, n_per_dialect):
    """valid programs from both generators, all seven dialects"""
    progs = []
    for sig in SIGILS:
        d = DIALECT_OF[sig]
        for p in compilers.gen_programs(rng, d, n_per_dialect, nargs=1):
            progs.append((p["text"].encode(), "progen:" + d, gen.show(p["args"][0])))
        for k in range(n_per_dialect):
            g = clgen.ProgGen(rng, sig, use_include=(k % 2 == 0))
            src, pn = g.program()
            progs.append((src.encode(), "clgen:" + d, g.args_for(pn)))
    return progs


def shipped_programs(limit):
    out = []
    for f in c15.shipped_sources():
        try:
            b = open(f, "rb").read()
        except OSError:
            continue
        if 8 < len(b) <= limit:
            out.append((b, os.path.relpath(f, REPO)))
    return out


ENVS = ["()", "(1 2 3)", "((1 2) 3 (4 . 5))", "(100 \"abc\" 0x00ff)", "5"]

SRC_EPS = ["cf", "ct", "cfile", "run", "pre", "dep", "unused", "cldb"]
SRC_EPS_RARE = ["ct1", "runf", "cldbt", "cldbp"]
CLVM_EPS = ["asm", "opc", "brun", "cldb"]
CLVM_EPS_RARE = ["brunv", "brunt", "cldbt", "cldbp"]
BYTE_EPS = ["des", "dis", "cfile", "runf", "dep"]
HEXTEXT_EPS = ["opd", "hexm", "brunx", "cldbx"]
TWO_ARG = {"brun", "brunx", "brunv", "brunt", "cldb", "cldbx", "cldbt", "cldbp"}
FAMILY = {"cf": "compile", "ct": "compile", "ct1": "compile", "cfile": "compile", "run": "compile", "runf": "compile",
          "pre": "preprocess", "dep": "deps", "unused": "unused", "cldb": "cldb", "cldbt": "cldb", "cldbp": "cldb",
          "cldbx": "cldb", "asm": "assemble", "opc": "assemble", "dis": "disassemble", "opd": "disassemble",
          "des": "deserialise", "hexm": "deserialise", "brun": "run", "brunx": "run", "brunv": "run", "brunt": "run",
          "repl": "repl"}


def hx(b):
    return b.hex() or "-"


def is_utf8(b):
    try:
        b.decode("utf-8")
        return True
    except UnicodeDecodeError:
        return False


class Cases:
    def __init__(self, chk):
        self.chk = chk
        self.lines = []
        self.meta = []      # (ep, stream, text bytes or list of lines)
        self.seen = set()

    def add(self, ep, stream, data, env=None):
        if ep == "repl":
            if any(not is_utf8(x) or b"\n" in x or b"\r" in x for x in data):
                return
            line = "repl " + " ".join(hx(x) for x in data)
        else:
            if ep not in BYTE_EPS and not is_utf8(data):
                return
            line = f"{ep} {hx(data)}"
            if ep in TWO_ARG:
                line += " " + hx((env if env is not None else "()").encode())
        if line in self.seen:
            return
        self.seen.add(line)
        self.lines.append(line)
        self.meta.append((ep, stream, data))

    def source(self, rng, stream, text, env=None, rare=0.08):
        """one source text through every compile-family entry point and the REPL"""
        for ep in SRC_EPS:
            self.add(ep, stream, text, env if env is not None else rng.choice(ENVS))
        for ep in SRC_EPS_RARE:
            if rng.random() < rare:
                self.add(ep, stream, text, env if env is not None else rng.choice(ENVS))
        self.add("repl", stream, repl_lines(rng, text))

    def clvm_text(self, rng, stream, text, env=None, rare=0.1):
        for ep in CLVM_EPS:
            self.add(ep, stream, text, env if env is not None else rng.choice(ENVS))
        for ep in CLVM_EPS_RARE:
            if rng.random() < rare:
                self.add(ep, stream, text, env if env is not None else rng.choice(ENVS))

    def raw_bytes(self, rng, stream, b):
        for ep in BYTE_EPS:
            self.add(ep, stream, b)
        h = b.hex().encode()
        for ep in HEXTEXT_EPS:
            self.add(ep, stream, h, rng.choice(["80", "ff0180", "01", ""]))


def repl_lines(rng, text):
    """a text as REPL input: its lines; a one-line text is sometimes cut at a token boundary so
    that the multi-line accumulation (`depth > 0`) is exercised"""
    t = text.replace(b"\r", b" ")
    parts = [x for x in t.split(b"\n")]
    if len(parts) == 1 and len(t) > 6 and rng.random() < 0.5:
        toks = c15.tokens_of(t)
        if len(toks) > 2:
            cut = rng.choice(toks[1:])[0]
            parts = [t[:cut], t[cut:]]
    return parts[:40]


def repl_sessions(rng, progs, n):
    """helper forms of generated programs typed one per line (some broken over two lines), then
    the main expression; plus lines with parentheses inside strings / comments"""
    out = []
    for text, _, _ in progs[:n]:
        toks = c15.tokens_of(text)
        # top-level forms of `(mod args f1 f2 … body)`: split at depth 1
        depth = 0
        forms, start = [], None
        for a, b in toks:
            tk = text[a:b]
            if tk == b"(":
                depth += 1
                if depth == 2 and start is None:
                    start = a
            elif tk == b")":
                depth -= 1
                if depth == 1 and start is not None:
                    forms.append(text[start:b])
                    start = None
            elif depth == 1 and start is None and forms:
                forms.append(tk)
        lines = [f.replace(b"\n", b" ") for f in forms[1:] if not f.startswith(b"(include")]
        if lines:
            out.append(lines)
    return out


REPL_SPECIAL = [
    [b")"], [b"(list \")\")"], [b"(list \"(\")", b")"], [b"(+ 1 2) ; :-)"], [b"(c 1 ; (((", b"2)"], [b"\"(\""], [b"\")\""],
    [b"(defun f (x) (+ x 1))", b"(f 3)"], [b"(defun f (x)", b"(+ x 1))", b"(f 3)"], [b"(defun)"], [b"(defun f)"],
    [b"(defconstant)"], [b"(defmacro)"], [b"(defun-inline)"], [b"(defun . f)"], [b"(defun f . g)"], [b"()"], [b""],
    [b"   "], [b"))"], [b"(", b"(", b")", b")", b")"], [b"(defun f (x) (f x))", b"(f 1)"], [b"(a 1 2"], [b"1 2 3"],
    [b"(q . 1) (q . 2)"], [b"(defconstant X 1) (defconstant Y 2)"], [b"(defun f (x) x)", b"(f)"], [b"(x)"], [b"(x 1)"],
    [b"(mod (X) X)"], [b"(lambda (X) X)"], [b"(let ((A 1)) A)"], [b"'a')"], [b"(list ')')"], [b"; )"], [b"(+ 1 ; )", b")"],
    [b"(defmacro m (A) (qq (+ 1 (unquote A))))", b"(m 3)"], [b"(include *standard-cl-23*)"], [b"(include good.clinc)"],
    [b"(embed-file foo bin data.bin)"], [b"(defun \"f\" (x) x)"], [b"(defun 1 (x) x)"], [b"(defun (f) (x) x)"],
]


# ----------------------------------------------------------------------------------------
# signatures
# ----------------------------------------------------------------------------------------

_fn_cache = {}


def norm_path(p):
    if p.startswith(REPO.rstrip("/") + "/"):
        return p[len(REPO.rstrip("/")) + 1:]
    m = re.search(r"/registry/src/[^/]+/(.*)$", p)
    if m:
        return "dep:" + m.group(1)
    m = re.search(r"/rustc/[0-9a-f]+/(.*)$", p)
    if m:
        return "std:" + m.group(1)
    return p


def enclosing_fn(path, line):
    key = (path, line)
    if key in _fn_cache:
        return _fn_cache[key]
    name = "?"
    try:
        src = open(path, encoding="utf-8", errors="replace").read().split("\n")
        for k in range(min(line, len(src)) - 1, -1, -1):
            m = re.match(r"\s*(?:pub(?:\([a-z]+\))?\s+)?(?:const\s+|async\s+|unsafe\s+)*fn\s+([A-Za-z0-9_]+)", src[k])
            if m:
                name = m.group(1)
                break
    except OSError:
        pass
    _fn_cache[key] = name
    return name


def include_cycle(text):
    """does the text reach (through the work directory's files) a file that includes itself?"""
    seen = set()
    todo = [text]
    while todo:
        t = todo.pop()
        for n in WORK_FILES:
            if n.endswith(".clinc") and n.encode() in t and n not in seen:
                seen.add(n)
                todo.append(WORK_FILES[n])
    return bool(seen & CYCLIC)


_syms = None


def symbol_at(addr):
    """function of the harness binary containing the (load-address relative) address"""
    global _syms
    if _syms is None:
        rc, out = lib.sh(["nm", "-C", "--defined-only", "-n", lib.CVH])
        tab = []
        for l in out.split("\n"):
            f = l.split(" ", 2)
            if len(f) == 3 and f[1] in "tTwW":
                try:
                    tab.append((int(f[0], 16), f[2]))
                except ValueError:
                    pass
        _syms = ([a for a, _ in tab], [n for _, n in tab])
    i = bisect.bisect_right(_syms[0], addr) - 1
    return _syms[1][i] if i >= 0 else "?"


OVERFLOW_CLASSES = [
    # (class, marker: a function name occurring anywhere among the top frames)
    ("optimize-expr-codegen-recursion", ("optimize::optimize_expr", "codegen::codegen")),
    ("include-recursion", "Preprocessor::recurse_dependencies"),
    ("macro-expansion-recursion", "Preprocessor::expand_macros"),
    ("evaluator-recursion", "compiler::evaluate::"),
    ("codegen-recursion", "compiler::codegen::"),
    ("optimizer-recursion", "compiler::optimize::"),
]


def overflow_site(o):
    """the recursion that overflowed the stack, from the top return addresses the harness's SIGSEGV
    handler wrote: a class by marker function where one of the known recursions is on the stack
    (stable across inputs), else the library functions that dominate the top frames"""
    names = {}
    for h in o.split()[1:]:
        try:
            n = symbol_at(int(h, 16))
        except ValueError:
            continue
        n = re.sub(r"::h[0-9a-f]{16}$", "", n)
        n = re.sub(r"<[^<>]*>", "", re.sub(r"<[^<>]*>", "", n))
        if "chialisp::" in n or "clvmr::" in n:
            names[n] = names.get(n, 0) + 1
    if not names:
        return "?"
    for cls, marker in OVERFLOW_CLASSES:
        markers = marker if isinstance(marker, tuple) else (marker,)
        if all(any(m in n for n in names) for m in markers):
            return cls
    total = sum(names.values())
    cyc = sorted(n for n, c in names.items() if 5 * c >= total)
    if not cyc:
        best = max(names.values())
        cyc = sorted(n for n, c in names.items() if c == best)[:1]
    return "+".join("::".join(n.split("::")[-2:]) for n in cyc)


def crash_sig(ep, data, o):
    """signature of a crashing outcome, or None"""
    fam = FAMILY.get(ep, ep)
    if o.startswith("panic"):
        f = o.split()
        loc = f[1] if len(f) > 1 else "?:0"
        path, _, line = loc.rpartition(":")
        fn = enclosing_fn(path, int(line)) if line.isdigit() else "?"
        try:
            msg = bytes.fromhex(f[2]).decode("utf-8", "replace") if len(f) > 2 else ""
        except ValueError:
            msg = ""
        # the first words of the message, numbers abstracted: two panics of one function differ here
        words = re.sub(r"[0-9]+", "N", re.sub(r"[^A-Za-z0-9 ]+", " ", msg)).split()[:5]
        return f"crash:panic:{norm_path(path)}:{fn}:{'-'.join(words)}"
    blob = b" ".join(data) if isinstance(data, list) else data
    if o.startswith("segv"):
        return f"crash:stack-overflow:{overflow_site(o)}"
    cls = ("include-cycle" if include_cycle(blob) else
           "defmac" if b"(defmac " in blob else
           "apply-form" if fam in ("repl", "unused") and b"(a " in blob else "other")
    if o == "abort rc=124" or o == "timeout":
        return f"crash:timeout:{fam}:{cls}"
    if o.startswith("abort") or o == "missing":
        return f"crash:abort:{fam}:{cls}"
    return None


def outcome_kind(ep, o):
    if o.startswith("panic"):
        return "panic"
    if o == "abort rc=124" or o == "timeout":
        return "timeout"
    if o.startswith("segv"):
        return "stack-overflow"
    if o.startswith("abort") or o == "missing":
        return "abort"
    h = o.split(" ", 1)[0]
    if h == "out":
        t = bytes.fromhex(o.split()[1]) if len(o.split()) > 1 else b""
        return "out:FAIL" if t.startswith(b"FAIL") else ("out:located-error" if re.match(rb"^[^ ]+\(\d+\):\d+", t) else "out")
    return h


# ----------------------------------------------------------------------------------------
# location oracle (modern compiler errors)
# ----------------------------------------------------------------------------------------

class LocOracle:
    def __init__(self, chk, workdir, pseudo):
        self.chk = chk
        self.workdir = workdir
        self.pseudo = pseudo
        self.files = {}
        self.nfail = {}

    def file_text(self, name):
        if name not in self.files:
            p = os.path.join(self.workdir, os.path.basename(name))
            try:
                self.files[name] = open(p, "rb").read()
            except OSError:
                self.files[name] = None
        return self.files[name]

    def mentioned(self, base, src):
        """is `base` named by the source or by an available file the source (transitively) names?"""
        seen, todo = set(), [src]
        while todo:
            t = todo.pop()
            if base.encode() in t:
                return True
            for m in re.finditer(rb"[A-Za-z0-9_.*+-]+\.(?:clinc|clib|clvm|clsp)", t):
                n = m.group(0).decode()
                if n not in seen:
                    seen.add(n)
                    b = self.file_text(n)
                    if b is not None:
                        todo.append(b)
        return False

    def fail(self, sig, case, detail):
        self.nfail[sig] = self.nfail.get(sig, 0) + 1
        if self.nfail[sig] <= 3:
            self.chk.fail("oracle", sig, case, detail)

    def check(self, case, src, input_names, fname, loc, msg):
        """loc = (line, col, until|None)"""
        chk = self.chk
        base = os.path.basename(fname)
        if fname in input_names:
            texts = [src]
            chk.count("errloc-file:input")
        elif fname in self.pseudo:
            texts = self.pseudo[fname]
            chk.count("errloc-file:" + fname)
        elif fname in TEXTLESS_PSEUDO:
            chk.count("errloc-file:" + fname)
            if loc != (1, 1, None):
                self.fail("cerr:pseudo-file-position", case, f"{fname} {loc} {msg[:80]}")
            return
        elif fname in (base, "./" + base, os.path.join(self.workdir, base)) and self.file_text(base) is not None \
                and self.mentioned(base, src):
            texts = [self.file_text(base)]
            chk.count("errloc-file:include")
        else:
            self.fail("cerr:unknown-file", case,
                      f"error names {fname!r}: neither the input, an available include the input names, nor a built-in pseudo-file: {msg[:80]}")
            return
        if in_bounds(texts, loc):
            return
        if loc == (1, 1, None) and any(len(tx) == 0 for tx in texts):
            self.chk.count("errloc:start-of-empty-text")      # nothing lies within an empty text
            return
        self.fail(oob_sig(texts, loc), case, f"{fname} {loc} is not a byte range of that text: {msg[:80]}")


def in_bounds(texts, loc):
    for tx in texts:
        sp = c15.Coords(tx).span((0,) + loc)
        if sp is not None and 0 <= sp[0] < sp[1] <= len(tx):
            return True
    return False


def oob_sig(texts, loc):
    """`cerr:call-until-past-eol`: the start is a position of the text and `until` lies k columns
    (1 <= k <= 64) past a position of its line — the overshoot of `compile_bodyform`'s
    `l.ext(&last_arg.loc().ending())`, one column per call-nesting level; anything else is
    `cerr:out-of-bounds`."""
    line, col, until = loc
    if until is not None:
        for k in range(1, 65):
            if until[1] - k < 1:
                break
            if in_bounds(texts, (line, col, (until[0], until[1] - k))):
                return "cerr:call-until-past-eol"
    return "cerr:out-of-bounds"


def parse_err_fields(f):
    """`<hex file> <line>,<col>,<until> <hex msg>` -> (file, (line, col, until), msg)"""
    fname = bytes.fromhex(f[0]).decode("utf-8", "replace")
    lc = f[1].split(",")
    loc = (int(lc[0]), int(lc[1]), None if lc[2] == "-" else (int(lc[2]), int(lc[3])))
    msg = bytes.fromhex(f[2]).decode("utf-8", "replace") if len(f) > 2 else ""
    return fname, loc, msg


# ----------------------------------------------------------------------------------------
# running
# ----------------------------------------------------------------------------------------

def _chunk(cmd, lines, timeout):
    """`lib._run_chunk` (restart after the line that killed the process; bisect on a chunk timeout),
    plus: a `segv …` line written by the harness's SIGSEGV handler IS the output of the case that
    overflowed the stack — the process is gone after it, the rest of the chunk is rerun."""
    if not lines:
        return []
    inp = "\n".join(lines) + "\n"
    try:
        p = subprocess.run(cmd, input=inp, stdout=subprocess.PIPE, stderr=subprocess.DEVNULL, text=True, timeout=timeout)
    except subprocess.TimeoutExpired:
        if len(lines) == 1:
            return ["timeout"]
        mid = len(lines) // 2
        return _chunk(cmd, lines[:mid], timeout) + _chunk(cmd, lines[mid:], timeout)
    out = p.stdout.split("\n")
    if out and out[-1] == "":
        out.pop()
    if len(out) >= len(lines):
        return out[:len(lines)]
    if out and out[-1].startswith("segv"):
        return out + _chunk(cmd, lines[len(out):], timeout)
    res = out + [f"abort rc={p.returncode}"]
    return res + _chunk(cmd, lines[len(res):], timeout)


def run_crash(lines, workdir, limit_ms, timeout, retry=False, noretry=()):
    """-> (outputs, cost of each case in CPU microseconds)"""
    cmd = [lib.CVH, "crash", workdir, str(limit_ms)]
    n = len(lines)
    if n == 0:
        return [], []
    jobs = max(1, min(lib.NCPU, (n + 39) // 40))
    size = (n + jobs * 4 - 1) // (jobs * 4)          # 4 chunks per worker: evens out slow chunks
    chunks = [lines[i:i + size] for i in range(0, n, size)]
    with ThreadPoolExecutor(max_workers=jobs) as ex:
        parts = list(ex.map(lambda c: _chunk(cmd, c, timeout), chunks))
    res = [o for part in parts for o in part]
    res += ["missing"] * (n - len(res))
    # a case that hit the CPU limit is run again, alone, with six times the limit: what looks like a
    # hang at 30 s is often a slow recursion about to overflow the stack (or just a busy machine); the
    # second outcome is the one that is judged and that names the signature
    slow = [i for i, o in enumerate(res) if o in ("abort rc=124", "timeout") and not retry and i not in noretry]
    if slow:
        again, _ = run_crash([lines[i] for i in slow], workdir, limit_ms * 3, timeout * 3, retry=True)
        for i, o in zip(slow, again):
            res[i] = o if o not in ("missing",) else res[i]
    outs, cost = [], []
    for o in res:
        m = re.search(r" @(\d+)$", o)
        if m:
            outs.append(o[:m.start()])
            cost.append(int(m.group(1)))
        else:
            outs.append(o)
            cost.append(limit_ms * 1000 if o == "abort rc=124" else 0)
    return outs, cost


def run_shuffled(rng, cs, workdir, limit_ms, timeout):
    order = list(range(len(cs.lines)))
    rng.shuffle(order)                      # spread the slow inputs over the worker processes
    # the hand-written divergence witnesses (stream hand-loop) are known to run into the limit: no second run
    noretry = {k for k, i in enumerate(order) if cs.meta[i][1] == "hand-loop"}
    o_sh, c_sh = run_crash([cs.lines[i] for i in order], workdir, limit_ms, timeout, noretry=noretry)
    outs = [None] * len(order)
    cost = [0] * len(order)
    for i, o, c in zip(order, o_sh, c_sh):
        outs[i] = o
        cost[i] = c
    return outs, cost


def judge(chk, cases, outs, loc):
    reported = {}
    for line, (ep, stream, data), o in zip(cases.lines, cases.meta, outs):
        chk.note_case(line)
        kind = outcome_kind(ep, o)
        chk.count(f"{ep}|{stream.split(':')[0]}|{kind}")
        chk.count(f"outcome:{kind}")
        case = {"sub": "crash", "line": line if len(line) < 6000 else line[:6000], "stream": stream}
        if isinstance(data, list):
            case["text"] = [x.decode("latin-1")[:200] for x in data][:12]
        else:
            case["text"] = data[:400].decode("latin-1")
        sig = crash_sig(ep, data, o)
        if sig is not None:
            reported[sig] = reported.get(sig, 0) + 1
            chk.count("crash-sig:" + sig)
            ex = chk.cov.setdefault("crash_examples", {})
            if sig not in ex or len(line) < len(ex[sig]["line"]):
                ex[sig] = {"line": line[:1500], "text": case["text"] if isinstance(case["text"], list) else case["text"][:300]}
            if reported[sig] <= 3:
                detail = o
                if o.startswith("segv"):
                    detail = "stack overflow; top frames: " + " <- ".join(
                        re.sub(r"::h[0-9a-f]{16}$", "", symbol_at(int(h, 16))) for h in o.split()[3:15])
                if o.startswith("panic") and len(o.split()) > 2:
                    try:
                        detail = o.split()[1] + " " + bytes.fromhex(o.split()[2]).decode("utf-8", "replace")
                    except ValueError:
                        pass
                chk.fail("oracle", sig, case, detail)
            continue
        if o == "bad-input" or o == "":
            chk.fail("correspondence", "c14:bad-protocol", case, o)
            continue
        # located errors
        try:
            if ep == "cf" and o.startswith("err "):
                fname, l, msg = parse_err_fields(o.split()[1:])
                loc.check(case, data, {INPUT_NAME}, fname, l, msg)
            elif ep == "unused" and o.startswith("err "):
                fname, l, msg = parse_err_fields(o.split(" | ")[0].split()[1:])
                loc.check(case, data, {INPUT_NAME}, fname, l, msg)
            elif ep == "dep" and o.startswith("err "):
                fname, l, msg = parse_err_fields(o.split(" | ")[0].split()[1:])
                names = {fname} if re.search(r"/case-\d+\.clsp$", fname) else set()
                loc.check(case, data, names, fname, l, msg)
            elif ep == "repl" and o.startswith("err "):
                # the REPL parses "\n" + the accumulated lines joined by "\n"
                for part in o[4:].split(" | "):
                    f = part.split()
                    idx = int(f[0])
                    fname, l, msg = parse_err_fields(f[1:])
                    # the text the error can refer to: the lines accumulated up to that line
                    texts = []
                    for st in range(idx, -1, -1):
                        texts.append(b"\n" + b"\n".join(data[st:idx + 1]))
                    if fname == "*repl*":
                        chk.count("errloc-file:*repl*")
                        if not in_bounds(texts, l):
                            loc.fail(oob_sig(texts, l), case, f"{fname} {l}: not a byte range of the accumulated input: {msg[:80]}")
                    else:
                        loc.check(case, texts[-1], set(), fname, l, msg)
        except (ValueError, IndexError) as e:
            chk.fail("correspondence", "c14:bad-protocol", case, f"{o[:200]} ({e})")


def model_agreement(chk, rng, quick, texts_src, texts_bytes):
    """modelled front ends: the model predicts ok/err, the implementation must match"""
    # classic assembler (IR reader + assemble_from_ir)
    alines = []
    for t in texts_src:
        if is_utf8(t):
            alines.append("a " + t.hex())
    alines = sorted(set(alines))
    for l in alines:
        chk.note_case(l)

    def asig(l, a, b):
        return ("crash:asm:" + b.split()[0]) if c14_reader.is_crash(b) else "corr:c14-assembler"
    mo, io = lib.correspond(chk, "text", alines, label="c14-assembler", sig=asig, timeout=1200)
    for l, a, o in zip(alines, mo, io):
        chk.count("assembler-outcome:" + ("ok" if o.startswith("ok") else o.split()[0][:24]))
        if c14_reader.is_crash(o):
            chk.fail("oracle", "crash:asm:" + o.split()[0], {"sub": "text", "line": l}, o)
        if a == "err:fuel":
            chk.fail("correspondence", "c14:assembler-model-fuel", {"sub": "text", "line": l}, "the model ran out of fuel (contradicts C14.assembler_total)")
    # classic deserialiser
    dlines = sorted(set("d x" + b.hex() for b in texts_bytes if len(b) < 4000))
    for l in dlines:
        chk.note_case(l)

    def drop_tag(s):
        f = s.split()
        return " ".join(f[:3])

    def dsig(l, a, b):
        return ("crash:deserialise:" + b.split()[0]) if c14_reader.is_crash(b) else "corr:c14-deserialiser"
    mo, io = lib.correspond(chk, "serde", dlines, norm_model=drop_tag, norm_impl=drop_tag, label="c14-deserialiser", sig=dsig, timeout=1200)
    for l, o in zip(dlines, io):
        chk.count("deserialiser-outcome:" + o.split()[0][:12].split(":")[0])
        if c14_reader.is_crash(o):
            chk.fail("oracle", "crash:deserialise:" + o.split()[0], {"sub": "serde", "line": l}, o)


SRC_ROT = SRC_EPS + ["repl"]


class Rot:
    """rotating choice of entry points, so that every entry point sees every stream"""
    def __init__(self):
        self.k = 0

    def next(self, eps=SRC_ROT):
        self.k += 1
        return eps[self.k % len(eps)]


def add_rot(cs, rng, rot, stream, text, env=None, n=2):
    for _ in range(n):
        ep = rot.next()
        if ep == "repl":
            cs.add("repl", stream, repl_lines(rng, text))
        else:
            cs.add(ep, stream, text, env)


def phase_a(chk, workdir):
    """everything that does not depend on measured costs"""
    rng = chk.rng
    quick = chk.tier == "quick"
    cs = Cases(chk)
    src_texts = []          # for the assembler model
    byte_texts = []         # for the deserialiser model
    rot = Rot()

    # --- (1) token soup over keywords and delimiters
    for _ in range(500 if quick else 5000):
        t = soup_free(rng)
        cs.source(rng, "soup-free", t)
        cs.clvm_text(rng, "soup-free", t, rare=0.05)
        src_texts.append(t)
    for _ in range(900 if quick else 9000):
        t = soup_mod(rng)
        cs.source(rng, "soup-mod", t)
        src_texts.append(t)
    for _ in range(350 if quick else 3500):
        t = soup_form(rng, 3)
        cs.source(rng, "soup-form", t)
        cs.clvm_text(rng, "soup-form", t, rare=0.05)
        cs.add("repl", "soup-form", [soup_form(rng, 2) for _ in range(rng.randrange(1, 4))])
        src_texts.append(t)

    # --- (2a) valid programs of both generators (all seven dialects) and shipped sources
    progs = generator_programs(rng, 4 if quick else 10)
    chk.cov["generator_programs"] = len(progs)
    for text, origin, env in progs:
        cs.add("cf" if b"(include *" in text else "ct", "probe:" + origin, text, env)
    ship = shipped_programs(1500 if quick else 8000)
    rng.shuffle(ship)
    ship = ship[: (40 if quick else 150)]
    chk.cov["shipped_sources_used"] = len(ship)
    for b, name in ship:
        cs.add("cf" if b"(include *" in b else "ct", "probe:shipped", b)

    # --- (4) classic CLVM texts and serialised programs: valid, mutated, truncated
    for _ in range(40 if quick else 400):
        p = gen.rand_prog(rng, depth=rng.choice([2, 3, 4]))
        e = gen.rand_env(rng)
        t = gen.show(p).encode()
        et = gen.show(e)
        cs.clvm_text(rng, "valid:clvm", t, et, rare=1.0)
        ser = gen.ser(p)
        cs.raw_bytes(rng, "valid:clvm-bytes", ser)
        byte_texts.append(ser)
        for m, kind in single_token_mutants(rng, t, far_swaps=2):
            ep = rot.next(CLVM_EPS + CLVM_EPS_RARE)
            cs.add(ep, "mut-clvm-" + kind, m, et)
            cs.add("asm", "mut-clvm-" + kind, m)
            src_texts.append(m)
        for cut in range(len(ser)):
            cs.add(rot.next(BYTE_EPS), "trunc-bytes", ser[:cut])
            cs.add(rot.next(HEXTEXT_EPS), "trunc-bytes", ser[:cut].hex().encode(), "80")
            cs.add("des", "trunc-bytes", ser[:cut])
            byte_texts.append(ser[:cut])
        for _ in range(6):
            bb = bytearray(ser)
            if bb:
                bb[rng.randrange(len(bb))] = rng.choice([0xff, 0x80, 0xc0, 0xe0, 0xf0, 0xf8, 0xfc, 0xfe, 0x00, rng.randrange(256)])
            cs.raw_bytes(rng, "mut-bytes", bytes(bb))
            byte_texts.append(bytes(bb))

    # --- (5) random bytes
    for _ in range(500 if quick else 6000):
        b = bytes(rng.randrange(256) for _ in range(rng.choice([1, 2, 3, 5, 8, 13, 40, 120])))
        cs.raw_bytes(rng, "random-bytes", b)
        byte_texts.append(b)
        # as text where they are text (lossy), through the source entry points
        t = b.decode("utf-8", "replace").encode()
        add_rot(cs, rng, rot, "random-bytes", t, None, 2)
        cs.add("asm", "random-bytes", t)
        if rng.random() < 0.3:
            # non-ASCII text with tabs / line breaks (column arithmetic vs char boundaries)
            t2 = "".join(rng.choice(["é", "€", "\t", " ", "a", "(", ")", "\n", "ü", "�", "1", "x"]) for _ in range(rng.randrange(2, 24))).encode()
            for ep in ("cldb", "run", "cf", "repl", "brun"):
                if ep == "repl":
                    cs.add("repl", "random-text", repl_lines(rng, t2))
                else:
                    cs.add(ep, "random-text", t2, "()")
        src_texts.append(t)
    for _ in range(150 if quick else 3000):
        # size prefixes with every leading-ones class
        pre = bytes([rng.choice([0x80, 0xbf, 0xc0, 0xdf, 0xe0, 0xef, 0xf0, 0xf7, 0xf8, 0xfb, 0xfc, 0xfd, 0xfe, 0xff])])
        b = pre + bytes(rng.randrange(256) for _ in range(rng.randrange(0, 9)))
        cs.raw_bytes(rng, "size-prefix", b)
        byte_texts.append(b)
    for t in [b"zz", b"0x", b"f", b"ff", b"FF0180", b"ff 01 80", b"0xff0180", b"ff0180\n", b" ", b"-", b"--", b"-x", b"-h"]:
        for ep in HEXTEXT_EPS + ["run", "brun", "cldb", "opc"]:
            cs.add(ep, "cli-oddities", t, "80")

    # --- (6) nesting up to 200
    for d in (1, 2, 10, 50, 100, 150, 199, 200):
        for inner in (b"a", b"", b"1", b"\"s", b"q . 1", b"mod (X) X", b"include good.clinc"):
            for t in (b"(" * d + inner + b")" * d, b"(" * d + inner, b"(" * d + inner + b")" * (d + 1),
                      b"(a . " * d + b"b" + b")" * d):
                if quick and d in (2, 50, 150, 199):
                    add_rot(cs, rng, rot, "nesting", t, None, 3)
                else:
                    cs.source(rng, "nesting", t, rare=0.3)
                cs.clvm_text(rng, "nesting", t, rare=0.3)
                src_texts.append(t)
        for t in (b"(mod (X) " + b"(c 1 " * d + b"X" + b")" * d + b")",
                  b"(mod (X) (include *standard-cl-23*) " + b"(c 1 " * d + b"X" + b")" * d + b")",
                  b"(mod (X) (include *standard-cl-21*) " + b"(list " * d + b"X" + b")" * d + b")",
                  b"(mod " + b"(" * d + b"X" + b")" * d + b" X)"):
            if d <= 100 or not quick:
                cs.source(rng, "nesting", t, rare=0.3)
            else:
                add_rot(cs, rng, rot, "nesting", t, None, 3)
        v = b""
        for _ in range(d):
            v = (v, b"")
        ser = gen.ser(v)
        cs.raw_bytes(rng, "nesting", ser)
        cs.raw_bytes(rng, "nesting", ser[:-1])
        byte_texts.append(ser)
        ser2 = b"\xff" * d + b"\x80" * (d + 1)
        cs.raw_bytes(rng, "nesting", ser2)
        byte_texts.append(ser2)

    # --- (7) REPL sessions
    for s in REPL_SPECIAL:
        cs.add("repl", "repl-special", s)
    sessions = repl_sessions(rng, [p for p in progs if p[1].endswith(("cl21", "classic"))] + progs, 12 if quick else 150)
    for s in sessions:
        cs.add("repl", "valid:repl-session", s)
        for i, ln in enumerate(s):
            for m, kind in single_token_mutants(rng, ln, far_swaps=1)[:: (4 if quick else 1)]:
                s2 = list(s)
                s2[i] = m
                cs.add("repl", "mut-repl-" + kind, s2)
            if len(ln) > 8:
                toks = c15.tokens_of(ln)
                cut = rng.choice(toks)[0]
                cs.add("repl", "repl-split", s[:i] + [ln[:cut], ln[cut:]] + s[i + 1:])
    for _ in range(300 if quick else 4000):
        n = rng.randrange(1, 5)
        cs.add("repl", "soup-repl", [b" ".join(rng.choice(KEYWORDS) for _ in range(rng.randrange(1, 8))) for _ in range(n)])

    # --- (8) hand-picked shapes around includes / embeds under every dialect
    for sig in SIGILS[1:]:
        for helpers, body in c15.BAD_BODIES + [
                ("(include empty.clinc)", "X"), ("(include blank.clinc)", "X"), ("(include atom.clinc)", "X"),
                ("(include self.clinc)", "X"), ("(include cyc-a.clinc)", "X"), ("(include nest1.clinc)", "(n1 X)"),
                ("(embed-file foo hex bad.hex)", "foo"), ("(embed-file foo hex trunc.hex)", "foo"),
                ("(embed-file foo hex odd.hex)", "foo"), ("(embed-file foo hex data.hex)", "foo"),
                ("(embed-file foo sexp two.sexp)", "foo"), ("(embed-file foo sexp none.sexp)", "foo"),
                ("(embed-file foo sexp bad.sexp)", "foo"), ("(embed-file foo sexp data.sexp)", "foo"),
                ("(embed-file foo bin data.bin)", "foo"), ("(embed-file foo bin)", "foo"), ("(embed-file foo)", "foo"),
                ("(embed-file)", "X"), ("(embed-file 1 2 3)", "X"), ("(include 1)", "X"), ("(include (a))", "X"),
                ("(include \"good.clinc\" extra)", "X"), ("(include . good.clinc)", "X"),
                ("", "(mod)"), ("", "(com)"), ("", "(a)"), ("", "(a X)"), ("", "(a X X X)"), ("", "(i)"), ("", "(c)"),
                ("", "(@)"), ("", "(q)"), ("", "(lambda)"), ("", "(opt)"), ("", "(mod . X)"), ("", "(mod X)")]:
            src = f"(mod (X) (include {sig}) {helpers} {body})".encode()
            if quick:
                add_rot(cs, rng, rot, "hand", src, None, 3)
            else:
                cs.source(rng, "hand", src, rare=0.2)
    # --- (9) compile-time evaluation: loops that the iteration limits must cut, and the witnesses of
    # the known findings (so that each is reproduced on every run)
    LOOP = "(a (q . (2 2 (4 2 ()))) (c (q . (2 2 (4 2 ()))) ()))"
    for src, eps in [
            # (with `optimize` on, stepping-21 macros run under clvmr until "too many pairs": 15-20 s CPU)
            (f"(mod (X) (include *standard-cl-21*) (defmacro m () {LOOP}) (m))", ("run", "cldb", "pre") if quick else ("cf", "run", "cldb", "pre")),
            (f"(mod (X) (include *strict-cl-21*) (defmacro m () {LOOP}) (m))", ("run",) if quick else ("cf", "run")),
            (f"(mod (X) (include *standard-cl-22*) (defmacro m () {LOOP}) (m))", ("cf",)),
            (f"(mod (X) (include *standard-cl-23*) (defconst K {LOOP}) K)", ("cf", "run") if quick else ("cf", "run", "unused")),
            (f"(mod (X) (include *standard-cl-24*) (defconst K {LOOP}) K)", ("cf",)),
            (f"(mod (X) (include *standard-cl-23*) (defun spin (A) (spin A)) (defconst K (spin 1)) K)", ("cf", "run")),
            (f"(mod (X) (include *standard-cl-23*) (defun-inline spin (A) (spin A)) (spin X))", ("cf", "run", "unused")),
            ("(mod (X) (include *standard-cl-23*) (defun spin (A) (spin A)) (defmac m (A) (spin A)) (m X))", ("cf",)),
            ("(mod (X) (include *standard-cl-23*) (defmac m (A) (qq (m (unquote A)))) (m X))", ("cf", "pre")),
            ("(mod 1 (defun rec_20 () (if A22 (rec_20 (r )) 1)) (rec_20 ))", ("unused",)),
            ("(mod (include *standard-cl-23*) (defun fn_3 1) (defun fn_10 1 (fn_3)) fn_10)", ("cldb", "cf", "run")),
            ("(defun f (x) (f x))", ("repl",)),
            # a constant call that fails at compile time inside a let body (cl23+): optimize_expr <-> codegen recursion
            ("(mod (X2) (include *standard-cl-23*) (defun fn_5 (A6) (x A6)) (let ((V15 X2)) (fn_5 1)))", ("cf",)),
    ]:
        for ep in eps:
            if ep == "repl":
                cs.add("repl", "hand-loop", repl_lines(rng, src.encode()))
            else:
                cs.add(ep, "hand-loop", src.encode(), "()")
    cs.add("cldb", "hand", "\ufffd\ufffd\ufffd\ufffd\u00e9a\taaaaa\ufffd".encode(), "()")
    cs.add("repl", "hand", [b"(defun (deftype 1 1))"])
    cs.add("repl", "hand", [b"(foo bar (baz qux", b"))"])          # call location one column past the end of line 2
    cs.add("repl", "hand-loop", [b"(a -1 X Y)"])                   # evaluator diverges (memory grows)
    for sig in ("*strict-cl-21*", "*standard-cl-23*"):
        for body in ('(defun pti (X) (if (not (number? )) (x "no" X) X)) (defmac m (X) (pti X)) (m 3)',
                     '(defmac m (X) (substring "abc" 1)) (m 3)', '(defmac m (X) (string-append)) (m 3)',
                     '(defmac m (X) (string->symbol)) (m 3)', '(defmac m (X) (number->string)) (m 3)',
                     '(defmac m (X) (string-length)) (m 3)', '(defmac m (X) (symbol? )) (m 3)'):
            for ep in ("cf", "pre"):
                cs.add(ep, "hand", f"(mod (X) (include {sig}) {body})".encode())
    return cs, src_texts, byte_texts, progs, ship


def phase_b(chk, workdir, progs, ship, probe_cost):
    """valid programs through every entry point; mutants and truncations of them, as many as a
    per-program CPU budget allows (`probe_cost`: measured cost of one compile of each text)"""
    rng = chk.rng
    quick = chk.tier == "quick"
    cs = Cases(chk)
    src_texts = []
    rot = Rot()
    slow_us = 400000 if quick else 3000000
    budget_us = (6 if quick else 15) * 1000000          # per base program, for its mutants
    stats = {"bases": 0, "exhaustive-all-entry-points": 0, "exhaustive-2-entry-points": 0, "sampled": 0,
             "skipped-slow": 0}
    bases = []
    for text, origin, env in progs:
        c = probe_cost.get(text, 0)
        if c > slow_us:
            stats["skipped-slow"] += 1
            cs.add("cf", "valid:" + origin, text, env)
            continue
        cs.source(rng, "valid:" + origin, text, env, rare=1.0)
        bases.append((text, "gen", env, max(c, 3000)))
    for b, name in ship:
        c = probe_cost.get(b, 0)
        if c > slow_us:
            stats["skipped-slow"] += 1
            continue
        cs.source(rng, "valid:shipped", b, None, rare=0.3)
        bases.append((b, "shipped", None, max(c, 3000)))
    # per dialect and generator the cheaper half carries the exhaustive mutation
    for text, kind, env, c in bases:
        stats["bases"] += 1
        muts = single_token_mutants(rng, text, far_swaps=6)
        # a mutant usually fails earlier than the valid program compiles: the probe cost is an upper estimate;
        # the REPL and the tools add a fixed cost per case
        per_case = c + 12000
        allowed = int(budget_us / per_case)
        if allowed >= len(muts) * len(SRC_ROT):
            stats["exhaustive-all-entry-points"] += 1
            for m, k in muts:
                cs.source(rng, f"mut-{kind}-{k}", m, env)
                src_texts.append(m)
        elif allowed >= len(muts) * 2:
            stats["exhaustive-2-entry-points"] += 1
            for m, k in muts:
                add_rot(cs, rng, rot, f"mut-{kind}-{k}", m, env, 2)
                src_texts.append(m)
        else:
            stats["sampled"] += 1
            for m, k in rng.sample(muts, max(1, min(len(muts), allowed // 2))):
                add_rot(cs, rng, rot, f"mut-{kind}-{k}", m, env, 2)
                src_texts.append(m)
    # --- (3) truncation at every byte offset (a truncated text fails in the reader: cheap)
    tr = [b for b in bases if len(b[0]) < (700 if quick else 3000)]
    rng.shuffle(tr)
    for text, kind, env, c in tr[: (8 if quick else 40)]:
        for cut in range(len(text)):
            add_rot(cs, rng, rot, f"trunc-{kind}", text[:cut], env, 1 if quick else 2)
            if cut % 7 == 0:
                src_texts.append(text[:cut])
    chk.cov["mutation_bases"] = stats
    return cs, src_texts


def repl_correspondence(chk, sessions, workdir, limit):
    """`modeld replline` (Sys/ReplLine.lean) predicts per typed line: panic / reader error with
    location / more input awaited / n forms handed on; the real REPL must do the same."""
    seen, lines = set(), []
    for s in sessions:
        l = " ".join(hx(x) for x in s)
        if l not in seen:
            seen.add(l)
            lines.append(l)
    mo = lib.run_model("replline", lines, timeout=1200)
    io, _ = run_crash(["replt " + l for l in lines], workdir, min(limit, 10000), 1500, retry=True)   # (crashes/hangs were judged above)
    nbad = 0
    for l, a, b in zip(lines, mo, io):
        chk.note_case("replt " + l)
        case = {"sub": "replline", "line": l}
        if not b.startswith("trace"):
            sig = crash_sig("repl", [bytes.fromhex(h) if h != "-" else b"" for h in l.split()], b)
            if sig is None:
                chk.fail("correspondence", "corr:c14-replline", case, {"model": a[:300], "impl": b[:300]})
            # (a crash of another kind is reported by the `repl` entry point on the same session)
            continue
        mt, it = a.split(), b.split()[1:]
        ok = True
        stopped = False
        k = 0
        for k, m in enumerate(mt):
            if k >= len(it):
                ok = False
                break
            i = it[k]
            chk.count("replline:" + m[0])
            if i == "P":
                pm = ""
                if k + 1 < len(it):
                    try:
                        pm = bytes.fromhex(it[k + 1].rsplit(":", 1)[1]).decode("utf-8", "replace")
                    except (ValueError, IndexError):
                        pm = ""
                line_panic = "too many parens" in pm
                stopped = True
                if m == "P":
                    ok = line_panic
                elif m.startswith("F") and m != "F0" and not line_panic:
                    ok = True       # a panic of the frontend / evaluator on the parsed forms: not modelled here,
                                    # reported by the `repl` entry point on the same session
                else:
                    ok = False
                break
            if m == "P":
                ok = False
                break
            if m == "M" or m == "F0":
                ok = i == "N"
            elif m.startswith("F"):
                # forms handed to the frontend / evaluator (not modelled): a result or any error
                # (reader messages included: an include file is read by the same reader)
                ok = i in ("R", "N") or i.startswith("E:")
            elif m.startswith("E:"):
                ok = i == m
            if not ok:
                break
        if ok and not stopped and len(it) != len(mt):
            ok = False
        if not ok:
            nbad += 1
            if nbad <= 5:
                chk.fail("correspondence", "corr:c14-replline", case, {"model": a[:300], "impl": b[:300], "at": k})
    chk.count("replline:sessions", len(lines))
    chk.count("replline:disagreements", nbad)
    chk.cov["traces_validated_against_impl"] = chk.cov.get("traces_validated_against_impl", 0) + len(lines) - nbad


def source_limits(chk):
    """the theorems `run_bounded` / `compile_time_evaluation_bounded` / `nested_head_run_terminates`
    speak about `run(.., Some(LIMIT))` resp. `run(.., None)`: re-read from the sources, on every
    run, which limit every call site of `compiler::clvm::run` passes and the values of the limit
    constants, and compare with what Props/C14.lean states."""
    import rustsrc
    lean = open(lib.module_path("ChialispModel.Props.C14")).read()
    stated = {m.group(1): int(m.group(2)) for m in re.finditer(r"^def ([A-Z_]+) : Nat := (\d+)", lean, re.M)}
    expect_sites = {            # file -> acceptable sets of last arguments of `run(`
        "compiler/codegen.rs": [{"Some(MACRO_TIME_LIMIT)", "Some(CONST_EVAL_LIMIT)"}],
        "compiler/evaluate.rs": [{"Some(PRIM_RUN_LIMIT)"}],
        "compiler/optimize/mod.rs": [{"Some(CONST_FOLD_LIMIT)"}],
        "compiler/clvm.rs": [{"None", "step_limit"}],    # translate_head (no limit: C14.nested_head_run_terminates), parse_and_run (caller's)
        # defmac expansion: NO limit in the code as found (finding C14-defmac-run-without-step-limit),
        # `Some(PP_MACRO_TIME_LIMIT)` with the proposed repair
        "compiler/preprocessor/mod.rs": [{"None"}, {"Some(PP_MACRO_TIME_LIMIT)"}],
    }
    optional = {"PP_MACRO_TIME_LIMIT"}
    found_consts = {}
    sites = {}
    for f, want in expect_sites.items():
        try:
            src = rustsrc.blank_comments(open(os.path.join(REPO, "src", f)).read())
        except OSError as e:
            chk.fail("translator", "c14:source-limits", {"file": f}, str(e))
            continue
        for m in re.finditer(r"const ([A-Z_]+): usize = ([0-9_]+);", src):
            found_consts[m.group(1)] = int(m.group(2).replace("_", ""))
        got = set()
        for off, args in rustsrc.calls(src, "run"):
            if len(args) >= 7 and "fn run" not in src[max(0, off - 8):off + 3]:
                got.add(rustsrc.squeeze(args[-1]) or rustsrc.squeeze(args[-2]))
        sites[f] = sorted(got)
        if got not in want:
            chk.fail("translator", "c14:source-limits", {"file": f},
                     f"call sites of clvm::run pass {sorted(got)} as iteration limit, the theorems assume {[sorted(w) for w in want]}")
    for name, val in stated.items():
        if name in optional and name not in found_consts and sites.get("compiler/preprocessor/mod.rs") == ["None"]:
            continue
        if found_consts.get(name) != val:
            chk.fail("translator", "c14:source-limits", {"constant": name},
                     f"Props/C14.lean states {name} = {val}, the sources say {found_consts.get(name)}")
    chk.cov["iteration_limits_in_sources"] = {"constants": {k: found_consts.get(k) for k in stated}, "run_call_sites": sites}


def replay(chk, workdir, loc):
    r = chk.replay_cases
    cases = []
    if "case" in r:
        cases.append(r["case"])
    cases += [m.get("case", {}) for m in r.get("more", [])]
    cs = Cases(chk)
    for c in cases:
        if c.get("sub") == "crash" and c.get("line"):
            f = c["line"].split()
            ep = f[0]
            if ep == "repl":
                data = [b"" if h == "-" else bytes.fromhex(h) for h in f[1:]]
            else:
                data = b"" if f[1] == "-" else bytes.fromhex(f[1])
            cs.lines.append(c["line"])
            cs.meta.append((ep, c.get("stream", "replay"), data))
    outs, _ = run_crash(cs.lines, workdir, 30000, 600)
    judge(chk, cs, outs, loc)


def run(chk):
    rng = chk.rng
    quick = chk.tier == "quick"
    # T-tie: the one source-level fact the REPL model is parametric in is re-read on every run
    try:
        import translate_c14
        chk.cov["repl_cfg_from_sources"] = translate_c14.main()
    except Exception as e:          # noqa: BLE001 — any extraction problem is an obligation failure
        chk.fail("translator", "c14:translate-repl", {}, f"{type(e).__name__}: {e}")
    lib.std_obligations(chk)
    chk.cov["rule"] = ("crash lines: `<entry point> <hex input> [<hex env>]` through `cvh crash` (real library, in-process, "
                       "catch_unwind + panic-location hook, child processes with a per-case wall-clock limit); streams: keyword/"
                       "delimiter soup, every single-token deletion/duplication/adjacent swap (+ far swaps) of progen/clgen/"
                       "shipped programs, truncation at every offset, random bytes, nesting <= 200, REPL sessions; plus the "
                       "malformed streams through `reader`, `text a`, `serde d` on model and implementation. distinct = "
                       "distinct protocol lines")
    source_limits(chk)
    ok, out = lib.build_harness()
    if not ok:
        chk.fail("proof", "harness-build", {}, out[-1500:])
        return
    workdir = prepare_workdir(quick)
    try:
        pseudo = {}
        res = lib.run_impl("cerr", ["pseudo"], args=[workdir])
        for kv in res[0].split(","):
            a, b = kv.split("=")
            pseudo.setdefault(bytes.fromhex(a).decode(), []).append(bytes.fromhex(b))
        loc = LocOracle(chk, workdir, pseudo)
        if chk.replay_cases is not None:
            replay(chk, workdir, loc)
            return
        # modelled front end 1: the modern reader (model vs implementation on malformed streams)
        import time as _t
        t0 = _t.time()
        ph = chk.cov.setdefault("phase_seconds", {})
        c14_reader.run_reader_part(chk)
        ph["reader"] = round(_t.time() - t0, 1); t0 = _t.time()
        limit = 30000 if quick else 90000        # CPU ms per case (wall-clock backstop 15x)
        cs, src_texts, byte_texts, progs, ship = phase_a(chk, workdir)
        ph["gen-a"] = round(_t.time() - t0, 1); t0 = _t.time()
        outs, cost = run_shuffled(rng, cs, workdir, limit, 1500 if quick else 6000)
        ph["run-a"] = round(_t.time() - t0, 1); t0 = _t.time()
        judge(chk, cs, outs, loc)
        ph["judge-a"] = round(_t.time() - t0, 1); t0 = _t.time()
        probe_cost = {}
        for (ep, stream, data), o, c in zip(cs.meta, outs, cost):
            if stream.startswith("probe:"):
                probe_cost[data] = c if crash_sig(ep, data, o) is None else 10 ** 9
        cs2, src2 = phase_b(chk, workdir, progs, ship, probe_cost)
        ph["gen-b"] = round(_t.time() - t0, 1); t0 = _t.time()
        outs2, cost2 = run_shuffled(rng, cs2, workdir, limit, 1500 if quick else 6000)
        ph["run-b"] = round(_t.time() - t0, 1); t0 = _t.time()
        judge(chk, cs2, outs2, loc)
        ph["judge-b"] = round(_t.time() - t0, 1); t0 = _t.time()
        chk.cov["crash_cases"] = len(cs.lines) + len(cs2.lines)
        chk.cov["crash_cpu_seconds"] = round((sum(cost) + sum(cost2)) / 1e6, 1)
        # the REPL line-assembly model against the real REPL
        repl_correspondence(chk, [d for (ep, _, d) in cs.meta + cs2.meta if ep == "repl"], workdir, limit)
        ph["repl-corr"] = round(_t.time() - t0, 1); t0 = _t.time()
        # modelled front ends 2, 3: classic assembler and deserialiser
        src_texts += src2
        rng.shuffle(src_texts)
        model_agreement(chk, rng, quick, src_texts[: (5000 if quick else 80000)], byte_texts)
        ph["model-agreement"] = round(_t.time() - t0, 1)
        for l in cs.lines[:3]:
            chk.sample({"line": l[:200], "meaning": "<entry point> <hex input> [<hex env>] -> ok|err|out|panic <file:line> <msg>"})
    finally:
        shutil.rmtree(workdir, ignore_errors=True)

    chk.cov["exhaustive"] = False
    chk.cov["entry_points"] = sorted(FAMILY)
    chk.cov["modelled_not_verified"] = [
        "only the modern reader, the classic IR reader + assembler, the classic deserialiser, the step machine's iteration "
        "limit and the REPL's line assembly are modelled; every other front end (preprocessor, frontend, codegen, evaluator, "
        "optimiser, classic stage-2 compiler, cldb, trace printers, argument parser) is covered by the child-process harness "
        "only (exploration, no theorem): a panic there is found only if a generated input reaches it",
        "`run`/`brun` are given `-m 60000000` and `cldb` skips inputs whose compiled program exceeds a cost limit in the consensus "
        "evaluator: a diverging USER program is not a tool hang",
        "REPL error locations are judged against the text the REPL parses (a newline, then the accumulated lines): line "
        "numbers therefore start at 2 for the first typed line",
        "Rust memory safety, allocator behaviour, and stack depth beyond nesting 200 are outside the property",
    ]
