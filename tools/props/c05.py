"""C05 — compilation is a pure function of source, include files and options.

1. translator tools/translate_c05.py: inventory of statics (Generated/Statics.lean) and of every
   iteration over a HashMap/HashSet in the compiler (Generated/IterSites.lean, merged with the
   reviewed classification tools/c05_sites.json); statics are tied to the BINARY: the writable-data
   symbols `nm` reports for the built chialisp crate must be the statics the translator read;
2. theorems of Props/C05.lean (mutable statics are the two known ones; guard discipline;
   permutation invariance of every discharged consumer class; the open sites listed);
3. oracle on the implementation alone (`cvh purity`): the same compilation repeated with the
   fresh-name counter at other values, under a caller-held conversion mode, after histories of
   other (also failing) compilations, on concurrent threads, and in fresh processes (fresh hash
   seeds) — emitted bytes and user-visible symbol entries must be identical.
"""
import os
import random
import re
import shutil
import subprocess
import tempfile
from concurrent.futures import ThreadPoolExecutor

import clgen
import compilers
import gen
import lib
import translate_c05
import c05_fresh
from rustsrc import ExtractError

LEVEL = "proof"
LEAN_DIR = os.path.join(lib.LEAN, "ChialispModel")
TIMEOUT = {"quick": 120, "thorough": 900}
GENSYM = re.compile(rb"^(.*)_\$_([0-9]+)$", re.S)


# ------------------------------------------------------------------------------------------
# targeted templates for the open iteration sites and the known candidate
# ------------------------------------------------------------------------------------------

CL22_WITNESS = ("(mod (X (Y . Z)) (include *standard-cl-22*) (defun-inline sq (A) (* A A)) "
                "(defun g (P Q) (let ((R (+ P Q))) (if (> R 10) (sq R) (list P Q R)))) (g X Z))")


# nested lets in a function: two synthetic helpers without inline preference; deinline_opt's greedy
# size search visits them in hash order and settles on different programs
DEINLINE_WITNESS = "(mod (X1) (include DIALECT) (defun G (A) (let ((P (+ A 3))) (let ((R (* P P))) (list P R R)))) (G X1))"
CSE_WITNESS = ("(mod (X Y) (include DIALECT) (defun f (A B) (list (sha256 (+ A 1) (+ A 1) (+ A 1)) "
               "(sha256 (* B 17) (* B 17) (* B 17)))) (f X Y))")
SAMPLE_ENVS = ["(1 2 3)", "((1 2) 3)", "(5)", "()", "(100 (7 8) 9)", "(-3 . 7)"]


def targeted(rng, dialects=None):
    out = []
    inc = lambda d: f"(include {d}) " if d else ""  # noqa: E731
    for d in (dialects if dialects is not None else clgen.DIALECTS):
        # twin functions: identical code under two names (one tree hash, two symbol candidates)
        out.append(("twin-functions", d, f"(mod (X) {inc(d)}(defun FA (A) (+ A 1)) (defun FB (A) (+ A 1)) (defun FC (A) (+ A 1)) "
                                         f"(list (FA X) (FB X) (FC X)))"))
        # many helpers: maps of functions / constants with many entries
        n = rng.randrange(6, 12)
        funs = " ".join(f"(defun H{i} (A B) (+ (* A {i + 2}) (- B {i})))" for i in range(n))
        calls = " ".join(f"(H{i} X {i})" for i in range(n))
        consts = " ".join(f"(defconstant C{i} {1000 + 7 * i})" for i in range(n))
        out.append(("many-helpers", d, f"(mod (X) {inc(d)}{consts} {funs} (list {calls} " + " ".join(f"C{i}" for i in range(n)) + "))"))
        if d is not None:
            # several lets per function: synthetic letbinding helpers (deinline_opt's greedy search in cl23+)
            k = rng.randrange(3, 6)
            fs = []
            for i in range(k):
                fs.append(f"(defun L{i} (A B) (let ((P{i} (+ A {i})) (Q{i} (* B {i + 1}))) (let ((R{i} (- P{i} Q{i}))) "
                          f"(if (> R{i} {i}) (list P{i} Q{i} R{i}) (+ P{i} (* 2 Q{i}))))))")
            out.append(("many-lets", d, f"(mod (X Y) {inc(d)}" + " ".join(fs) + " (list " + " ".join(f"(L{i} X Y)" for i in range(k)) + "))"))
            out.append(("inline-let-mix", d, f"(mod (X Y) {inc(d)}(defun-inline sq (A) (* A A)) (defun-inline tw (A) (let ((T (+ A A))) (sq T))) "
                                             f"(defun g (P Q) (let ((R (+ P Q)) (S (- P Q))) (if (> R 10) (sq R) (list P Q R (tw S))))) (g X (tw Y)))"))
        if clgen.stepping(d) is not None and clgen.stepping(d) >= 23:
            out.append(("assign-lambda", d, f"(mod (X Y) {inc(d)}(defun F (A B) (assign (P . Q) (c A B) R (+ P Q) S (* R R) T (a (lambda ((& S) U) (+ S U)) (list R)) "
                                            f"(list P Q R S T))) (defun G (A) (assign V (F A A) W (F A 1) (c V W))) (c (F X Y) (G X)))"))
    # classic: evaluated constants that depend on each other (delayed_constants worklist)
    for n in (3, 5, 8):
        names = [f"K{i}" for i in range(n)]
        defs = ["(defconst K0 (+ 1 2))"]
        for i in range(1, n):
            deps = rng.sample(names[:i], k=min(i, rng.randrange(1, 3)))
            defs.append(f"(defconst K{i} (+ {i} " + " ".join(f"(* 2 {x})" for x in deps) + "))")
        rng.shuffle(defs)
        out.append(("classic-defconst-chain", None, "(mod (X) " + " ".join(defs) + " (list X " + " ".join(names) + "))"))
    # several independent common subexpressions in one function (cl23+ CSE puts them in one parallel let, in the
    # order of the tree hashes of the RENAMED forms, which contain the name counter)
    for d in ("*standard-cl-23*", "*standard-cl-23.1*", "*standard-cl-24*"):
        if dialects is not None and d not in dialects:
            continue
        out.append(("cse-commons", d, CSE_WITNESS.replace("DIALECT", d)))
        k = rng.randrange(2, 5)
        ops = ["+", "*", "-", "logxor", "logior"]
        subs = [f"({ops[i % len(ops)]} {'AB'[i % 2]} {rng.randrange(2, 90)})" for i in range(k)]
        body = "(list " + " ".join(f"(sha256 {e} {e} {e})" for e in subs) + ")"
        out.append(("cse-commons", d, f"(mod (X Y) (include {d}) (defun f (A B) {body}) (f X Y))"))
    out.append(("cl22-witness", "*standard-cl-22*", CL22_WITNESS))
    for d in ("*standard-cl-23*", "*standard-cl-23.1*", "*standard-cl-24*"):
        out.append(("deinline-witness", d, DEINLINE_WITNESS.replace("DIALECT", d)))
    return out


QUICK_TARGET_DIALECTS = [None, "*standard-cl-21*", "*standard-cl-22*", "*standard-cl-23*", "*standard-cl-24*"]


def make_cases(rng, per_cell, depth, with_targeted=True, target_dialects=None):
    cases = []
    if with_targeted:
        for kind, d, src in targeted(rng, target_dialects):
            cases.append({"origin": "targeted:" + kind, "dialect": d or "classic", "source": src, "include": False, "sp": []})
    for d in clgen.DIALECTS:
        for use_inc in (False, True):
            for i in range(per_cell):
                g = clgen.ProgGen(rng, d, use_include=use_inc)
                src, _ = g.program(depth=depth - 1 if (clgen.stepping(d) or 0) >= 23 else depth)
                cases.append({"origin": "generated", "dialect": d or "classic", "source": src, "include": use_inc,
                              "sp": ["inc"] if use_inc else [], "features": sorted(g.features)})
    return cases


def materialise(case, root, idx):
    d = os.path.join(root, f"case{idx}")
    os.makedirs(os.path.join(d, "inc"), exist_ok=True)
    with open(os.path.join(d, "inc", "gen_inc.clinc"), "w") as fh:
        fh.write(clgen.INCLUDE_FILE)
    path = os.path.join(d, "prog.clsp")
    with open(path, "w") as fh:
        fh.write(case["source"])
    return path, [os.path.join(d, s) for s in case["sp"]]


def run_one(line, timeout):
    try:
        p = subprocess.run([lib.CVH, "purity"], input=line + "\n", stdout=subprocess.PIPE, stderr=subprocess.DEVNULL,
                           text=True, timeout=timeout)
        out = p.stdout.strip("\n")
        return out if out else f"abort rc={p.returncode}"
    except subprocess.TimeoutExpired:
        return "timeout"


# ------------------------------------------------------------------------------------------
# oracle
# ------------------------------------------------------------------------------------------

def blank_gensyms(v):
    """replace the counter in every atom of the form name_$_<digits>; returns (tree, names seen)"""
    seen = []

    def go(t):
        if isinstance(t, tuple):
            return (go(t[0]), go(t[1]))
        m = GENSYM.match(t)
        if m:
            seen.append(t)
            return m.group(1) + b"_$_#"
        return t
    return go(v), seen


def classify_diff(stepping, base, var, kind):
    """base / var are `hex|symbols` or `E:..|`. returns list of (sig, detail)"""
    bh, _, bs = base.partition("|")
    vh, _, vs = var.partition("|")
    out = []
    if bh.startswith("E:") or vh.startswith("E:"):
        if bh.startswith("E:") != vh.startswith("E:"):
            out.append((f"purity:outcome-{kind}", f"one run compiles, the other fails: base={bh[:80]} variant={vh[:80]}"))
        return out
    if bh != vh:
        try:
            bt, bseen = blank_gensyms(gen.deser(bytes.fromhex(bh)))
            vt, vseen = blank_gensyms(gen.deser(bytes.fromhex(vh)))
        except Exception:  # noqa: BLE001
            bt, vt, bseen, vseen = 0, 1, [], []
        if bt == vt and (bseen or vseen):
            names = sorted({x.decode("latin1") for x in bseen + vseen})[:4]
            sig = "purity:cl22-gensym-leak" if stepping == "22" else f"purity:gensym-leak-{stepping}"
            out.append((sig, f"emitted code contains generated names {names}; bytes differ only in the counter ({kind})"))
        else:
            out.append((f"purity:bytes-{kind}", f"emitted bytes differ: base {bh} variant {vh}"))
    if bs != vs:
        try:
            b1 = bytes.fromhex(bs).decode("utf8", "replace")
            v1 = bytes.fromhex(vs).decode("utf8", "replace")
            diff = sorted(set(b1.split("\n")) ^ set(v1.split("\n")))[:4]
        except ValueError:
            diff = []
        if bh != vh and out and out[0][0].startswith("purity:cl22-gensym-leak"):
            # keys are tree hashes of functions whose code contains the leaked name
            out.append(("purity:cl22-gensym-leak", f"symbol entries differ along with the leaked names: {diff}"))
        else:
            out.append((f"purity:symbols-{kind}", f"user-visible symbol entries differ: {diff}"))
    return out


def repeated_subexprs(src):
    """number of distinct list subexpressions that occur at least twice in the source text (what cl23+ CSE extracts)."""
    toks = re.findall(r"\(|\)|[^\s()]+", src)
    seen = {}
    stack = []
    for t in toks:
        if t == "(":
            stack.append([])
        elif t == ")":
            if not stack:
                return 0
            done = "(" + " ".join(stack.pop()) + ")"
            if stack:
                stack[-1].append(done)
            if len(done) > 6:
                seen[done] = seen.get(done, 0) + 1
        elif stack:
            stack[-1].append(t)
    rep = [k for k, v in seen.items() if v >= 2]
    # count maximal ones only (a repeated expression inside another repeated expression is the same detection)
    return len([k for k in rep if not any(k != o and k in o for o in rep)])


_cl22_cache = {}


def same_shape(x, y):
    """two CLVM trees of identical shape (they differ at most in atoms)"""
    stack = [(x, y)]
    while stack:
        u, v = stack.pop()
        if isinstance(u, tuple) != isinstance(v, tuple):
            return False
        if isinstance(u, tuple):
            stack.append((u[0], v[0]))
            stack.append((u[1], v[1]))
    return True


def cl22_leak_folded(case, detail):
    """finding purity:cl22-gensym-leak reached through constant folding.  The cl22 frontend optimiser's evaluator
    reads a generated name (`L7_$_123`) that it failed to substitute as DATA; when the operators around it are
    folded at compile time the name disappears into a constant whose bytes depend on the counter, so the
    `_$_<n>` pattern is no longer visible in the output.  The counter can influence a compilation only through
    generated names, so the mechanism-following predicate is (all three):
      * the two outputs have the same shape and differ only in atoms (constants computed from the name);
      * compile_file with the frontend optimiser ON (file:010) gives different bytes under counter 0 and 1000;
      * the SAME source with the frontend optimiser OFF (file:000) gives identical, name-free bytes under both —
        i.e. the dependence is introduced by the cl22 frontend optimiser, which is what the finding says."""
    pm = re.search(r"base ([0-9a-f]+) variant ([0-9a-f]+)", detail)
    if not pm:
        return False
    try:
        if not same_shape(gen.deser(bytes.fromhex(pm.group(1))), gen.deser(bytes.fromhex(pm.group(2)))):
            return False
    except Exception:  # noqa: BLE001
        return False
    key = case["source"]
    if key not in _cl22_cache:
        src = case["source"].replace("(include gen_inc.clinc)", clgen.INCLUDE_FILE.strip()[1:-1])
        lines = [f"file:{bits} " + src.encode().hex() for bits in ("010", "000")]
        o0 = [o.split() for o in lib.run_impl("compile", lines, args=("ctr=0",), timeout=120)]
        o1 = [o.split() for o in lib.run_impl("compile", lines, args=("ctr=1000",), timeout=120)]
        verdict = False
        if all(len(o) >= 2 and o[0] == "C" for o in o0 + o1):
            try:
                clean = not any(GENSYM.match(a) for a in compilers.quoted_atoms(gen.unhex(o0[1][1])))
            except Exception:  # noqa: BLE001
                clean = False
            verdict = clean and o0[1][1] == o1[1][1] and o0[0][1] != o1[0][1]
        _cl22_cache[key] = verdict
    return _cl22_cache[key]


def reclassify(case, full, sig, detail):
    """narrow signature of the deinline finding: dialect stepping >= 23, the source has let / let* /
    assign forms (the only source of helpers without an inline preference), both programs compile,
    and the two emitted programs behave identically on sample arguments (a different inlining of
    the same functions, not a different meaning)."""
    if not sig.startswith("purity:bytes-") and not sig.startswith("purity:symbols-"):
        return sig, detail
    m = re.search(r"dialect=(\d+):", full)
    if m and m.group(1) == "22" and sig.startswith("purity:bytes-") and cl22_leak_folded(case, detail):
        return "purity:cl22-gensym-leak", ("a generated name was folded through operators into a constant by the cl22 frontend "
                                           "optimiser (same shape, atoms differ; the frontend optimiser changes this program's "
                                           "meaning; the build without it is name-free): " + detail)
    has_binding = bool(re.search(r"\((let\*?|assign)\s", case["source"]))
    commons = repeated_subexprs(case["source"])
    if not m or int(m.group(1)) < 23 or not (has_binding or commons >= 2):
        return sig, detail
    if sig.startswith("purity:symbols-"):
        return sig, detail      # decided by the caller together with the bytes of the same case
    pm = re.search(r"base ([0-9a-f]+) variant ([0-9a-f]+)", detail)
    if not pm:
        return sig, detail
    lines = []
    for env in SAMPLE_ENVS:
        eh = gen.hexv(parse_env(env))
        lines += [f"{pm.group(1)} {eh}", f"{pm.group(2)} {eh}"]
    outs = lib.run_impl("base", lines)
    same = all(outs[i] == outs[i + 1] for i in range(0, len(outs), 2)) and any(o.startswith("ok") for o in outs)
    if same and not has_binding:
        return "purity:cl23-cse-order", ("two different programs for the same source (same results on sample arguments; "
                                         f"{commons} distinct repeated subexpressions, no binding form): " + detail)
    if same:
        return "purity:cl23-deinline-order", ("two different programs for the same source (same results on sample arguments): " + detail)
    return sig, "programs also BEHAVE differently on sample arguments: " + detail


def parse_env(txt):
    """tiny reader for the sample environments (integers, lists, dotted pairs)"""
    toks = re.findall(r"\(|\)|\.|-?\d+", txt)
    pos = [0]

    def atom(n):
        n = int(n)
        if n == 0:
            return b""
        l = (n.bit_length() + 8) // 8 if n > 0 else ((-n - 1).bit_length() + 8) // 8
        return n.to_bytes(l, "big", signed=True)

    def rd():
        t = toks[pos[0]]
        pos[0] += 1
        if t == "(":
            items, tail = [], b""
            while toks[pos[0]] != ")":
                if toks[pos[0]] == ".":
                    pos[0] += 1
                    tail = rd()
                else:
                    items.append(rd())
            pos[0] += 1
            return gen.lst(items, tail=tail)
        return atom(t)
    return rd()


def kind_of(variant):
    return variant.split(":")[0]


def judge(case, full, bases):
    f = dict(p.split("=", 1) for p in full.split(" ") if "=" in p)
    if "base" not in f or "dialect" not in f:
        return [("purity:harness", f"incomplete record {full[:200]}")], []
    stepping = f["dialect"].split(":")[0]
    bad, tags = [], []
    base = f["base"]
    tags.append("compile-error" if base.startswith("E:") else "compiled")
    for k, v in f.items():
        if k in ("dialect", "base"):
            continue
        if v == "same":
            tags.append("same:" + kind_of(k))
            continue
        for sig, detail in classify_diff(stepping, base, v, kind_of(k)):
            bad.append((sig, f"{k}: {detail}"))
    for i, b in enumerate(bases):
        if not b.startswith("base="):
            if b == "timeout":
                tags.append("process-timeout")
                continue
            bad.append(("purity:harness", f"fresh process {i}: {b[:120]}"))
            continue
        if b[5:] == base:
            tags.append("same:process")
        else:
            for sig, detail in classify_diff(stepping, base, b[5:], "process"):
                bad.append((sig, f"fresh process {i}: {detail}"))
    return bad, tags


def case_of(c):
    return {k: c[k] for k in ("origin", "dialect", "source", "include", "sp") if k in c}


def dynamic(chk, cases, nproc, threads):
    root = tempfile.mkdtemp(prefix="c05-")
    try:
        jobs = []
        for i, c in enumerate(cases):
            path, sp = materialise(c, root, i)
            seed = chk.rng.randrange(1, 1 << 30)
            jobs.append((i, "full", " ".join(["u", str(threads), str(seed), path] + sp)))
            for _ in range(nproc):
                jobs.append((i, "base", " ".join(["b", path] + sp)))
        with ThreadPoolExecutor(max_workers=lib.NCPU) as ex:
            outs = list(ex.map(lambda j: run_one(j[2], TIMEOUT[chk.tier]), jobs))
        per = {}
        for (i, kind, _), o in zip(jobs, outs):
            per.setdefault(i, {"full": None, "base": []})
            if kind == "full":
                per[i]["full"] = o
            else:
                per[i]["base"].append(o)
        for i, c in enumerate(cases):
            chk.note_case(("purity", c["source"], tuple(c["sp"])))
            chk.count("dyn:" + c["origin"].split(":")[0])
            chk.count("dyn-dialect:" + c["dialect"])
            full = per[i]["full"]
            if full == "timeout":
                chk.count("dyn:timeout")
                continue
            if full.startswith("abort") or full in ("panic", "missing"):
                chk.fail("oracle", "purity:harness", case_of(c), f"harness result {full}")
                continue
            bad, tags = judge(c, full, per[i]["base"])
            for t in tags:
                chk.count("dyn:" + t)
            for feat in c.get("features", []):
                chk.count("feature:" + feat)
            bad = [reclassify(c, full, sig, detail) for sig, detail in bad]
            if any(sig == "purity:cl23-deinline-order" for sig, _ in bad):
                # symbol keys are tree hashes of the functions: they move with the inlining decision
                bad = [("purity:cl23-deinline-order" if sig.startswith("purity:symbols-") else sig, d) for sig, d in bad]
            if any(sig == "purity:cl23-cse-order" for sig, _ in bad):
                bad = [("purity:cl23-cse-order" if sig.startswith("purity:symbols-") else sig, d) for sig, d in bad]
            seen = set()
            for sig, detail in bad:
                if sig in seen:
                    continue
                seen.add(sig)
                chk.fail("oracle", sig, case_of(c), detail[:700])
            if not bad and c["origin"] == "generated":
                chk.sample({"dialect": c["dialect"], "source": c["source"][:300], "record": re.sub(r"=[0-9a-f|]{60,}", "=<..>", full)[:300]}, limit=3)
    finally:
        shutil.rmtree(root, ignore_errors=True)


# ------------------------------------------------------------------------------------------

def guard_lines(rng, n):
    """scope programs for the guard: nesting, sequencing, every way out"""
    def code(depth):
        if depth <= 0 or rng.random() < 0.25:
            return rng.choice(["K", "O", "O", "O", "E", "R", "P"])
        k = rng.random()
        if k < 0.45:
            return ";" + code(depth - 1) + code(depth - 1)
        return "G" + rng.choice("01") + code(depth - 1)
    lines = []
    fixed = ["O", "G0O", "G1O", ";G0OO", ";G1OO", "G0G1O", ";G0;OG1;OEO", ";G1;OPO", "G0;;OG1RO", ";G0EO", ";G0RO", ";G0PO",
             "G0;G1;G0;G1OOOO", ";;G0OG1OO"]
    for c in fixed:
        for m in "01":
            lines.append(f"g {m} {c}")
    for _ in range(n):
        lines.append(f"g {rng.choice('01')} {code(rng.randrange(1, 8))}")
    return lines


def nm_statics():
    """writable-data symbols of the built chialisp crate, by `nm` (None if unavailable)"""
    rlib = os.path.join(lib.HARNESS, "target", "release", "deps", "libchialisp.rlib")
    if not os.path.exists(rlib) or shutil.which("nm") is None:
        return None
    rc, out = lib.sh(["nm", "-C", "--defined-only", rlib])
    names = set()
    for line in out.split("\n"):
        m = re.match(r"^[0-9a-f]*\s+([bBdD])\s+(.*)$", line)
        if not m or "chialisp::" not in m.group(2):
            continue
        sm = re.search(r"chialisp::(?:[a-z_0-9]+::)*([A-Z][A-Z0-9_]*)\b", m.group(2))
        if sm:
            names.add(sm.group(1))
        else:
            names.add("?" + m.group(2)[:80])
    return names


def run(chk):
    quick = chk.tier == "quick"
    chk.cov["rule"] = ("dynamic: every case = one program compiled in a full-variant process (counter x4, caller-held mode x2, "
                       "history x2, threads) + N fresh processes; programs: templates aimed at the open iteration sites and the "
                       "known candidate, plus generated programs stratified by dialect x include file; distinct = distinct "
                       "(source, search path); all non-trivial")
    if chk.replay_cases:
        lib.std_obligations(chk)
        ok, out = lib.build_harness()
        if not ok:
            chk.fail("proof", "harness-build", {}, out[-1500:])
            return
        rc = chk.replay_cases
        cs = [rc["case"]] + [m["case"] for m in rc.get("more", [])] if rc.get("kind") == "failing-input" else []
        dynamic(chk, [c for c in cs if "source" in c], 4, 3)
        return

    # 1. translator
    tr = None
    try:
        tr = translate_c05.translate(lib.REPO, LEAN_DIR)
        chk.count("translator:statics", len(tr["statics"]))
        chk.count("translator:sites", len(tr["sites"]))
        for s in tr["sites"]:
            cls = tr["table"].get(translate_c05.site_key(s), {}).get("class", "unclassified")
            chk.count("site-class:" + cls)
        if tr["stale_table_keys"]:
            chk.cov["stale_table_keys"] = tr["stale_table_keys"][:10]
    except ExtractError as e:
        chk.fail("translator", "translator:c05-shape", {"file": "tools/translate_c05.py"},
                 f"the sources no longer have a shape the extractor reads: {e}")
    # 2. theorems
    lib.std_obligations(chk)
    hok, hout = lib.build_harness()
    if not hok:
        chk.fail("proof", "harness-build", {}, hout[-1500:])
        return
    # tie: statics the translator read = writable data symbols of the built crate
    if tr is not None:
        nm = nm_statics()
        if nm is None:
            chk.assumptions.append("nm not available: statics inventory not cross-checked against the binary")
        else:
            mine = {i["name"] for i in tr["statics"]}
            chk.note_case(("nm", tuple(sorted(nm))))
            if nm != mine:
                chk.fail("correspondence", "tie:statics-vs-binary", {"only_in_binary": sorted(nm - mine), "only_in_translator": sorted(mine - nm)},
                         "the writable-data symbols of the built crate are not the statics the translator extracted")
            else:
                chk.cov["traces_validated_against_impl"] = len(nm)
            chk.count("tie:binary-statics", len(nm))
        open_sites = [translate_c05.site_key(s) for s in tr["sites"]
                      if tr["table"].get(translate_c05.site_key(s), {}).get("class", "unclassified")
                      in ("orderSensitive", "unclassified", "reachClosure")]
        chk.cov["open_obligations"] = [
            {"site": k, "class": tr["table"].get(k, {}).get("class", "unclassified"), "why": tr["table"].get(k, {}).get("why", "")}
            for k in open_sites]

    # tie: the hand model of the guard vs the real NewStyleIntConversion on generated scope programs
    glines = guard_lines(chk.rng, 1500 if quick else 30000)
    for l in glines:
        chk.note_case(l)
    ylines = [f"y {bytes(chk.rng.choice([b'letbinding', b'lambda', b'cse', b'X', b'', b'a_$_1'])).hex() or '00'} {v}"
              for v in [0, 1, 8, 9, 10, 98, 99, 100, 999, 65535, 4294967295, 99999999999] + [chk.rng.randrange(1 << 40) for _ in range(200)]]
    lib.correspond(chk, "purity", ylines, label="gensym")
    gm, gi = lib.correspond(chk, "purity", glines, label="guard")
    for o in gi:
        f = o.split()
        if len(f) >= 2:
            chk.count("guard-outcome:" + f[1])
    # the oracle for the guard on the implementation alone: the mode after = the mode before
    for l, o in zip(glines, gi):
        f = o.split()
        if len(f) >= 2 and f[0] != l.split()[1]:
            chk.fail("oracle", "purity:guard-not-restored", {"line": l}, f"mode after the scope program is {f[0]}, before it was {l.split()[1]}")

    # tie of the counter clause: Core2.compileCore2With k vs the real compiler after ARGNAME_CTR.store(k)
    # (own generator derived from the seed, so that the stream of the dynamic search below is unchanged)
    frng = random.Random(f"{getattr(chk, 'seed', 0)}-c05-fresh")
    c05_fresh.fresh_tie(chk, frng, 12 if quick else 800)
    c05_fresh.fresh_looking_probe(chk, frng)

    # 3. dynamic search / oracle; widened when an obligation is broken
    broken = bool(chk.failures)
    if quick and not broken:
        cases = make_cases(chk.rng, 1, 3, target_dialects=QUICK_TARGET_DIALECTS)
        nproc, threads = 2, 2
    elif quick:
        cases = make_cases(chk.rng, 6, 3)
        nproc, threads = 5, 3
    else:
        cases = make_cases(chk.rng, 10, 4)
        nproc, threads = 6, 4
    dynamic(chk, cases, nproc, threads)
    chk.cov["widened_search"] = broken
    chk.cov["exhaustive"] = False
    chk.cov["modelled_not_verified"] = [
        "the compiler body: that emitted code is a function of (source, includes, options) given the state discipline is NOT "
        "proved; in particular 'emitted code contains only paths, never generated names' is false for *standard-cl-22* "
        "(finding purity:cl22-gensym-leak)",
        "open iteration-site obligations (order-independence not proved, searched dynamically with fresh processes and threads): "
        "deinline_opt's greedy loops over a HashMap / HashSet, the classic delayed-defconst worklist, build_symbol_dump's list "
        "order, the two depgraph closures (argued: result is the reachable set)",
        "the iteration-site inventory is syntactic (receiver types resolved through annotations and field tables); "
        "unordered collections reached only through trait objects or type aliases would be missed",
        "hash seeds cannot be set: hash-order dependence is sampled by fresh processes and threads only",
        "classification of a site (tools/c05_sites.json) is a reviewed judgement about the code around the iteration",
    ]
    chk.assumptions.append("user-visible symbol entries = entries whose value is not a generated name (…_$_<n>); counter suffixes inside other values are blanked")
