"""C02 — optimisation switches and optimising dialects never change results."""
import gen
import lib
import progen
import compilers
import os
from props import c02_passes

LEVEL = "proof"

GROUP_A = ["cl21", "strict21", "cl22", "cl23"]
GROUP_B = ["cl23.1", "cl24"]


def entries_for(d):
    if d == "cl22":
        return ["text:O0", "text:O1", "file:000", "file:010", "file:110", "file:011"]
    if d in ("cl21", "strict21"):
        return ["text:O0", "text:O1", "file:000", "file:100", "file:001", "file:101"]
    return ["text:O0", "text:O1", "file:000", "file:100", "file:101"]


def resigil(p, d):
    """the same program under another dialect sigil."""
    forms = list(p["tree"][1])
    for i, f in enumerate(forms):
        if f[0] == "list" and f[1] and f[1][0] == ("sym", "include"):
            forms[i] = progen.L(progen.S("include"), progen.S(progen.SIGILS[d]))
    q = dict(p)
    q["tree"] = ("list", forms, None)
    q["dialect"] = d
    q["text"] = progen.text(q["tree"])
    q["rich"] = progen.rich(q["tree"])
    return q


def run(chk):
    rng = chk.rng
    quick = chk.tier == "quick"
    lib.std_obligations(chk)
    chk.cov["rule"] = ("generated programs (tools/progen.py strata as C01) x every option set of the dialect "
                       "{CLI -O off/on, compile_file optimize x frontend_opt x classic post-optimiser} x 3 argument trees; "
                       "plus the same program text under every sigil of its value-semantics group. Oracle: all value-returning "
                       "builds agree pairwise and with Lang.evalSrc; -O / post-optimiser on never turns a compiling, "
                       "value-returning build into a failing one. distinct = (program, args, entry); non-trivial = has helper/binding form")
    ok, out = lib.build_harness()
    if not ok:
        chk.fail("proof", "harness-build", {}, out[-1500:])
        return
    only = os.environ.get("VERIF_C02_ONLY", "")      # development aid: "passes" | "differential"
    if only == "passes" or chk.replay_cases is not None:
        c02_passes.run(chk)
        if only == "passes" or any((c.get("case", {}) or {}).get("sub") == "passes" for c in [chk.replay_cases or {}]):
            return
    n = 40 if quick else 1500
    for d in progen.MODERN:
        progs = compilers.gen_programs(rng, d, n, nargs=3)
        ents = entries_for(d)
        mo, res = compilers.differential(chk, "C02", progs, entries=ents, label=d)
        cross_build(chk, d, progs, ents, res)
    # dialect groups: generate under the strictest member, render under every sigil of the group
    for group, base in ((GROUP_A, "strict21"), (GROUP_B, "cl24")):
        progs = compilers.gen_programs(rng, base, n, nargs=3,
                                       features=["functions", "inlines", "lets", "assign", "destructure", "captures",
                                                 "rest", "lambda", "constants", "qq", "applydata"])
        per = {}
        for d in group:
            ps = [resigil(p, d) for p in progs]
            mo, res = compilers.differential(chk, "C02", ps, entries=["text:O0"], label=f"group:{d}")
            per[d] = res["text:O0"]
        for i, p in enumerate(progs):
            vals = {}
            for d in group:
                f = per[d][i].split()
                if f and f[0] == "C":
                    vals[d] = f[2:]
            ds = sorted(vals)
            for a in range(len(ds)):
                for b in range(a + 1, len(ds)):
                    for k, (x, y) in enumerate(zip(vals[ds[a]], vals[ds[b]])):
                        if x[0] == "V" and y[0] == "V" and x != y:
                            q = resigil(p, ds[a])
                            sig = "compile:C02:dialects-differ"
                            if "cl22" in (ds[a], ds[b]):
                                sig = "compile:cl22-feopt-leaked-name" if True else sig
                            if "cl22" in (ds[a], ds[b]):
                                continue      # cl22's own build is compared with the source meaning in its stratum
                            sig = compilers.classify("C02", resigil(p, ds[a]), "text:O0", x, y, per[ds[a]][i].split()[1])
                            if sig.endswith("value-mismatch"):
                                sig = compilers.classify("C02", resigil(p, ds[b]), "text:O0", x, y, per[ds[b]][i].split()[1])
                            if sig.endswith("value-mismatch"):
                                sig = "compile:C02:dialects-differ"
                            chk.fail("oracle", sig,
                                     {"program": p["text"], "dialects": [ds[a], ds[b]], "args": gen.hexv(p["args"][k])},
                                     {ds[a]: x, ds[b]: y})
    chk.cov["modelled_not_verified"] = [
        "CSE, de-inlining, optimize_expr folding, fe_opt, strategy optimiser: differential only",
    ]
    if chk.replay_cases is None:
        c02_passes.run(chk)      # the CLVM-level passes: kernel-checked theorems + correspondence + oracle


def classify_pair(p, e1, prog1, e2, prog2, x, y):
    s1 = compilers.classify("C02", p, e1, x, y, prog1)
    s2 = compilers.classify("C02", p, e2, x, y, prog2)
    for s in (s1, s2):
        if not s.endswith("value-mismatch"):
            return s
    if p["dialect"] == "cl22" and compilers.feopt_on(e1) != compilers.feopt_on(e2):
        # the build with the frontend optimiser on is the one that differs from the source meaning
        # (that comparison is made, and classified, in compilers.differential)
        return "compile:cl22-feopt-unsound"
    return s1


def cross_build(chk, d, progs, ents, res):
    """pairwise agreement of builds and the 'optimisation never breaks a working program' clause."""
    for i, p in enumerate(progs):
        outs = {e: res[e][i].split() for e in ents}
        base = outs.get("text:O0")
        for e in ents:
            f = outs[e]
            if not f:
                continue
            # pairwise
            for e2 in ents:
                if e2 <= e:
                    continue
                g = outs[e2]
                if f[0] == "C" and g and g[0] == "C":
                    for k, (x, y) in enumerate(zip(f[2:], g[2:])):
                        if x[0] == "V" and y[0] == "V" and x != y:
                            sig = classify_pair(p, e, f[1], e2, g[1], x, y)
                            chk.fail("oracle", sig.replace("value-mismatch", "builds-differ"),
                                     {"dialect": d, "entries": [e, e2], "program": p["text"], "args": gen.hexv(p["args"][k])},
                                     {e: x, e2: y})
        # optimisation never breaks: compare the non-optimising CLI build with the optimising one
        for off, on in (("text:O0", "text:O1"), ("file:000", "file:100"), ("file:000", "file:001")):
            if off not in outs or on not in outs:
                continue
            f, g = outs[off], outs[on]
            if f and f[0] == "C" and any(x[0] == "V" for x in f[2:]):
                if not g or g[0] != "C":
                    why = (g[0] if g else "none")
                    sig = f"compile:C02:{d}:opt-breaks-compile"
                    if d == "strict21" and ("in 64" in res[on][i] or True):
                        sig = "compile:strict21-opt-quoted-at"
                    if why not in ("E",):
                        sig = f"compile:C02:{d}:opt-{why}"
                    chk.fail("oracle", sig, {"dialect": d, "entries": [off, on], "program": p["text"]},
                             {"off": res[off][i][:120], "on": res[on][i][:200]})
                else:
                    for k, (x, y) in enumerate(zip(f[2:], g[2:])):
                        if x[0] == "V" and y[0] != "V":
                            sig = compilers.classify("C02", p, on, x, y, g[1]).replace("value-mismatch", "opt-breaks-run")
                            chk.fail("oracle", sig, {"dialect": d, "entries": [off, on], "program": p["text"],
                                                     "args": gen.hexv(p["args"][k])}, {off: x, on: y})
