"""C03 — classic compiler output computes what the source means; classic = cl21 on the shared subset."""
import gen
import lib
import progen
import compilers
from props.c02 import resigil
from props import c03_env
from props import c03_reroot

LEVEL = "proof"

CLASSIC_FEATURES = ["functions", "inlines", "destructure", "constants", "macros", "literals", "qq", "applydata", "manyparams"]


def add_sigil(p, d):
    forms = list(p["tree"][1])
    forms.insert(2, progen.L(progen.S("include"), progen.S(progen.SIGILS[d])))
    q = dict(p)
    q["tree"] = ("list", forms, None)
    q["dialect"] = d
    q["text"] = progen.text(q["tree"])
    q["rich"] = progen.rich(q["tree"])
    return q


def run(chk):
    rng = chk.rng
    quick = chk.tier == "quick"
    lib.std_obligations(chk)
    chk.cov["rule"] = ("classic-dialect programs (no sigil) from tools/progen.py over defun, defun-inline (incl. destructuring "
                       "parameter lists), defmacro templates, defconstant, if/list/qq/unquote, 1..40 parameters x 3 argument "
                       "trees; compiled by the classic compiler (compile_clvm_text) and run by clvmr; oracle Lang.evalSrc; "
                       "the same text with the *standard-cl-21* sigil added is compiled by the modern compiler and both "
                       "builds must agree when both return. distinct = (program, args, entry).  "
                       "Layout part (props/c03_env.py): generated parameter trees (1..40 names, flat / dotted / nested / "
                       "first-, rest- and zig-zag chains to 72 levels, (@ n pat) captures incl. rejected shapes, repeated "
                       "names, integer/string/64/0x40 leaves) x 0..12 used helpers (+ pruned unused ones): symbol tables, "
                       "argument root and build_tree_program tree of the real compiler (unevaluated stage-2 `com` result) "
                       "byte-identical to Lang/ClassicEnv.lean; oracle: (mod PAT NAME) and (mod PAT (defconstant KK 1000) "
                       "(c KK NAME)) run by clvmr on a fitted argument tree return the bound value; programs with 0..12 used "
                       "constants/functions (functions using constants and earlier functions) + unused ones return the "
                       "value every helper denotes.  "
                       "Re-rooting part (props/c03_reroot.py): nested (a (mod PARAMS BODY) ARG) with 5..18 flat inner "
                       "parameters or one name 5..16 first/rest steps down a destructuring pattern, BODY over the LAST "
                       "parameters (+, c, if, list, =, nested), ARG a parameter of the outer program or a first/rest chain "
                       "of one; oracle Lang.evalSrc on the lambda twin and the cl21 build.  Inline-capture part: classic "
                       "defun-inline with 1..3 parameters, one of them destructured and holding an (@ name pat) capture 1..3 "
                       "levels down (also inside another capture, under an explicit top-level capture, and — control — at "
                       "top level), the capture name used in the body; oracle Lang.evalSrc, the cl21 build and the defun twin. "
                       "Failures of both parts are only listed as known when the compiled result equals what the "
                       "defect's mechanism predicts (computed by Lang.evalSrc on a rewritten program)")
    ok, out = lib.build_harness()
    if not ok:
        chk.fail("proof", "harness-build", {}, out[-1500:])
        return
    # environment layout of the classic compiler: model = real code (byte identity) + oracle
    c03_env.run(chk, 700 if quick else 20000, 250 if quick else 8000)
    # source forms that re-root the environment / inline functions with captures below the top level
    c03_reroot.run(chk, 150 if quick else 4000, 90 if quick else 2500)
    n = 250 if quick else 8000
    progs = compilers.gen_programs(rng, "classic", n, nargs=3, features=None)
    for p in progs:
        p["features"] = [f for f in p["features"] if f in CLASSIC_FEATURES]
    mo, res = compilers.differential(chk, "C03", progs, entries=["text:O1"], label="classic")
    # shared subset: the same source under cl21
    twins = [add_sigil(p, "cl21") for p in progs]
    mo2, res2 = compilers.differential(chk, "C03", twins, entries=["text:O0"], label="cl21-twin")
    for i, p in enumerate(progs):
        f = res["text:O1"][i].split()
        g = res2["text:O0"][i].split()
        if f and g and f[0] == "C" and g[0] == "C":
            for k, (x, y) in enumerate(zip(f[2:], g[2:])):
                chk.count(f"classic-vs-cl21:{x[0]}/{y[0]}")
                if x[0] == "V" and y[0] == "V" and x != y:
                    sig = compilers.classify("C03", p, "text:O1", x, y, f[1])
                    if sig.endswith("value-mismatch"):
                        sig = "compile:C03:classic-vs-cl21"
                    chk.fail("oracle", sig, {"program": p["text"], "args": gen.hexv(p["args"][k]),
                                             "args_text": gen.show(p["args"][k])}, {"classic": x, "cl21": y})
    chk.cov["modelled_not_verified"] = [
        "build_used_constants_names (pruning of unused helpers) and the byte-lexicographic sort: modelled (sortNames) / "
        "generated around, tied by the classicenv correspondence, no theorem (any order is sound as table and tree use the same list)",
        "parameter patterns outside classicPatOk ((64 n p), (@ X p) with X not an identifier, literal 0): classic and "
        "source-level destructuring differ by design; model = implementation is still checked on them",
        "the classic compiler's macro expansion / com / opt machinery beyond the path assignment and the optimiser (C04): differential only",
    ]
