"""C06 — the built-in stepping evaluator agrees with the consensus CLVM evaluator."""
import gen
import lib

LEVEL = "proof"

# flags of Clvm/Step.lean.  IntIsName-on-opcodes, NonCanonicalOp, NonCanonicalPath and ZeroPath were repaired in /repo
# (5f6df3d/F2/F3): the model raises no flag there any more, so a regression is a correspondence failure plus
# `step:unflagged-divergence`.  RefusedOp / NilHead mark an early refusal (consensus fails as well, later): a
# divergence there has no known finding and is a fresh VIOLATION.
FLAG_ORDER = ["HeadIsPair", "IntSpellsName", "OpByName", "LegacyZero", "RefusedOp", "NilHead"]


# ---- rich spellings ------------------------------------------------------------------------

def u8_from_number(i):
    """num-bigint to_signed_bytes_be: minimal two's complement, 0 -> [0]."""
    if i == 0:
        return b"\x00"
    return gen.int_atom(i)


def printable(b):
    return all(32 <= c <= 126 and c not in (34, 92) for c in b)


def converter_spelling(b, mode):
    """what convert_from_clvm_rs produces for atom `b` in the given integer mode."""
    if b == b"":
        return "N"
    i = int.from_bytes(b, "big", signed=True)
    if u8_from_number(i) == b:
        if mode == "1" and b == b"\x00":
            return "Q7800;"
        return f"I{i};"
    if mode == "1" and not printable(b):
        return "Q78" + b.hex() + ";"
    return "A" + b.hex() + ";"


def spellings(b, mode):
    """every spelling class of atom `b` whose conversion (in `mode`) is `b` again."""
    out = ["A" + b.hex() + ";", "Q22" + b.hex() + ";", "Q78" + b.hex() + ";"]
    if b == b"":
        out.append("N")
        if mode == "1":
            out.append("I0;")
    else:
        i = int.from_bytes(b, "big", signed=True)
        if u8_from_number(i) == b and not (mode == "1" and i == 0):
            out.append(f"I{i};")
    return out


def rich_canon(v, mode):
    """the reader's / converter's own spelling of a CLVM value."""
    if isinstance(v, tuple):
        return "C" + rich_canon(v[0], mode) + rich_canon(v[1], mode)
    return converter_spelling(v, mode)


def rich_any(rng, v, mode, p_alt=0.35):
    """a random spelling of the same CLVM value (each atom independently)."""
    out = []
    stack = [v]
    while stack:
        x = stack.pop()
        if isinstance(x, tuple):
            out.append("C")
            stack.append(x[1])
            stack.append(x[0])
        elif rng.random() < p_alt:
            out.append(rng.choice(spellings(x, mode)))
        else:
            out.append(converter_spelling(x, mode))
    return "".join(out)


def show_rich(s):
    """compact human rendering of a rich protocol string (for samples / messages)."""
    pos = 0

    def rd():
        nonlocal pos
        c = s[pos]
        pos += 1
        if c == "N":
            return "()"
        if c == "C":
            a = rd()
            d = rd()
            return f"({a} . {d})"
        j = s.index(";", pos)
        body = s[pos:j]
        pos = j + 1
        if c == "I":
            return body
        if c == "A":
            return "A:0x" + body
        return "Q:0x" + body[2:]
    try:
        return rd()
    except Exception:
        return s


# ---- case streams --------------------------------------------------------------------------

SMALL_LEAVES = [b""] + [bytes([k]) for k in (1, 2, 3, 4, 5, 6, 7, 8, 9, 16, 17)]
SMALL_ENVS = [b"", (b"\x0a", b"\x4d"), ((b"\x01", (b"\x02", b"")), (b"\x05", (b"\x04", b"\x03")))]


def exhaustive_lines(nodes):
    lines = []
    envs = [rich_canon(e, "1") for e in SMALL_ENVS]
    for t in gen.trees_upto(SMALL_LEAVES, nodes):
        p = rich_canon(t, "1")
        for e in envs:
            lines.append(f"1 {p} {e}")
    return lines


NAME_OF = {v[0]: k for k, v in gen.OPS.items()}
NAME_OF.update({1: "q", 2: "a"})


def flag_variants(rng, prog, mode):
    """rich spellings of `prog` that deliberately take one flagged branch (at a random operator
    position / path position)."""
    out = []

    def walk(v, hook):
        """spell v canonically, except that `hook(kind, atom)` may return a replacement at
        operator ('op') or path ('path') positions; quoted data is left alone."""
        if not isinstance(v, tuple):
            r = hook("path", v)
            return r if r else converter_spelling(v, mode)
        head, tail = v
        if isinstance(head, tuple):
            return "C" + walk(head, hook) + args(tail, hook)
        if head == b"\x01":
            return "C" + converter_spelling(head, mode) + rich_canon(tail, mode)
        r = hook("op", head)
        return "C" + (r if r else converter_spelling(head, mode)) + args(tail, hook)

    def args(v, hook):
        if isinstance(v, tuple):
            return "C" + walk(v[0], hook) + args(v[1], hook)
        r = hook("term", v)
        return r if r else converter_spelling(v, mode)

    def once(fn):
        state = {"n": 0, "pick": None}

        def count(kind, a):
            if fn(kind, a) is not None:
                state["n"] += 1
            return None
        walk(prog, count)
        if state["n"] == 0:
            return None
        state["pick"] = rng.randrange(state["n"])
        state["n"] = 0

        def hook(kind, a):
            r = fn(kind, a)
            if r is None:
                return None
            k = state["n"]
            state["n"] += 1
            return r if k == state["pick"] else None
        return walk(prog, hook)

    def by_name(kind, a):
        if kind == "op" and len(a) == 1 and a[0] in NAME_OF:
            n = NAME_OF[a[0]].encode()
            return rng.choice(["A" + n.hex() + ";", "Q22" + n.hex() + ";"])
        return None

    def int_is_name(kind, a):
        if kind == "op" and len(a) == 1 and a[0] in NAME_OF:
            n = NAME_OF[a[0]].encode()
            return f"I{int.from_bytes(n, 'big')};"
        return None

    def zero_prefixed_op(kind, a):
        if kind == "op" and a and a[0] < 0x80:
            return rng.choice(["A00" + a.hex() + ";", "Q7800" + a.hex() + ";", "A0000" + a.hex() + ";"])
        return None

    def head_pair(kind, a):
        if kind == "op" and a:
            return "C" + converter_spelling(a, mode) + "N"
        return None

    def noncanon_path(kind, a):
        if kind == "path" and a:
            if a[0] >= 0x80:
                return rng.choice(["Aff" + a.hex() + ";", "Q78ffff" + a.hex() + ";"])
            return rng.choice(["A00" + a.hex() + ";", "Q7800" + a.hex() + ";"])   # harmless: same number
        return None

    def zero_path(kind, a):
        if kind == "path":
            return rng.choice(["I0;", "A;", "A00;", "Q7800;", "Q22;", "A0000;"])
        return None

    def legacy_term(kind, a):
        if kind == "term" and a == b"":
            return rng.choice(["I0;", "A00;", "Q7800;", "A;", "Q22;"])
        return None

    for fn in (by_name, int_is_name, zero_prefixed_op, head_pair, noncanon_path, zero_path, legacy_term):
        r = once(fn)
        if r is not None:
            out.append((fn.__name__, r))
    return out


# source templates compiled with the real compiler (`cvh compile`) in every modern dialect
DIALECTS = ["*standard-cl-21*", "*standard-cl-22*", "*standard-cl-23*", "*standard-cl-23.1*"]
TEMPLATES = [
    ("(mod (A B) (include {d}) (defun f (X Y) (if (> X Y) (- X Y) (+ X Y {k}))) (f A B))", 2),
    ("(mod (L) (include {d}) (defun len (L) (if L (+ 1 (len (r L))) 0)) (len L))", "list"),
    ("(mod (L) (include {d}) (defun sum (L) (if L (+ (f L) (sum (r L))) {k})) (sum L))", "list"),
    ("(mod (A) (include {d}) (defun-inline sq (X) (* X X)) (defconstant K {k}) (+ (sq A) K))", 1),
    ("(mod (A B) (include {d}) (defun pick (C X Y) (if C X Y)) (list (pick (= A B) {k} A) (sha256 A B)))", 2),
    ("(mod (A B) (include {d}) (defun g (P Q) (let ((R (+ P Q))) (if (> R {k}) (list P Q R) (* R R)))) (g A B))", 2),
    ("(mod (A) (include {d}) (defmacro twice (X) (qq (+ (unquote X) (unquote X)))) (twice (+ A {k})))", 1),
    ("(mod (A B) (include {d}) (defun fact (N) (if (> N 1) (* N (fact (- N 1))) 1)) (c (fact A) (fact B)))", "small2"),
]


def compiled_cases(chk, rng, n_args):
    srcs = []
    for d in DIALECTS:
        for t, shape in TEMPLATES:
            for _ in range(2):
                srcs.append((t.format(d=d, k=rng.randint(0, 20)), shape, d))
    outs = lib.run_impl("cldb-compile", [s.encode().hex() for s, _, _ in srcs], timeout=600)
    cases = []
    for (s, shape, d), o in zip(srcs, outs):
        if not o.startswith("ok "):
            chk.count("compile-failed")
            continue
        chk.count("compiled-" + d)
        prog = o.split()[1]
        for _ in range(n_args):
            if shape == "list":
                env = gen.lst([gen.lst([gen.int_atom(rng.randint(-5, 50)) for _ in range(rng.randint(0, 4))])])
            elif shape == "small2":
                env = gen.lst([gen.int_atom(rng.randint(0, 5)), gen.int_atom(rng.randint(0, 4))])
            else:
                env = gen.lst([gen.int_atom(rng.randint(-20, 40)) for _ in range(shape)])
            cases.append(("1", prog, rich_canon(env, "1")))
    return cases


HAND_FLAGGED = [
    # DESIGN §8 witnesses and their neighbours (mode, prog, env)
    ("1", "CCI16;NCI1;CI2;N", "N"),                               # ((+) 1 2)
    ("1", "CCI16;NCCI1;I1;CCI1;I2;N", "N"),                       # ((+) (q . 1) (q . 2))
    ("1", "CCI1;NI7;", "N"),                                      # ((q) . 7)
    ("1", "CCI16;I1;CI1;N", "N"),                                 # ((+ . 1) 1): unexpected head form
    ("1", "Aff80;", "CCCCCCCCI42;I1;I2;I3;I4;I5;I6;I7;I8;"),      # path 0xff80 on a deep env
    ("1", "Aff80;", "CI10;I77;"),
    ("1", "Q78ffff;", "CCCCCCCCI42;I1;I2;I3;I4;I5;I6;I7;I8;"),
    ("1", "A0005;", "CCI1;I2;I3;"),                               # zero-prefixed path: same number, agrees
    ("1", "CA0004;CCI1;I1;CCI1;I2;N", "N"),                       # operator 0x0004
    ("1", "CA2b;CCI1;I1;CCI1;I2;N", "N"),                         # operator "+"
    ("1", "CQ222b;CCI1;I1;CCI1;I2;N", "N"),
    ("1", "CI43;CCI1;I1;CCI1;I2;N", "N"),                         # operator 43 = '+'
    ("1", "CI61;CCI1;I7;CCI1;I3;N", "N"),                         # opcode 61 (%) is the name "=" (repaired: stays %)
    ("1", "CI62;CCI1;I7;CCI1;I3;N", "N"),                         # opcode 62 (keccak256) is the name ">" (repaired)
    ("1", "CI61;CCI1;I7;CCI1;I7;N", "N"), ("0", "CI61;CCI1;I17;CCI1;I5;N", "N"),
    ("1", "CA3d;CCI1;I7;CCI1;I3;N", "N"), ("1", "CQ223e;CCI1;I7;CCI1;I3;N", "N"),   # atoms "=" / ">": still by name
    ("1", "CA00;CCI1;I1;N", "N"), ("0", "CA00;CCI1;I1;N", "N"), ("1", "CA;CCI1;I1;N", "N"), ("0", "CA;CCI1;I1;N", "N"),
    ("1", "CAff04;CCI1;I1;CCI1;I2;N", "N"), ("1", "CQ78000010;CCI1;I1;CCI1;I2;N", "N"), ("1", "CA0080;CCI1;I1;N", "N"),
    ("1", "CA0004;CI5;CI2;N", "CI1;I2;"),                           # refused before the failing operand is evaluated
    ("1", "CI113;I5;", "N"),                                      # 113 = 'q'
    ("1", "CA71;I5;", "N"),
    ("1", "I0;", "CI10;I77;"), ("0", "I0;", "CI10;I77;"), ("1", "A;", "CI10;I77;"), ("1", "A00;", "CI10;I77;"),
    ("1", "Q7800;", "CI10;I77;"), ("1", "N", "CI10;I77;"),
    ("0", "CI3;CCI1;I0;CCI1;I5;CCI1;I6;N", "N"),                  # (i (q . 0) …) legacy: 0 is [0]
    ("1", "CI3;CCI1;I0;CCI1;I5;CCI1;I6;N", "N"),
    ("0", "CI3;CCI1;A00;CCI1;I5;CCI1;I6;N", "N"), ("1", "CI3;CCI1;A00;CCI1;I5;CCI1;I6;N", "N"),
    ("0", "CI16;CCI1;I2;I0;", "N"), ("1", "CI16;CCI1;I2;I0;", "N"),   # terminator Integer 0
    ("0", "CI16;CCI1;I2;A00;", "N"), ("1", "CI16;CCI1;I2;A00;", "N"),
    ("0", "CI16;CCI1;I2;A;", "N"), ("1", "CI16;CCI1;I2;Q22;", "N"),
    ("1", "CNCCI1;I2;N", "N"), ("1", "CI0;CCI1;I2;N", "N"), ("0", "CI0;CCI1;I2;N", "N"),   # nil / 0 heads
    ("1", "CI2;CCI1;CI16;CI2;CI5;NCI1;N", "CI20;CI22;N"),         # (a (q + 2 5) 1)
    ("1", "CI-1;CCI1;I2;N", "N"), ("1", "I-1;", "CCCCCCCCI42;I1;I2;I3;I4;I5;I6;I7;I8;"),
    ("1", "I128;", "CCCCCCCCI42;I1;I2;I3;I4;I5;I6;I7;I8;"), ("1", "I-128;", "CCCCCCCCI42;I1;I2;I3;I4;I5;I6;I7;I8;"),
]


def comb_env(rng, firsts, rests):
    """an environment in which `first`^firsts then `rest`^rests exists (leaves are small ints)."""
    leaf = lambda: gen.int_atom(rng.randint(1, 99))
    node = leaf()
    for _ in range(rests):
        node = (leaf(), node)
    for _ in range(firsts):
        node = (node, leaf())
    return node


def noncanon_path_lines(rng, n):
    """path atoms with a redundant sign prefix against environments deep enough for both readings."""
    out = []
    for _ in range(n):
        mode = rng.choice("01")
        low = bytes([rng.choice([0x80, 0x81, 0x82, 0x83, 0xc0, 0xff, 0xfe, 0x90])]) if rng.random() < 0.7 \
            else bytes([rng.randrange(0x80, 0x100), rng.randrange(256)])
        b = b"\xff" * rng.randint(1, 2) + low
        # the stepper walks the bits of the minimal form, clvmr those of the full atom
        bits = bin(int.from_bytes(b, "big"))[3:][::-1]
        env = None
        for bit in reversed(bits):
            leaf = gen.int_atom(rng.randint(1, 99))
            if env is None:
                env = gen.int_atom(rng.randint(1, 99))
            env = (leaf, env) if bit == "1" else (env, leaf)
        if rng.random() < 0.3:
            env = comb_env(rng, rng.randint(3, 9), rng.randint(0, 4))
        sp = rng.choice(["A", "Q78", "Q22"]) + b.hex() + ";"
        prog = sp if rng.random() < 0.6 else "CI5;C" + sp + "N"       # also as (f <path>)
        out.append(f"{mode} {prog} {rich_canon(env, mode)}")
    return out


def opcode_int_lines(rng, n):
    """operators 61 (`%`, the byte of the name "=") and 62 (`keccak256`, the byte of ">") spelled as integers, atoms and
    strings: since 5f6df3d the integer is the opcode; the one-byte atom / string is still found by NAME (OpByName).
    The driver's operator table implements neither, so these lines are judged on the implementation alone."""
    out = []
    for _ in range(n):
        mode = rng.choice("01")
        a, b = rng.randint(-40, 40), rng.randint(-9, 9)
        sp = rng.choice(["I61;", "I61;", "I62;", "I62;", "A3d;", "Q223e;"])
        qa = lambda v: "CI1;" + converter_spelling(gen.int_atom(v), mode)
        if sp in ("I62;",) and rng.random() < 0.7:
            prog = "C" + sp + "C" + qa(a) + "N"
        else:
            prog = "C" + sp + "C" + qa(a) + "C" + qa(b) + "N"
        if rng.random() < 0.3:      # under `a`, as the compiler's constant folder meets it
            prog = "CI2;CCI1;" + prog + "CI1;N"
        out.append(f"{mode} {prog} N")
    return out


def parse_out(o):
    parts = [x.strip() for x in o.split("|")]
    while len(parts) < 3:
        parts.append("")
    return parts


def flags_of(model_out):
    f = parse_out(model_out)[2]
    return [] if f in ("", "-") else f.split(",")


def outcome(part):
    """value / failure class used for the comparison with consensus."""
    w = part.split()
    if not w:
        return ("?",)
    if w[0] == "ok":
        return ("ok", w[1])
    if w[0] == "fail":
        return ("fail",)
    return (w[0],)        # timeout / cost / fuel / unsupported / panic / bad-input


def scale(n):
    """thorough-tier sizes can be scaled down on a slow / shared machine (VERIF_SCALE=0.1)."""
    import os
    return max(1, int(n * float(os.environ.get("VERIF_SCALE", "1"))))


def run(chk):
    rng = chk.rng
    quick = chk.tier == "quick"
    lib.std_obligations(chk)

    streams = {}
    if chk.replay_cases:
        c = chk.replay_cases
        cases = [c["case"]] + [m["case"] for m in c.get("more", [])] if "case" in c else \
                [x.get("first_case", {}) for x in c.get("no_longer_checks", [])]
        streams["replay"] = [x["line"] for x in cases if isinstance(x, dict) and "line" in x]
    else:
        streams["exhaustive"] = exhaustive_lines(7)
        if not quick:
            # 9-node trees: 3.5 million; a seeded sample of 900 000 on the richest environment
            e3 = rich_canon(SMALL_ENVS[2], "1")
            t9 = gen.trees(SMALL_LEAVES, 9)
            streams["sample-9-nodes"] = [f"1 {rich_canon(t, '1')} {e3}" for t in rng.sample(t9, scale(900000))]
            del t9
        # legacy mode differs only around zero atoms: exhaustive to 5 nodes there
        streams["exhaustive-legacy"] = ["0" + l[1:] for l in exhaustive_lines(5)]
        rnd, flagged, wild = [], [], []
        n_rand = 12000 if quick else scale(150000)
        for k in range(n_rand):
            mode = "1" if rng.random() < 0.7 else "0"
            if k % 3 == 0:
                prog = gen.rand_prog(rng, rng.randint(1, 4))
                env = gen.rand_env(rng, rng.randint(0, 3))
            else:
                prog, env = gen.typed_case(rng, rng.randint(1, 5))
            e = rich_any(rng, env, mode)
            rnd.append(f"{mode} {rich_canon(prog, mode)} {rich_canon(env, mode)}")
            rnd.append(f"{mode} {rich_any(rng, prog, mode)} {e}")
            if k % 2 == 0:
                for _, r in flag_variants(rng, prog, mode):
                    flagged.append(f"{mode} {r} {e}")
        for m, p, e in HAND_FLAGGED:
            flagged.append(f"{m} {p} {e}")
        for _ in range(3000 if quick else scale(60000)):
            mode = rng.choice("01")
            t = gen.rand_tree(rng, 4, small=rng.random() < 0.5)
            wild.append(f"{mode} {rich_any(rng, t, mode, 0.5)} {rich_any(rng, gen.rand_env(rng, 2), mode)}")
        flagged += noncanon_path_lines(rng, 1500 if quick else 30000)
        flagged += opcode_int_lines(rng, 300 if quick else 6000)
        ok, out = lib.build_harness()
        streams["compiled"] = [f"{m} {p} {e}" for m, p, e in compiled_cases(chk, rng, 6 if quick else 60)] if ok else []
        streams["random-typed"] = rnd
        streams["flagged-variants"] = flagged
        streams["malformed"] = wild

    chk.cov["rule"] = ("exhaustive: every tree with <= 7 nodes over {nil,1..9,16,17} (= q a i c f r l x = + -, "
                       "paths 1..7) x 3 environments, fixed mode (thorough: also a seeded sample of 900 000 of the 3.5 million 9-node trees on the "
                       "richest environment), plus <= 5 nodes in legacy mode; random-typed: "
                       "gen.rand_prog / gen.typed_case programs over all operators of Ops.chiaOps, each in the "
                       "converter's spelling and in a random spelling (Integer / Atom / QuotedString / Nil per atom), "
                       "both integer modes; flagged-variants: one operator, path or terminator re-spelled so that one "
                       "flagged branch is taken (name, zero-prefixed, ((X)...), 0xff-prefixed, zero path, legacy zero) "
                       "+ hand-written witnesses; malformed: random trees as programs. distinct = distinct lines; "
                       "non-trivial = the stepper or consensus returned a value")

    # the primitive table of the model against the runtime `prims()`
    mo, io = lib.correspond(chk, "step", ["prims"], label="step-prims", sig=lambda l, a, b: "corr:step-prims")

    for name, lines in streams.items():
        if not lines:
            continue
        mo, io = lib.correspond(chk, "step", lines, label=f"step-{name}", skip=skip_line,
                                norm_model=norm_model, norm_impl=norm_impl,
                                sig=lambda l, a, b: "corr:step", timeout=1200)
        for l, m_o, i_o in zip(lines, mo, io):
            judge(chk, name, l, m_o, i_o)
    for m, p, e in HAND_FLAGGED[:6]:
        chk.sample({"line": f"{m} {p} {e}", "prog": show_rich(p), "env": show_rich(e)}, limit=8)
    chk.cov["exhaustive"] = "all trees up to the node bound over the small alphabet (see rule)"
    chk.cov["modelled_not_verified"] = [
        "operator implementations are clvmr's on both sides (OpSem is a parameter of every theorem; i/c/f/r, which the "
        "stepper implements itself, enter as the hypothesis CoreOps, proved for the driver's table)",
        "cost limits, the step limit and softfork are outside the comparison; BLS/secp/keccak/coinid/modpow/% are not "
        "implemented by the driver's operator table (such cases are compared implementation-vs-consensus only)",
        "the nested `run` of translate_head's ((X)...) case is a parameter of the theorems (that branch is flagged)",
        "source locations and error message texts are dropped; error messages are compared by class",
    ]
    chk.assumptions.append("rich values are encoded/decoded on the line protocol by harness/src/rich.rs and Drv/RichIO.lean")


def skip_line(l, a, b):
    # limits are outside the comparison; operators the driver's table lacks are oracle-only
    ma, mb = parse_out(a), parse_out(b)
    if "unsupported" in (ma[0], ma[1]):
        return True
    if ma[0] == "timeout" or mb[0] == "timeout" or ma[1] == "fuel" or mb[1] == "cost":
        return True
    return False


def norm_model(a):
    p = parse_out(a)
    return p[0] + " | " + p[1]


def norm_impl(b):
    p = parse_out(b)
    return p[0] + " | " + p[1]


def judge(chk, stream, l, m_o, i_o):
    """property-level oracle on the implementation alone: stepper vs consensus."""
    ip = parse_out(i_o)
    st, co = outcome(ip[0]), outcome(ip[1])
    chk.note_case(l, nontrivial=(st[0] == "ok" or co[0] == "ok"))
    chk.count(f"{stream}:stepper-{st[0]}")
    chk.count(f"{stream}:consensus-{co[0]}")
    fl = flags_of(m_o)
    for f in fl:
        chk.count(f"{stream}:flag-{f}")
    if not fl:
        chk.count(f"{stream}:unflagged")
    if st[0] in ("timeout", "panic", "bad-input", "?") or co[0] in ("cost", "?"):
        if st[0] in ("panic", "bad-input", "?"):
            chk.fail("oracle", "step:harness-" + st[0], {"sub": "step", "line": l}, i_o[:300])
        chk.count(f"{stream}:limit-skipped")
        return
    if st != co:
        cls = next((f for f in FLAG_ORDER if f in fl), None)
        sig = f"step:{cls}" if cls else "step:unflagged-divergence"
        chk.count(f"{stream}:diverge-{cls or 'UNFLAGGED'}")
        w = l.split()
        chk.fail("oracle", sig, {"sub": "step", "line": l},
                 {"mode": "fixed" if w[0] == "1" else "legacy", "program": show_rich(w[1])[:300],
                  "env": show_rich(w[2])[:200], "stepper": ip[0][:200], "consensus": ip[1][:200], "flags": fl})
