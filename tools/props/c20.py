"""C20 — all operator tables agree with each other and with the evaluator.

T-tied: tools/translate_c20.py regenerates lean/ChialispModel/Generated/Tables.lean from the
current sources at the top of every run; Props/C20.lean re-checks the exhaustive sweeps over
the regenerated tables; `cvh tables dump` gives the RUNTIME tables, which must equal what the
translator extracted (python re-derives every map from the extracted rows + filters + match arms).
Oracle (implementation only): per operator name, the classic assembler, the disassembler of
every version, prims(), the classic compiler, the modern compiler, the default runner, the
stepping evaluator and compile-time evaluation must all mean the same opcode, and clvmr must
implement it; plus a scan of every one-byte opcode and the 4-byte ones per version.
"""
import json
import os
import sys

import gen
import lib

sys.path.insert(0, os.path.dirname(os.path.dirname(os.path.abspath(__file__))))
import translate_c20  # noqa: E402

LEVEL = "proof"
SIG_STEPPER = "tables:stepper-opcode-read-as-name"
G1 = bytes.fromhex("97f1d3a73197d7942695638c4fa9ac0fc3688c4f9774b905a14e3a3f171bac586c55e83ff97a1aeffb3af00adb22c6bb")
SPECIAL_SHAPE = {b"q"}            # (q A B) is a quotation, not an operator call, for both compilers


def holds(cmp_, a, b):
    return {"==": a == b, "<=": a <= b, "<": a < b, ">=": a >= b, ">": a > b}[cmp_]


def select(arms, v):
    for pat, val in arms:
        if pat is None or pat == v:
            return val
    return None


def derive_tables(s):
    """the maps the code builds, re-derived in python from what the translator extracted."""
    out = {"from": {}, "to": {}}
    for v in range(4):
        for kind, key, val, filt, sel in (("from", "opcode", "name", s["from_filters"], s["from_select"]),
                                          ("to", "name", "opcode", s["to_filters"], s["to_select"])):
            t = select(sel, v)
            c, k = filt[str(t)]
            m = {}
            for r in s["kw_rows"]:
                if holds(c, r["version"], k):
                    m[bytes(r[key])] = bytes(r[val])       # insert: last wins
            out[kind][v] = m
    return out


def atom_of_int(n):
    return gen.int_atom(n)


def lit(v):
    """a CLVM atom as chialisp source literal."""
    if v == b"":
        return "()"
    if gen.int_atom(int.from_bytes(v, "big", signed=True)) == v and len(v) <= 4:
        return str(int.from_bytes(v, "big", signed=True))
    return "0x" + v.hex()


def fields(o):
    d = {}
    for f in o.split():
        if "=" in f:
            k, v = f.split("=", 1)
            d[k] = v
    return d


def run(chk):
    rng = chk.rng
    quick = chk.tier == "quick"
    # ---- 1. regenerate the tables from the sources --------------------------------------
    try:
        _, summ = translate_c20.main()
    except translate_c20.TranslateError as e:
        chk.fail("proof", "translator:unrecognised-source", {"file": "tools/translate_c20.py"}, str(e))
        summ = None
    except Exception as e:  # noqa: BLE001
        chk.fail("proof", "translator:crashed", {}, repr(e))
        summ = None
    # ---- 2. the theorems over the regenerated tables -------------------------------------
    proofs_ok = lib.std_obligations(chk) if summ is not None else False
    chk.cov["rule"] = (
        "finite domain, swept exhaustively: every (name, opcode, version) row of KW_PAIRS, every prims() row, every "
        "one-byte opcode 0..255 and every longer operator atom mentioned anywhere, versions 0..3; model lines: "
        "from/to/prim/impl/stepimpl lookups; oracle lines: one `op` line per operator name x argument list "
        "(assemble, disassemble per version, classic + modern compile, run under versions 0,1,2/default, stepping "
        "evaluator), `prog` lines (compile-time evaluation in defconst). distinct = distinct protocol lines")
    okb, out = lib.build_harness()
    if not okb:
        chk.fail("proof", "harness-build", {}, out[-1500:])
        return
    dump = json.loads(lib.run_impl("tables", ["dump"], jobs=1)[0])
    rt = {"from": {int(v): {bytes.fromhex(k): bytes.fromhex(n) for k, n in rows} for v, rows in dump["from"].items()},
          "to": {int(v): {bytes.fromhex(n): bytes.fromhex(k) for n, k in rows} for v, rows in dump["to"].items()}}
    rt_prims = [(bytes.fromhex(n), int(c)) for n, c in dump["prims"]]
    rt_prim_map = {bytes.fromhex(n): int(c) for n, c in dump["prim_map"]}
    latest = dump["latest"]
    chk.note_case("dump")

    # ---- 3. translator output == runtime dump --------------------------------------------
    if summ is not None:
        der = derive_tables(summ)
        for kind in ("from", "to"):
            for v in range(4):
                if der[kind][v] != rt[kind][v]:
                    diff = set(der[kind][v].items()) ^ set(rt[kind][v].items())
                    chk.fail("correspondence", f"translator:keyword_{kind}_atom", {"version": v},
                             "translator and runtime disagree on " + repr(sorted(diff))[:400])
        if [(bytes(r["name"]), r["code"]) for r in summ["prims"]] != rt_prims:
            chk.fail("correspondence", "translator:prims", {}, "prims() extracted != prims() at run time")
        if summ["latest"] != latest:
            chk.fail("correspondence", "translator:latest", {}, f"{summ['latest']} != {latest}")
        chk.count("translator rows compared", sum(len(rt[k][v]) for k in rt for v in rt[k]) + len(rt_prims))

    names = sorted(set(n for v in rt["to"] for n in rt["to"][v]) | set(n for n, _ in rt_prims) |
                   (set(bytes(r["name"]) for r in summ["kw_rows"]) if summ else set()))
    atoms1 = [bytes([o]) for o in range(256)]
    long_atoms = sorted(set(a for v in rt["from"] for a in rt["from"][v] if len(a) != 1) |
                        set(atom_of_int(c) for _, c in rt_prims if len(atom_of_int(c)) != 1) |
                        (set(a.to_bytes(4, "big") for a in summ["chia"]["arms4"]) if summ else set()))
    other_atoms = [b"\x00\x10", b"\x13\xd6\x1f\x01", b"\x13\xd6\x1f", b"\x01\x00", b"\x00\x00\x00\x10", b"\x13\xd6\x1f\x00\x00",
                   b"\x1c\x3a\x8f\x01", b"\x7f\xff\xff\xff"] + [bytes(rng.randrange(1, 128) for _ in range(rng.randint(2, 5))) for _ in range(40)]

    # ---- 4. model (regenerated tables + OpTables.lean) vs implementation -------------------
    mlines = []
    for v in (0, 1, 2, 3, 9):
        for a in atoms1 + long_atoms + other_atoms + [b""]:
            mlines.append(f"from {v} x{a.hex()}")
        for n in names + [n + b"x" for n in names[:5]] + [n[:-1] for n in names if len(n) > 1][:10] + [b"", b"Q", b"SHA256"]:
            mlines.append(f"to {v} x{n.hex()}")
    for n in names + [b"", b"zz", b"Q", b"com", b"opt", b"@"]:
        mlines.append(f"prim x{n.hex()}")
    impl_lines = []
    for v in (0, 1, 2, 3):
        for a in atoms1 + long_atoms + other_atoms + [b""]:
            impl_lines.append(f"impl {v} x{a.hex()}")
    mlines += impl_lines
    for a in atoms1[1:0x80] + long_atoms + names:
        mlines.append(f"stepimpl x{a.hex()}")
    dis_lines = []
    for v in (0, 1, 2, 3):
        for a in atoms1 + long_atoms + other_atoms:
            dis_lines.append(f"dis {v} x{a.hex()}")
    for l in mlines:
        chk.note_case(l)
    chk.sample({"line": mlines[0x30], "meaning": "from <version> x<atom>: keyword_from_atom(version).get(atom)"})
    chk.sample({"line": impl_lines[0x3e + 2 * (256 + len(long_atoms) + len(other_atoms) + 1)], "meaning": "impl <version> x<atom>: does the dialect of that version implement the operator"})
    have_model = proofs_ok or lib.lake_build(["modeld"])[0]
    all_names = set(names)

    def printed_name(o):
        # the implementation prints text; the model says which keyword (if any) is printed
        if o.startswith("x"):
            try:
                return o if bytes.fromhex(o[1:]) in all_names else "-"
            except ValueError:
                return o
        return o
    if have_model:
        mo, io = lib.correspond(chk, "tables", mlines, label="tables-model")
        lib.correspond(chk, "tables", dis_lines, norm_impl=printed_name, label="tables-dis")
        for l in dis_lines:
            chk.note_case(l)
    else:
        io = lib.run_impl("tables", mlines)
    impl_of = {l: o for l, o in zip(mlines, io)}

    # ---- 5. the property's own oracle, on the implementation alone --------------------------
    prim_names = set(n for n, _ in rt_prims)
    # A. the runtime tables agree with each other
    for n in names:
        case = {"operator": n.decode("latin-1")}
        ats = {v: rt["to"][v].get(n) for v in range(4)}
        present = {v: a for v, a in ats.items() if a is not None}
        if len(set(present.values())) > 1:
            chk.fail("oracle", "tables:name-opcode-differs-between-versions", case, repr(ats))
        if n in rt_prim_map:
            pa = atom_of_int(rt_prim_map[n])
            if rt["to"][latest].get(n) != pa:
                chk.fail("oracle", "tables:prims-vs-classic", case,
                         f"prims(): {pa.hex()}, keyword_to_atom({latest}): {rt['to'][latest].get(n)}")
        elif n in rt["to"][latest]:
            chk.fail("oracle", "tables:prims-vs-classic", case, "named by the classic table, unknown to prims()")
        for v, a in present.items():
            if rt["from"][v].get(a) != n:
                chk.fail("oracle", "tables:not-inverse", dict(case, version=v),
                         f"keyword_to_atom gives {a.hex()}, keyword_from_atom gives {rt['from'][v].get(a)}")
            for w in range(v, 4):
                if rt["to"][w].get(n) != a:
                    chk.fail("oracle", "tables:not-monotone", dict(case, version=v, later=w), f"{rt['to'][w].get(n)}")
    if len(rt_prims) != len(rt_prim_map):
        chk.fail("oracle", "tables:duplicate-prim-name", {}, "prims() has a repeated name")

    # B/C. one-operator programs
    argsets = {n: [[], [b"\x01"], [b"\x01", b"\x02"], [b"\x07", b"\x03", b"\x05"], [(b"\x01", b"\x02")],
                   # negative / top-bit operands: where signed and unsigned readings of an operand part ways
                   [b"\xff", b"\x01"], [b"\x80", b"\x02"], [b"\xff\x7f", b"\x03"], [b"\xfb", b"\xfe"], [b"\x00\x80", b"\xff"]]
               for n in names}
    canned = {
        b"sha256": [[b"abc"]], b"keccak256": [[b"abc"], [b"abc", b"de"]], b"%": [[b"\x07", b"\x03"], [b"\x08", b"\x03"]],
        b"modpow": [[b"\x02", b"\x0a", b"\x07"]], b"coinid": [[bytes(32), bytes(range(32)), b"\x05"]],
        b"pubkey_for_exp": [[b"\x01"]], b"point_add": [[G1, G1]], b"g1_subtract": [[G1, G1]], b"g1_multiply": [[G1, b"\x02"]],
        b"g1_negate": [[G1]], b"g1_map": [[b"abc"]], b"g2_map": [[b"abc"]], b"substr": [[b"hello", b"\x01", b"\x03"]],
        b"concat": [[b"ab", b"cd"]], b"strlen": [[b"abc"]], b"ash": [[b"\x04", b"\x02"]], b"lsh": [[b"\x04", b"\x02"]],
        b"i": [[b"\x01", b"\x05", b"\x06"]], b"c": [[b"\x01", b"\x02"]], b"f": [[(b"\x01", b"\x02")]], b"r": [[(b"\x01", b"\x02")]],
        b"l": [[(b"\x01", b"\x02")]], b"a": [[(b"\x01", b"\x09"), b"\x02"]], b"divmod": [[b"\x07", b"\x03"]],
        b"/": [[b"\x07", b"\x03"]], b">": [[b"\x07", b"\x03"]], b">s": [[b"b", b"a"]], b"=": [[b"\x07", b"\x07"]],
    }
    olines = []
    for n in names:
        for args in argsets[n] + canned.get(n, []):
            olines.append((f"op {n.hex()} {gen.hexv(gen.lst(args))}", n, args))
    oo = lib.run_impl("tables", [l for l, _, _ in olines])
    g2 = None
    for (l, n, args), o in zip(olines, oo):
        if n == b"g2_map" and args == [b"abc"] and "ref=ok:" in o:
            try:
                g2 = gen.unhex(fields(o)["ref"][3:])
            except Exception:  # noqa: BLE001
                g2 = None
    if g2 is not None:
        extra = [(b"g2_add", [g2, g2]), (b"g2_subtract", [g2, g2]), (b"g2_multiply", [g2, b"\x02"]), (b"g2_negate", [g2]),
                 (b"bls_pairing_identity", [G1, g2]), (b"bls_verify", [g2, G1, b"msg"])]
        el = [(f"op {n.hex()} {gen.hexv(gen.lst(a))}", n, a) for n, a in extra if n in names]
        oo += lib.run_impl("tables", [l for l, _, _ in el])
        olines += el
    proglines = []
    for (l, n, args), o in zip(olines, oo):
        chk.note_case(l)
        case = {"operator": n.decode("latin-1"), "args": gen.show(gen.lst(args)), "line": l}
        f = fields(o)
        if o == "panic" or "ref" not in f:
            chk.fail("oracle", "tables:panic" if o == "panic" else "tables:harness-error", case, o[:200])
            continue
        want = rt["to"][latest].get(n)
        if want is None:
            # a primitive of the modern compiler only
            want = atom_of_int(rt_prim_map[n]) if n in rt_prim_map else None
        if want is None or f["asm"] != want.hex():
            if n in rt["to"][latest]:
                chk.fail("oracle", "tables:assembler", case, f"assembles to {f['asm']}, table says {want}")
        if f["prim"] != f["asm"]:
            chk.fail("oracle", "tables:prims-vs-classic", case, f"prim_map gives {f['prim']}, the assembler {f['asm']}")
        text = b"(" + n + b")"
        for v in range(4):
            shown = bytes.fromhex(f[f"dis{v}"])
            named = n in rt["to"][v]
            if named != (shown == text):
                long_known = named and len(rt["to"][v][n]) > 2
                chk.fail("oracle", "tables:disassembler-long-opcode" if long_known else "tables:disassembler", dict(case, version=v),
                         f"prints {shown!r}; the name is {'in' if named else 'not in'} the version's table")
        opatom = bytes.fromhex(f["asm"])
        if args and n not in SPECIAL_SHAPE:
            # not an oracle: both compilers may legitimately rewrite a call (`/` is a macro over divmod,
            # (f A) becomes a path); the meaning is compared below by running the compiled programs
            paths = [2, 5, 11, 23, 47][:len(args)]
            expect = gen.hexv((opatom, gen.lst([gen.int_atom(p) for p in paths])))
            chk.count("classic compile is the bare operator call" if f["cc"] == expect else "classic compile rewrites the call / fails")
            chk.count("modern compile is the bare operator call" if f["mc"] == expect else "modern compile rewrites the call / fails")
        ref = f["ref"]
        chk.count("op outcome " + ref[:3])
        if ref == "unimpl":
            chk.fail("oracle", "tables:not-implemented", case, "clvmr (all operators enabled) does not implement the opcode")
        for v in range(3):
            if n in rt["to"][v] and f[f"r{v}"] == "unimpl":
                chk.fail("oracle", "tables:not-implemented", dict(case, version=v),
                         f"named in version {v} but the runner of that version says unimplemented operator")
        if f["rd"] != ref:
            chk.fail("oracle", "tables:default-runner-differs", case, f"default runner {f['rd'][:60]}, clvmr {ref[:60]}")
        for v in range(3):
            # every runner version that names the operator computes what clvmr computes for it
            if n in rt["to"][v] and f[f"r{v}"] != "unimpl" and f[f"r{v}"] != ref:
                chk.fail("oracle", "tables:runner-version-differs", dict(case, version=v),
                         f"runner of operators version {v} gives {f[f'r{v}'][:60]}, clvmr {ref[:60]}")
        collide = opatom in prim_names
        if f["st"] != ref:
            chk.fail("oracle", SIG_STEPPER if collide else "tables:stepper-differs", case,
                     f"stepping evaluator {f['st'][:60]}, clvmr {ref[:60]}")
        for k, what in (("rcc", "classic"), ("rmc", "modern")):
            # on argument lists the operator accepts, the compiled one-operator program must compute
            # what clvmr computes for the operator
            if args and n not in SPECIAL_SHAPE and ref.startswith("ok:") and f[k] != ref:
                chk.fail("oracle", f"tables:{what}-compiled-run-differs", case,
                         f"(mod (A..) ({n.decode('latin-1')} A..)) compiled by the {what} compiler gives {f[k][:60]}, clvmr {ref[:60]}")
        if ref.startswith("ok:") and args and all(isinstance(a, bytes) for a in args) and n not in SPECIAL_SHAPE and n != b"a":
            src = f"(mod () (include *standard-cl-23*) (defconst K ({n.decode('latin-1')} {' '.join(lit(a) for a in args)})) (c K ()))"
            proglines.append((f"prog {src.encode().hex()}", n, args, "ff" + ref[3:] + "80", collide, src))

    # E. compile-time evaluation (defconst) must mean the same operator
    po = lib.run_impl("tables", [l for l, *_ in proglines], timeout=900)
    for (l, n, args, want, collide, src), o in zip(proglines, po):
        chk.note_case(l)
        case = {"operator": n.decode("latin-1"), "program": src}
        f = fields(o)
        if f.get("rd") != "ok:" + want:
            chk.fail("oracle", SIG_STEPPER if collide else "tables:compile-time-eval-differs", case,
                     f"program gives {o[:120]}, the operator at run time gives ({want})")
        else:
            chk.count("prog: compile-time evaluation agrees")
    if proglines:
        chk.sample({"line": proglines[0][5], "meaning": "prog: operator evaluated at compile time (defconst)"})
    chk.sample({"line": olines[len(olines) // 2][0], "meaning": "op <name hex> <argument list, clvm hex>"})

    # D. opcode scan: named in version v <=> implemented by the runner of version v
    for v in (0, 1, 2):
        for a in atoms1 + long_atoms:
            o = impl_of.get(f"impl {v} x{a.hex()}")
            named = a in rt["from"][v]
            if o not in ("0", "1"):
                chk.fail("oracle", "tables:panic", {"line": f"impl {v} x{a.hex()}"}, str(o))
            elif named and o == "0":
                chk.fail("oracle", "tables:not-implemented", {"opcode": a.hex(), "version": v, "operator": rt["from"][v][a].decode("latin-1")},
                         "named by the disassembler, unknown to the runner of that version")
            elif not named and o == "1":
                chk.fail("oracle", "tables:implemented-not-named", {"opcode": a.hex(), "version": v},
                         "the runner of that version implements an operator the tables do not name")
    chk.count("scan: (version, opcode) pairs", 3 * (256 + len(long_atoms)))
    chk.cov["exhaustive"] = True
    chk.cov["modelled_not_verified"] = [
        "operator SEMANTICS are clvmr's (the oracle); C20 is about which opcode a name denotes and whether it is dispatched",
        "softfork extensions (operators enabled only inside a softfork guard) are not part of any table here",
        "the stepping evaluator is modelled only in how it resolves the operator in head position (translate_head)",
        "tools/translate_c20.py is a purpose-built extractor (regex + bracket matching); its output is compared with the runtime tables on every run",
    ]
    chk.assumptions.append("clvmr source is read from the cargo registry copy of the version locked in /repo/Cargo.lock")
