"""C07 — rich s-expression values and CLVM values convert without loss; hashes agree."""
import itertools

import gen
import lib

LEVEL = "proof"


def rich_of_atom_variants(b):
    """spellings of the same atom the reader / converter can produce (all Readable)."""
    out = []
    if b == b"":
        out += ["N", "A;", "Q22;"]
    else:
        out += ["A" + b.hex() + ";", "Q22" + b.hex() + ";", "Q78" + b.hex() + ";"]
        i = int.from_bytes(b, "big", signed=True)
        l = max(1, (i.bit_length() + 8) // 8) if i >= 0 else ((-i - 1).bit_length() + 8) // 8
        if i != 0 and i.to_bytes(l, "big", signed=True) == b:
            out.append(f"I{i};")
    return out


def rich_of_val(rng, v):
    if isinstance(v, tuple):
        return "C" + rich_of_val(rng, v[0]) + rich_of_val(rng, v[1])
    return rng.choice(rich_of_atom_variants(v))


def run(chk):
    rng = chk.rng
    quick = chk.tier == "quick"
    lib.std_obligations(chk)
    chk.cov["rule"] = ("v-lines: every atom of length 0..2 (quick; 0..3 thorough) exhaustively, alone and inside small trees, "
                       "plus random/boundary longer atoms, x both integer modes; r-lines: rich spellings (incl. the "
                       "unreadable Integer 0); e-lines: pairs of rich spellings of equal and of different CLVM values. "
                       "distinct = distinct protocol lines; non-trivial = atom non-empty or a pair")
    atoms = [b""] + [bytes([x]) for x in range(256)] + [bytes([x, y]) for x in range(256) for y in range(256)]
    if quick:
        atoms += [bytes([rng.randrange(256), rng.randrange(256), rng.randrange(256)]) for _ in range(30000)]
        atoms += [bytes([x, y, z]) for x in (0, 0x7f, 0x80, 0xff) for y in (0, 0x7f, 0x80, 0xff) for z in range(256)]
    else:
        atoms += [bytes([x, y, z]) for x in range(256) for y in range(256) for z in range(0, 256)]
    extra = list(gen.BOUNDARY_ATOMS) + [gen.rand_atom(rng) for _ in range(3000)]
    extra += [bytes(rng.randrange(256) for _ in range(n)) for n in (33, 64, 1000, 5000)]
    extra += [b"\x00" * n + b"\x01" for n in range(1, 6)] + [b"\xff" * n + b"\x80" for n in range(1, 6)]
    lines = []
    for m in ("0", "1"):
        for b in atoms + extra:
            lines.append(f"v {m} {gen.hexv(b)}")
    small = [b"", b"\x00", b"\x01", b"\x80", b"\x00\x80", b"\xff\xff", b"abc", b"a\\b", b'"']
    for m in ("0", "1"):
        for t in gen.trees_upto(small, 5):
            lines.append(f"v {m} {gen.hexv(t)}")
        for _ in range(3000 if quick else 60000):
            lines.append(f"v {m} {gen.hexv(gen.rand_tree(rng, 4))}")
    rlines = []
    for m in ("0", "1"):
        for b in [b""] + [bytes([x]) for x in range(256)] + extra[:400]:
            for r in rich_of_atom_variants(b):
                rlines.append(f"r {m} {r}")
        rlines.append(f"r {m} I0;")
        rlines.append(f"r {m} CI0;N")
        for _ in range(2000 if quick else 40000):
            rlines.append(f"r {m} {rich_of_val(rng, gen.rand_tree(rng, 3))}")
    elines = []
    for _ in range(6000 if quick else 100000):
        v = gen.rand_tree(rng, 3)
        a = rich_of_val(rng, v)
        if rng.random() < 0.5:
            b = rich_of_val(rng, v)
        else:
            b = rich_of_val(rng, gen.rand_tree(rng, 3) if rng.random() < 0.5 else mutate(rng, v))
        elines.append(f"e {a} {b}")
    for x, y in itertools.product(["N", "A;", "Q22;", "A00;", "Q7800;", "I1;", "A01;", "A0001;", "I-1;", "Aff;", "CNN"], repeat=2):
        elines.append(f"e {x} {y}")
    elines.append("e I0; N")   # the unreadable witness of Props/C07.readable_needed

    for l in lines + rlines + elines:
        chk.note_case(l, nontrivial=not l.endswith(" 80"))
    chk.sample({"line": lines[300], "meaning": "v <mode> <clvm hex>"})
    chk.sample({"line": rlines[5], "meaning": "r <mode> <rich>"})
    chk.sample({"line": elines[0], "meaning": "e <rich> <rich>"})

    # correspondence model vs implementation
    def first4(s):
        return " ".join(s.split()[:4])
    mo, io = lib.correspond(chk, "conv", lines, label="conv-v")
    _, rio = lib.correspond(chk, "conv", rlines, norm_model=first4, norm_impl=first4, label="conv-r")
    _, eio = lib.correspond(chk, "conv", elines, label="conv-e")

    # property-level oracle on the implementation alone
    for l, o in zip(lines, io):
        f = o.split()
        h = l.split()[2]
        if len(f) < 5:
            chk.fail("oracle", "conv:error", {"line": l}, o)
            continue
        if f[1] != h:
            chk.fail("oracle", "conv:roundtrip", {"line": l}, f"converted back to {f[1]}")
        if f[2] != f[3]:
            chk.fail("oracle", "conv:rich-hash", {"line": l}, f"rich tree hash {f[2]} != consensus {f[3]}")
        if f[4] != f[3]:
            chk.fail("oracle", "conv:table-hash", {"line": l}, f"symbol-table hash {f[4]} != consensus {f[3]}")
        if len(f) > 5:
            chk.fail("oracle", "conv:classic-hash", {"line": l}, o)
    for l, o in zip(rlines, rio):
        f = o.split()
        if len(f) < 4:
            chk.fail("oracle", "conv:error", {"line": l}, o)
            continue
        if f[1] != f[2]:
            chk.fail("oracle", "conv:rich-hash", {"line": l}, f"rich tree hash {f[1]} != consensus hash of its CLVM form {f[2]}")
    for l, o in zip(elines, eio):
        f = o.split()
        if len(f) != 3:
            chk.fail("oracle", "conv:error", {"line": l}, o)
            continue
        if "I0;" in l:
            continue      # Integer 0 is outside the property's quantifier (never read / converted)
        if f[0] != f[2]:
            chk.fail("oracle", "conv:eq", {"line": l}, f"== is {f[0]} but CLVM encodings equal is {f[2]}")
        if f[0] == "1" and f[1] != "1":
            chk.fail("oracle", "conv:hash-eq", {"line": l}, "equal values hash differently")
    chk.cov["exhaustive"] = not quick
    chk.cov["modelled_not_verified"] = [
        "SHA-256 is abstract in the theorems (any H); the driver uses a Lean implementation validated against sha2 by these runs",
        "std Hash: the model compares the data fed to the hasher; the harness compares DefaultHasher outputs",
    ]
    chk.assumptions.append("rich values are encoded/decoded on the line protocol by harness/src/rich.rs and Drv/RichIO.lean")


def mutate(rng, v):
    if isinstance(v, tuple):
        if rng.random() < 0.5:
            return (mutate(rng, v[0]), v[1])
        return (v[0], mutate(rng, v[1]))
    c = [b"", b"\x00", v + b"\x00", b"\x00" + v, v[:-1], bytes([(v[0] ^ 0x80)]) + v[1:] if v else b"\x01"]
    return rng.choice(c)
