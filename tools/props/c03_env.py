"""C03, environment layout of the classic compiler (stage_2/module.rs).

Two parts, both on generated parameter trees (1..40 names; flat, dotted, nested, first/rest chains
up to 72 levels, `(@ n pat)` captures incl. the shapes `is_at_capture` rejects, repeated names,
integer / string / `64` / `0x40` leaves) and 0..12 used helpers (+ unused ones that must be pruned):

 * correspondence `classicenv`: the symbol tables (`symbol_table_for_tree` over the arguments and
   over `build_tree` of the sorted used names, `add_one_function`'s `local ++ constants`), the
   argument-root choice and the `build_tree_program` tree of the REAL compiler — read off the
   unevaluated result of the stage-2 `com` operator (harness/src/classicenv.rs) — against the
   model `Lang/ClassicEnv.lean` the theorems of Props/C03.lean are about (byte identity);
 * oracle (implementation alone): `(mod PAT NAME)` and `(mod PAT (defconstant KK 1000) (c KK NAME))`
   compiled by the real classic compiler (`compile_clvm_text`) and run by clvmr on an argument
   tree fitted to PAT must return the value the source-level destructuring binds to NAME.
   A failure of the second form is classified by the strict optimiser model (`modeld opt`):
   the classic compiler runs the classic optimiser on `(a (q . BODY) (c (q . CONSTANTS) 1))`
   (signature compile:classic-opt-signed-path = C01-F3; anything else is a new failure — in
   particular a parameter 32+ levels deep, the former finding C03-deep-path-get-u32 repaired in
   /repo c2e6c4f: the chains of depth 30..40 below are always generated);
 * oracle for the constants tree (`helper_oracle`): programs with 0..12 used constants / functions
   (+ unused ones), every helper evaluated by the main expression, shallow parameter trees; run
   with a cost limit (`cvh classicenv`, `run` lines).  Also run on a widened sample whenever the
   layout correspondence disagrees (search for a failing input).
"""
import gen
import lib
import progen
from progen import S, I, L, NILT

LEAD = "ABCDEFGHJKLMNPRSTUVWYZ"
TAILC = "ABCXYZabcxyz0123456789_"


def fresh_name(rng, used, short=False):
    while True:
        k = rng.choice([1, 1, 2, 2, 3, 4, 6]) if not short else rng.choice([1, 2])
        n = rng.choice(LEAD) + "".join(rng.choice(TAILC) for _ in range(k - 1))
        if n not in used:
            used.add(n)
            return n


class PatGen:
    """parameter trees as progen trees; `names` = identifiers bound (with repetitions)."""

    def __init__(self, rng, odd):
        self.rng = rng
        self.odd = odd           # allow shapes outside classicPatOk / odd capture shapes
        self.used = set()
        self.names = []
        self.features = set()

    def leaf(self):
        r = self.rng.random()
        if self.names and r < 0.06:
            self.features.add("repeated-name")
            n = self.rng.choice(self.names)
            self.names.append(n)
            return S(n)
        if self.odd and r < 0.12:
            k = self.rng.choice(["int", "int64", "hex40", "str", "zero", "nil", "neg"])
            self.features.add("leaf:" + k)
            if k == "int":
                return I(self.rng.choice([1, 5, 63, 91, 127, 128, 200, 255, 256, 70000]))  # not 65..90: those are the atoms "A".."Z"
            if k == "int64":
                return I(64)
            if k == "hex40":
                return ("hex", b"\x40")
            if k == "str":
                return ("str", self.rng.choice([b"ab", b"Zq9", b"@"]))
            if k == "zero":
                return I(0)
            if k == "neg":
                return I(-self.rng.choice([1, 2, 128, 129, 300]))
            return NILT
        n = fresh_name(self.rng, self.used)
        self.names.append(n)
        return S(n)

    def capture(self, sub):
        r = self.rng.random()
        if not self.odd or r < 0.6:
            self.features.add("capture")
            n = fresh_name(self.rng, self.used)
            self.names.append(n)
            return L(S("@"), S(n), sub)
        k = self.rng.choice(["one", "three", "dotted", "pairname", "intname", "int64head", "nilname", "strhead"])
        self.features.add("capture-odd:" + k)
        n = self.leaf()
        if k == "one":
            return L(S("@"), n)
        if k == "three":
            return L(S("@"), n, sub, self.leaf())
        if k == "dotted":
            return L(S("@"), n, tail=sub)
        if k == "pairname":
            return L(S("@"), L(n, self.leaf()), sub)
        if k == "intname":
            return L(S("@"), I(self.rng.choice([5, 64, 300])), sub)
        if k == "int64head":
            return L(I(64), n, sub)
        if k == "nilname":
            return L(S("@"), NILT, sub)
        return L(("str", b"@"), n, sub)

    def tree(self, n, depth=0):
        """a tree with about n leaves."""
        rng = self.rng
        if n <= 1:
            t = self.leaf()
        else:
            style = rng.random()
            if style < 0.45 or depth > 6:
                # list of sub-trees, proper or dotted
                k = rng.randint(2, min(n, 6)) if n > 2 else 2
                parts = split(rng, n, k)
                items = [self.tree(p, depth + 1) for p in parts]
                if rng.random() < 0.3 and len(items) >= 2:
                    self.features.add("dotted")
                    t = L(*items[:-1], tail=items[-1])
                else:
                    t = L(*items)
            else:
                a = rng.randint(1, n - 1)
                self.features.add("pair")
                t = L(self.tree(a, depth + 1), tail=self.tree(n - a, depth + 1))
        if rng.random() < 0.12:
            t = self.capture(t)
        return t

    def flat(self, n, dotted=False):
        items = [self.leaf() for _ in range(n)]
        if dotted and n >= 2:
            return L(*items[:-1], tail=items[-1])
        return L(*items)

    def chain(self, depth, kind):
        """a leaf `depth` levels down a first-chain, a rest-chain, or a random zig-zag."""
        t = self.leaf()
        for i in range(depth):
            side = {"first": 0, "rest": 1}.get(kind, self.rng.randint(0, 1))
            other = self.leaf() if self.rng.random() < 0.3 else NILT
            if side == 0:
                t = L(t, tail=other)
            else:
                t = L(other, tail=t)
            if self.rng.random() < 0.04:
                t = self.capture(t)
        self.features.add(f"chain-{kind}")
        return t


def split(rng, n, k):
    cuts = sorted(rng.sample(range(1, n), k - 1)) if n > k - 1 and k > 1 else []
    parts, prev = [], 0
    for c in cuts + [n]:
        parts.append(c - prev)
        prev = c
    return [p for p in parts if p > 0]


def gen_pattern(rng, odd):
    g = PatGen(rng, odd)
    r = rng.random()
    if r < 0.25:
        n = rng.choice([1, 2, 3, 5, 7, 8, 15, 16, 17, 23, 24, 31, 32, 33, 40])
        t = g.flat(n, dotted=rng.random() < 0.3)
        g.features.add("flat")
    elif r < 0.45:
        t = g.chain(rng.choice([1, 6, 7, 8, 14, 15, 16, 23, 30, 31, 32, 33, 39, 40, 47, 63, 64, 72]),
                    rng.choice(["first", "rest", "zigzag", "zigzag"]))
    else:
        t = g.tree(rng.choice([1, 2, 3, 4, 6, 9, 13, 21, 34, 40]))
        g.features.add("nested")
    if t[0] == "sym" and rng.random() < 0.5:
        g.features.add("atom-args")
    return t, g


# ---- source-level meaning of a parameter pattern (Lang.bindPat), for the oracle --------------

def is_capture(t):
    return (t[0] == "list" and t[2] is None and len(t[1]) == 3 and t[1][0] == ("sym", "@")
            and t[1][1][0] == "sym")


def as_pair(t):
    """a list node as (head, tail-node)"""
    items, tail = t[1], t[2]
    if len(items) == 1:
        return items[0], (tail if tail is not None else NILT)
    return items[0], ("list", items[1:], tail)


def fit(t, counter):
    """an argument value with a distinct atom at every leaf position, and the bindings in walk order."""
    k = t[0]
    if k == "nil" or (k == "int" and t[1] == 0):
        return b"", []
    if k in ("sym", "int", "str", "hex"):
        counter[0] += 1
        v = gen.int_atom(1000 + counter[0])
        return v, [(leaf_name(t), v)]
    if is_capture(t):
        v, b = fit(t[1][2], counter)
        return v, [(t[1][1][1].encode(), v)] + b
    a, d = as_pair(t)
    va, ba = fit(a, counter)
    vd, bd = fit(d, counter)
    return (va, vd), ba + bd


def leaf_name(t):
    if t[0] == "sym":
        return t[1].encode()
    if t[0] == "int":
        n = t[1]
        return n.to_bytes((n.bit_length() + 8) // 8, "big", signed=True) if n else b"\x00"
    return t[1]


def depth_of(t):
    if t[0] != "list":
        return 0
    a, d = as_pair(t)
    return 1 + max(depth_of(a), depth_of(d))


# ---- the check ------------------------------------------------------------------------------------

def helper_decls(rng, g, nh, nunused):
    used = g.used          # one pool: the pruning of unused helpers goes by atoms anywhere in used code
    decls, model, mentioned = [], [], []
    for i in range(nh + nunused):
        name = fresh_name(rng, used, short=rng.random() < 0.4)
        # occasionally a helper named like a parameter: the parameter shadows it
        if i < nh and g.names and rng.random() < 0.05:
            cand = rng.choice(g.names)
            if cand not in [m for m in mentioned]:
                name = cand
                g.features.add("helper-named-like-parameter")
        if name in mentioned or any(d[0] == name for d in decls):
            continue
        if rng.random() < 0.6:
            pg = PatGen(rng, False)
            pg.used = used
            args = pg.tree(rng.choice([1, 1, 2, 3, 5])) if rng.random() < 0.8 else pg.flat(rng.choice([0, 1, 2]))
            if args[0] == "list" and not args[1]:
                args = NILT
            decls.append((name, f"(defun {name} {progen.text(args)} (q . {name}))"))
            if i < nh:
                model.append("F" + name.encode().hex() + ":" + progen.rich(args))
        else:
            decls.append((name, f"(defconstant {name} {name})"))
            if i < nh:
                model.append("K" + name.encode().hex())
        if i < nh:
            mentioned.append(name)
    rng.shuffle(decls)
    return [d[1] for d in decls], model, mentioned


def strip_ok(s):
    return s.split("  #ok=")[0]


def run(chk, n_layout, n_oracle):
    rng = chk.rng
    # ---- part 1: layout correspondence
    lines, meta = [], []
    for i in range(n_layout):
        pat, g = gen_pattern(rng, odd=(i % 4 == 3))
        nh = rng.choice([0, 0, 1, 1, 2, 3, 4, 5, 6, 7, 8, 9, 10, 11, 12])
        decls, model, mentioned = helper_decls(rng, g, nh, rng.choice([0, 0, 1, 2]))
        body = "(q " + " ".join(mentioned) + ")" if mentioned else "(q)"
        src = f"(mod {progen.text(pat)} {' '.join(decls)} {body})"
        lines.append(" ".join([src.encode().hex(), progen.rich(pat)] + model))
        meta.append((src, g, len(mentioned), pat))
    mo, io = lib.correspond(chk, "classicenv", lines, norm_model=strip_ok,
                            sig=lambda l, a, b: "corr:classicenv", label="classicenv", per_job=40, timeout=300)
    for (src, g, nh, pat), a, b in zip(meta, mo, io):
        chk.note_case(("classicenv", src))
        chk.count(f"classicenv:helpers:{nh}")
        chk.count(f"classicenv:names:{min(len(g.names), 40) // 8 * 8}+")
        chk.count(f"classicenv:depth:{min(depth_of(pat), 72) // 16 * 16}+")
        for f in g.features:
            chk.count("classicenv:feature:" + f)
        chk.count("classicenv:classicPatOk:" + (a.split("#ok=")[-1] if "#ok=" in a else "?"))
        if b.startswith("E ") or b.startswith("shape:") or b in ("panic", "timeout", "missing") or b.startswith("abort"):
            chk.count("classicenv:impl-" + b.split()[0])
        # widest path atom seen
        w = max([len(e.split(":")[1]) // 2 for e in b.split(";")[0][5:].split(",") if ":" in e] or [0])
        chk.count(f"classicenv:widest-path-bytes:{min(w, 9)}")
        if a.split("  #ok=")[0] != b and a.endswith("#ok=1"):
            # search for a failing input around the disagreeing case: does the compiled program
            # still return the bound values?  (only where classic and source-level destructuring
            # are meant to coincide)
            oracle_cases(chk, [(pat, g)], rng, tag="after-disagreement")
    if any(strip_ok(a) != b for a, b in zip(mo, io)):
        # widened neighbourhood: do programs with a constants tree still compute the right values?
        helper_oracle(chk, rng, 300, tag="helpers-after-disagreement")
    if lines:
        chk.sample({"classicenv_source": meta[0][0][:400], "model": mo[0][:300], "impl": io[0][:300]})

    # ---- part 2: property-level oracle on the same kind of trees (classicPatOk shapes only)
    cases = []
    for i in range(n_oracle):
        pat, g = gen_pattern(rng, odd=False)
        cases.append((pat, g))
    # the boundary classes the proofs and the findings speak about, always present
    # (depths 31/32, 39/40, 47/48, … put the top bit of a 4-, 5-, 6-… byte path atom: former finding C03-deep-path-get-u32)
    for d in (30, 31, 32, 33, 39, 40, 47, 48, 56, 64):
        g = PatGen(rng, False)
        cases.append((g.chain(d, "first"), g))
    for n in (15, 16, 17, 31, 33, 40):
        g = PatGen(rng, False)
        cases.append((g.flat(n), g))
    oracle_cases(chk, cases, rng, tag="oracle")
    helper_oracle(chk, rng, max(60, n_oracle // 2), tag="oracle-helpers")


def helper_oracle(chk, rng, n, tag):
    """property-level oracle for the constants tree (implementation alone): programs with 0..12 used
    constants / functions (functions use constants and earlier functions) + unused ones; every
    helper is evaluated by the main expression; parameter trees kept shallow (<= 12 levels) so
    that the listed optimiser finding (sign-extended paths, C01-F3) cannot interfere."""
    il, info = [], []
    for _ in range(n):
        while True:
            g = PatGen(rng, False)
            pat = g.tree(rng.choice([1, 2, 3, 5, 8])) if rng.random() < 0.7 else g.flat(rng.choice([1, 2, 4, 9, 12]))
            if depth_of(pat) <= 12 and g.names:
                break
        v, binds = fit(pat, [0])
        first = {}
        for nm, val in binds:
            first.setdefault(nm, val)
        nh = rng.choice([0, 1, 2, 3, 3, 4, 5, 6, 7, 8, 9, 10, 11, 12])
        consts, fns, decls, parts, expect = [], [], [], [], []
        for j in range(nh + rng.choice([0, 0, 1, 2])):
            name = fresh_name(rng, g.used, short=rng.random() < 0.4)
            unused = j >= nh
            if rng.random() < 0.45:
                val = 5000 + j
                decls.append(f"(defconstant {name} {val})")
                if not unused:
                    consts.append((name, gen.int_atom(val)))
                    parts.append(name)
                    expect.append(gen.int_atom(val))
            else:
                tagv = gen.int_atom(6000 + j)
                body, fn = "Arg_", (lambda a: a)      # `Arg_` cannot be produced by fresh_name
                if fns and rng.random() < 0.5 and not unused:
                    cn, cf = rng.choice(fns)
                    body, fn = f"({cn} Arg_)", cf
                if consts and rng.random() < 0.5 and not unused:
                    kn, kv = rng.choice(consts)
                    body, fn = f"(c {kn} {body})", (lambda a, kv=kv, f0=fn: (kv, f0(a)))
                decls.append(f"(defun {name} (Arg_) (c {6000 + j} {body}))")
                f2 = (lambda a, t=tagv, f0=fn: (t, f0(a)))
                if not unused:
                    fns.append((name, f2))
                    arg = rng.choice(sorted(first))
                    if not (all(48 <= c < 127 for c in arg) and arg.decode() in g.used):
                        arg = sorted(x for x in first if x.decode() in g.used)[0]
                    parts.append(f"({name} {arg.decode()})")
                    expect.append(f2(first[arg]))
        rng.shuffle(decls)
        pname = sorted(x for x in first if x.decode() in g.used)[0]
        parts.append(pname.decode())
        expect.append(first[pname])
        src = f"(mod {progen.text(pat)} {' '.join(decls)} (list {' '.join(parts)}))"
        il.append("run " + src.encode().hex() + " " + gen.hexv(v))
        info.append((src, gen.lst(expect), v, len(consts) + len(fns)))
    out = lib.run_impl("classicenv", il, timeout=15, per_job=4)
    for (src, exp, v, nh), o in zip(info, out):
        f = o.split()
        chk.note_case((tag, src))
        chk.count(f"{tag}:helpers:{nh}")
        if not f or f[0] != "C":
            chk.count(f"{tag}:not-compiled")
            continue
        want = "V" + gen.hexv(exp)
        chk.count(f"{tag}:" + ("agree" if f[2] == want else "MISMATCH"))
        if f[2] != want:
            chk.fail("oracle", "compile:C03:classic-constants-layout",
                     {"program": src, "args": gen.hexv(v), "args_text": gen.show(v)},
                     {"expected": want, "got": f[2][:300], "compiled": f[1][:300]})


def oracle_cases(chk, cases, rng, tag):
    il, info = [], []
    for pat, g in cases:
        v, binds = fit(pat, [0])
        if not binds:
            continue
        first = {}
        for n, val in binds:
            first.setdefault(n, val)
        names = [n for n in first if n and all(48 <= c < 127 for c in n) and not n[0:1].isdigit() and n != b"@"
                 and n.decode() in g.used]
        if not names:
            continue
        # the deepest-bound name and a random one
        picks = {names[-1], rng.choice(names), names[0]}
        for n in sorted(picks):
            nm = n.decode()
            pt = progen.text(pat)
            for form, src, exp in (("plain", f"(mod {pt} {nm})", first[n]),
                                   ("const", f"(mod {pt} (defconstant KK 1000) (c KK {nm}))",
                                    (gen.int_atom(1000), first[n]))):
                il.append("text:O1 " + src.encode().hex() + " " + gen.hexv(v))
                info.append((form, src, exp, v, pat, n))
    out = lib.run_impl("compile", il, timeout=120, per_job=20)
    bad_const = []
    for (form, src, exp, v, pat, n), o in zip(info, out):
        f = o.split()
        chk.note_case((tag, src))
        if not f or f[0] != "C":
            chk.count(f"{tag}:{form}:not-compiled")
            # a parameter tree the compiler rejects is not "accepted"; nothing to claim
            continue
        want = "V" + gen.hexv(exp)
        chk.count(f"{tag}:{form}:" + ("agree" if f[2] == want else "MISMATCH"))
        if f[2] != want:
            if form == "plain":
                chk.fail("oracle", "compile:C03:classic-parameter-path",
                         {"program": src, "args": gen.hexv(v), "args_text": gen.show(v)},
                         {"expected": want, "got": f[2], "compiled": f[1][:200]})
            else:
                bad_const.append((src, exp, v, pat, n, f))
    if bad_const:
        classify_const(chk, bad_const)


def classify_const(chk, bad):
    """the constant form goes through the optimiser's change of variables; ask the strict
    optimiser model which flagged situation (if any) the compiler's own output runs into."""
    # the unoptimised program: (a (q . (c 2 NAMEPATH)) (c (q . 1000) 1)) with NAMEPATH from the real table
    probes = [(src.encode().hex() + " N") for (src, exp, v, pat, n, f) in bad]
    tables = lib.run_impl("classicenv", probes, per_job=40)
    ol = []
    for (src, exp, v, pat, n, f), t in zip(bad, tables):
        path = None
        if t.startswith("main="):
            for e in t.split(";")[0][5:].split(","):
                k, _, p = e.partition(":")
                if k == gen.hexv(n):
                    path = bytes.fromhex(p)
                    break
        if path is None:
            ol.append(None)
            continue
        body = (b"\x04", (b"\x02", (path, b"")))
        prog = (b"\x02", ((b"\x01", body), ((b"\x04", ((b"\x01", gen.int_atom(1000)), (b"\x01", b""))), b"")))
        ol.append("o " + gen.hexv(prog))
    res = lib.run_model("opt", [x for x in ol if x], per_job=20)
    it = iter(res)
    for (src, exp, v, pat, n, f), q in zip(bad, ol):
        flag = "unclassified"
        predicted = None
        if q:
            r = next(it).split()
            flag = r[1] if len(r) > 1 else "unclassified"
            predicted = r[0]
        sig = {"FLAG:signed-noncanonical-path": "compile:classic-opt-signed-path"}.get(flag, "compile:C03:classic-const-form:" + flag)
        chk.count("oracle:const:mismatch:" + flag)
        if predicted and predicted.startswith("ok:"):
            # the optimiser model (C04) run on the reconstructed input reproduces the compiler's output
            chk.count("oracle:const:optimiser-model-reproduces-output:" + ("yes" if predicted[3:] == f[1] else "no"))
        chk.fail("oracle", sig, {"program": src, "args": gen.hexv(v), "args_text": gen.show(v)[:400]},
                 {"expected": "V" + gen.hexv(exp), "got": f[2], "compiled": f[1][:200],
                  "optimiser_model_flag": flag, "optimiser_model_output": predicted})
