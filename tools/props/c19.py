"""C19 — the compiled output file is replaced atomically.

Proof: lean/ChialispModel/Props/C19.lean (protocol of atomic_write_file / gentle_overwrite over a
names->inodes file system, all interleavings, faults and kills).  This check ties the model to
the code:
  (1) kill-at-crash-point runs: a child process per (entry x previous state x directory mode x
      crash point), result / final contents / crash-point sequence / leftover temp compared with
      the model's prediction (`modeld atomic`), and the property oracle on the implementation alone;
  (2) strace of child runs parsed into the model's operation alphabet (temp created O_EXCL in the
      target's directory, target never opened for writing, data written only to the temp, exactly
      one rename onto the target) and compared with the model's operation sequence;
  (3) 1..8 concurrent writer processes (compile_clvm and gentle_overwrite) on one output path with
      polling readers (whole-file and piecewise): every content seen is a complete allowed one.
"""
import os
import re
import shutil
import subprocess
import tempfile

import lib

LEVEL = "proof"

RUST_WS = {0x09, 0x0a, 0x0b, 0x0c, 0x0d, 0x20, 0x85, 0xa0, 0x1680, 0x2028, 0x2029, 0x202f, 0x205f, 0x3000} | set(range(0x2000, 0x200b))
CRASH_POINTS = [0, 1, 2, 3, 4, 10, 11, 12]
STRACE_SET = "openat,open,creat,close,read,write,pwrite64,writev,rename,renameat,renameat2,unlink,unlinkat,truncate,ftruncate,link,linkat"


def rust_trim(b):
    """read_to_string + str::trim on bytes; None when not UTF-8."""
    try:
        s = b.decode("utf-8")
    except UnicodeDecodeError:
        return None
    i, j = 0, len(s)
    while i < j and ord(s[i]) in RUST_WS:
        i += 1
    while j > i and ord(s[j - 1]) in RUST_WS:
        j -= 1
    return s[i:j]


def same_text(prev, data):
    if prev is None:
        return False
    p = rust_trim(prev)
    return p is not None and p == rust_trim(data)


def enc(c):
    if c is None:
        return "-"
    if len(c) == 0:
        return "empty"
    return c.hex()


def dec(s):
    if s == "-":
        return None
    if s == "empty":
        return b""
    return bytes.fromhex(s)


SOURCES = [
    "(mod (X) (+ X 1))",
    "(mod (X Y) (include *standard-cl-21*) (defun sq (A) (* A A)) (+ (sq X) (sq Y)))",
    "(mod (X) (c (q . \"" + "k" * 900 + "\") X))",
]


def prev_variants(rng, data):
    """(kind, previous contents) — the classes the model and the code case-split on."""
    hexish = (data.rstrip(b"\n") or b"00")
    out = [
        ("absent", None),
        ("same", data),
        ("same-trim-nonl", data.rstrip(b"\n")),
        ("same-trim-spaces", b"  \t" + data + b"\r\n \n"),
        ("same-trim-unicode", "  ".encode() + data + "　\u0085".encode()),
        ("diff-not-ws-1c", data + b"\x1c"),
        ("diff", b"ff" + hexish[::-1] + b"\n"),
        ("diff-prefix-of-new", data[:max(1, len(data) // 2)]),
        ("diff-new-is-prefix", data + data),
        ("diff-badutf8", b"\xff\xfe" + data),
        ("diff-empty-file", b""),
    ]
    # an empty previous file is "same" when the data trims to nothing
    return out


def scenario_lines(chk, expected):
    rng = chk.rng
    quick = chk.tier == "quick"
    lines = []
    datas = [b"ff02ffff0101ff02ffff03ffff0bff05\n", b"80\n", "xéy\n".encode(), b"", b" \n"]
    datas.append(bytes(rng.choice(b"0123456789abcdef") for _ in range(70000)) + b"\n")
    if not quick:
        datas += [bytes(rng.choice(b"0123456789abcdef") for _ in range(n)) + b"\n" for n in (1, 63, 4096, 300000)]
    for entry in ("g", "a"):
        for di, data in enumerate(datas):
            big = len(data) > 5000
            for kind, prev in prev_variants(rng, data):
                if prev == b"" and data == b"" and kind != "diff-empty-file":
                    continue
                if quick and entry == "a" and kind not in ("absent", "same", "diff", "diff-prefix-of-new", "diff-new-is-prefix"):
                    continue      # atomic_write_file never looks at the previous contents
                modes = ["ok", "rodir"] + (["rofile"] if prev is not None else [])
                if prev is None:
                    modes += ["nodir", "dirfile", "tgtdir"]
                if len(data) > 40:
                    modes += ["fsize:32"] + (["fsize:4096"] if len(data) > 4096 else [])
                for mode in modes:
                    crashes = CRASH_POINTS if not (quick and mode == "rofile") else [0, 2, 4, 12]
                    if big and (kind not in ("absent", "same", "diff") or mode not in ("ok", "rodir", "fsize:4096")):
                        continue
                    if len(data) > 100000:
                        crashes = [0, 3]
                    if quick and di >= 2 and mode not in ("ok", "rodir") and kind not in ("absent", "same", "diff"):
                        crashes = [0, 3]
                    for k in crashes:
                        lines.append(f"s {entry} {enc(prev)} {mode} {enc(data)} - {k}")
    for src, data in expected:
        for kind, prev in prev_variants(rng, data):
            modes = ["ok", "rodir"] + (["rofile"] if prev is not None else ["nodir", "tgtdir"])
            for mode in modes:
                for k in (CRASH_POINTS if kind in ("absent", "same", "diff", "diff-prefix-of-new") else [0, 2]):
                    lines.append(f"s c {enc(prev)} {mode} {enc(data)} - {k} {src.encode().hex()}")
    return lines


def oracle_scenario(chk, line, out):
    """the property on the implementation alone (no model)."""
    f = line.split()
    o = out.split()
    entry, prev, mode, data, crash = f[1], dec(f[2]), f[3], dec(f[4]), int(f[6])
    case = {"sub": "atomic", "line": line if len(line) < 600 else line[:600] + "…"}
    if out == "skip-root":
        chk.count("scenario:skipped-root")
        return
    if len(o) < 5 or o[0] not in ("ok", "err", "killed"):
        chk.fail("oracle", "atomic:child-broke", case, out[:300])
        return
    res, content = o[0], dec(o[1])
    chk.count(f"scenario:result:{res}")
    if content not in (prev, data):
        what = "empty" if content == b"" else ("absent" if content is None else f"{len(content)} bytes")
        chk.fail("oracle", "atomic:partial-or-foreign-content", case,
                 f"after {res} (crash point {crash}) the output path holds {what}: neither the previous nor the new contents")
    if crash == 0 and res == "killed":
        chk.fail("oracle", "atomic:child-broke", case, out[:300])
    if crash == 0 and entry != "a" and same_text(prev, data) and res != "ok":
        chk.fail("oracle", "atomic:same-content-error", case,
                 "new contents equal the old (after trimming) yet the call failed: " + out[:200])
    if crash == 0 and res == "ok" and content != data:
        if not (entry != "a" and same_text(prev, data) and content == prev):
            chk.fail("oracle", "atomic:ok-but-stale", case, "returned Ok but the output path does not hold the new contents")


# ------------------------------------------------------------------------------------------------
# strace
# ------------------------------------------------------------------------------------------------

def strace_available():
    try:
        d = tempfile.mkdtemp(prefix="c19-st-")
        p = subprocess.run(["strace", "-f", "-o", os.path.join(d, "o"), "-e", "trace=openat", "true"],
                           stdout=subprocess.PIPE, stderr=subprocess.PIPE, text=True, timeout=30)
        ok = p.returncode == 0 and os.path.getsize(os.path.join(d, "o")) > 0
        shutil.rmtree(d, ignore_errors=True)
        return ok, (p.stderr.strip()[:200] if not ok else "")
    except (OSError, subprocess.SubprocessError) as e:
        return False, repr(e)[:200]


_STR = re.compile(r'"((?:\\x[0-9a-f]{2})*)"(\.\.\.)?')


def _bytes(tok):
    return bytes.fromhex(tok.replace("\\x", ""))


def parse_strace(text, target, tracefile):
    """-> (ops, writes, problems, tmp path).  ops in the model's alphabet."""
    target = target.encode()
    tdir = os.path.dirname(target)
    fds = {}
    ops, problems, sizes = [], [], []
    payload = b""
    tmp = None
    read_idx = None
    renames_onto_target = 0
    for ln in text.split("\n"):
        m = re.match(r"^\d+\s+(\w+)\((.*)\)\s+=\s+(-?\d+)", ln)
        if not m:
            continue
        call, args, ret = m.group(1), m.group(2), int(m.group(3))
        strs = [_bytes(x.group(1)) for x in _STR.finditer(args)]
        if call in ("openat", "open", "creat"):
            if not strs:
                continue
            path = strs[0]
            flags = args
            wr = any(fl in flags for fl in ("O_WRONLY", "O_RDWR", "O_TRUNC", "O_APPEND", "O_CREAT")) or call == "creat"
            if path == tracefile.encode():
                if ret >= 0:
                    fds[ret] = b"<trace>"
                continue
            if path == target:
                if wr:
                    problems.append("target-opened-for-writing: " + flags[-80:])
                else:
                    ops.append("readOk" if ret >= 0 else "readFail")
                    read_idx = len(ops) - 1
                if ret >= 0:
                    fds[ret] = path
                continue
            if "O_CREAT" in flags and "O_EXCL" in flags:
                if ret < 0 and "EEXIST" in ln:
                    continue
                if os.path.dirname(path) != tdir:
                    problems.append("temp-not-in-target-dir: " + path.decode(errors="replace"))
                ops.append("mkOk" if ret >= 0 else "mkFail")
                if ret >= 0:
                    tmp = path
                    fds[ret] = path
                continue
            if ret >= 0:
                fds[ret] = path
                if wr and os.path.dirname(path) == tdir:
                    problems.append("non-exclusive-create-in-target-dir: " + path.decode(errors="replace"))
        elif call == "close":
            m2 = re.match(r"(\d+)", args)
            if m2:
                fds.pop(int(m2.group(1)), None)
        elif call == "read":
            m2 = re.match(r"(\d+)", args)
            if m2 and fds.get(int(m2.group(1))) == target and ret < 0 and read_idx is not None:
                ops[read_idx] = "readFail"        # e.g. EISDIR: read_to_string fails as a whole
        elif call in ("write", "pwrite64", "writev"):
            m2 = re.match(r"(\d+)", args)
            fd = int(m2.group(1)) if m2 else -1
            path = fds.get(fd)
            if path == b"<trace>" or fd in (1, 2):
                continue
            if path == target:
                problems.append("write-to-target")
            elif tmp is not None and path == tmp:
                if ret >= 0:
                    ops.append("wrOk")
                    sizes.append(ret)
                    if strs:
                        payload += strs[0][:ret]
                else:
                    ops.append("wrFail")
            elif path is not None and os.path.dirname(path) == tdir:
                problems.append("write-to-other-file-in-target-dir")
        elif call in ("rename", "renameat", "renameat2"):
            if len(strs) >= 2:
                src, dst = strs[0], strs[1]
                if dst == target:
                    if ret == 0:
                        renames_onto_target += 1
                    if src != tmp:
                        problems.append("rename-of-something-else-onto-target")
                    ops.append("mvOk" if ret == 0 else "mvFail")
                elif src == target:
                    problems.append("target-renamed-away")
        elif call in ("unlink", "unlinkat"):
            if strs:
                if strs[0] == target:
                    problems.append("target-unlinked")
                elif strs[0] == tmp:
                    ops.append("rmOk" if ret == 0 else "rmFail")
        elif call in ("truncate", "ftruncate", "link", "linkat"):
            if strs and target in strs:
                problems.append(call + "-on-target")
            m2 = re.match(r"(\d+)", args)
            if call == "ftruncate" and m2 and fds.get(int(m2.group(1))) == target:
                problems.append("ftruncate-on-target")
    if renames_onto_target > 1:
        problems.append("more-than-one-rename-onto-target")
    return ops, sizes, payload, problems, tmp


def strace_case(chk, entry, prev, mode, data, crash, src, drop):
    """set the scenario up like harness/src/atomic.rs does, run the child under strace."""
    top = tempfile.mkdtemp(prefix="c19-strace-")
    try:
        os.chmod(top, 0o755)
        d = os.path.join(top, "d")
        t = os.path.join(top, "t")
        os.mkdir(d)
        os.mkdir(t)
        os.chmod(t, 0o777)
        inp = os.path.join(top, "input.clsp")
        out = os.path.join(d, "out.hex")
        if mode == "tgtdir":
            os.mkdir(out)
        elif prev is not None:
            with open(out, "wb") as fh:
                fh.write(prev)
        with open(inp, "w") as fh:
            fh.write(src)
        extra = []
        if drop:
            for p in (d, inp) + ((out,) if os.path.lexists(out) else ()):
                os.chown(p, 65534, 65534)
            extra.append("uid=65534")
        if mode.startswith("fsize:"):
            extra.append("fsize=" + mode[6:])
        if mode == "rofile":
            os.chmod(out, 0o444)
        if mode == "rodir":
            os.chmod(d, 0o555)
        tracefile = os.path.join(t, "trace")
        env = dict(os.environ)
        env["CHIALISP_VERIF_TRACE"] = tracefile
        env.pop("CHIALISP_VERIF_CRASH_AT", None)
        if crash:
            env["CHIALISP_VERIF_CRASH_AT"] = str(crash)
        so = os.path.join(top, "strace.out")
        data_arg = enc(data)
        if len(data) > 20000:
            with open(os.path.join(top, "data.bin"), "wb") as fh:
                fh.write(data)
            data_arg = "@" + os.path.join(top, "data.bin")
        cmd = ["strace", "-f", "-o", so, "-xx", "-s", str(max(64, min(len(data) + 16, 400000))), "-e", "trace=" + STRACE_SET,
               lib.CVH, "atomic-child", entry, inp, out, data_arg] + extra
        p = subprocess.run(cmd, env=env, stdout=subprocess.PIPE, stderr=subprocess.PIPE, timeout=120)
        os.chmod(d, 0o755)
        text = open(so, errors="replace").read() if os.path.exists(so) else ""
        ops, sizes, payload, problems, tmp = parse_strace(text, out, tracefile)
        return {"rc": p.returncode, "ops": ops, "sizes": sizes, "payload": payload, "problems": problems,
                "tmp_seen": tmp is not None}
    finally:
        try:
            os.chmod(os.path.join(top, "d"), 0o755)
        except OSError:
            pass
        shutil.rmtree(top, ignore_errors=True)


def strace_part(chk, expected, env_info):
    quick = chk.tier == "quick"
    ok, why = strace_available()
    env_info["strace"] = "available" if ok else f"NOT available ({why}); the system-call tie (2) was skipped"
    if not ok:
        chk.count("strace:skipped")
        return
    drop = env_info.get("drop") == "1"
    data = b"ff02ffff0101ff02ffff03ffff0bff05ff808080\n"
    big = bytes(chk.rng.choice(b"0123456789abcdef") for _ in range(150000)) + b"\n"
    src0, exp0 = expected[0]
    cases = []
    for entry in ("g", "a"):
        cases += [(entry, None, "ok", data, 0, ""), (entry, data, "ok", data, 0, ""), (entry, b"00\n", "ok", data, 0, ""),
                  (entry, b"00\n", "ok", data, 2, ""), (entry, b"00\n", "ok", data, 3, ""), (entry, b"00\n", "ok", data, 4, ""),
                  (entry, data, "rodir", data, 0, ""), (entry, b"00\n", "rodir", data, 0, ""),
                  (entry, b"00\n", "rofile", data, 0, ""), (entry, None, "tgtdir", data, 0, ""),
                  (entry, b"00\n", "fsize:32", big[:500], 0, ""), (entry, None, "ok", big, 0, "")]
    for src, exp in expected:
        cases += [("c", None, "ok", exp, 0, src), ("c", b"00\n", "ok", exp, 0, src), ("c", exp, "rodir", exp, 0, src),
                  ("c", b"00\n", "ok", exp, 3, src)]
    if not quick:
        for k in CRASH_POINTS:
            cases += [("g", data[:-1], "ok", data, k, ""), ("g", None, "fsize:64", big[:3000], k, "")]
    lines, results = [], []
    for (entry, prev, mode, dat, crash, src) in cases:
        if mode in ("rodir", "rofile") and env_info.get("uid") == "0" and not drop:
            chk.count("strace:skipped-root")
            continue
        r = strace_case(chk, entry, prev, mode, dat, crash, src or "(mod () 1)", drop)
        cuts = ",".join(str(x) for x in r["sizes"]) if r["sizes"] and not mode.startswith("fsize:") else "-"
        line = f"s {entry} {enc(prev)} {mode} {enc(dat)} {cuts} {crash}"
        lines.append(line)
        results.append(r)
    mo = lib.run_model("atomic", lines, jobs=1)
    for line, r, m in zip(lines, results, mo):
        case = {"sub": "atomic-strace", "line": line[:400]}
        chk.note_case("strace " + line)
        chk.count("strace:runs")
        f = line.split()
        dat = dec(f[4])
        for pr in r["problems"]:
            chk.fail("oracle", "atomic:syscall:" + pr.split(":")[0], case, pr)
        if not dat.startswith(r["payload"]):
            chk.fail("oracle", "atomic:syscall:temp-payload", case, "bytes written to the temporary file are not a prefix of the data")
        if "mvOk" in r["ops"] and r["payload"] != dat:
            chk.fail("oracle", "atomic:syscall:renamed-incomplete", case,
                     f"rename happened after {len(r['payload'])} of {len(dat)} bytes had been written")
        mops = m.split()[3].split(",") if len(m.split()) > 3 and m.split()[3] != "-" else []
        if mops != r["ops"]:
            chk.fail("correspondence", "corr:atomic-ops", case, {"model": mops, "strace": r["ops"]})
        else:
            chk.cov["traces_validated_against_impl"] = chk.cov.get("traces_validated_against_impl", 0) + 1
        chk.count("strace:ops:" + ",".join(r["ops"]))
    if results:
        chk.sample({"strace_line": lines[3][:200], "ops": results[3]["ops"], "meaning": "system calls of one child mapped to the model's operation alphabet"})


# ------------------------------------------------------------------------------------------------

def concurrent_part(chk, only=None):
    quick = chk.tier == "quick"
    rounds = 8 if quick else 40
    lines = list(only or [])
    for nw in ([] if only else range(1, 9)):
        for init in ("-", b"00\n".hex()):
            if quick and init != "-" and nw not in (1, 4, 8):
                continue
            lines.append(f"c {nw} {2 + nw % 3} {rounds} {chk.rng.randrange(1 << 30)} {init} {15 if nw > 1 else 30}")
    outs = lib.run_impl("atomic", lines, jobs=1, timeout=1800)
    for l, o in zip(lines, outs):
        chk.note_case(l)
        case = {"sub": "atomic", "line": l}
        head = o.split("#")[0].split()
        kv = dict(x.split("=", 1) for x in o.replace("#", " ").split() if "=" in x)
        if not head or not head[0].startswith("bad="):
            chk.fail("oracle", "atomic:concurrent-run-broke", case, o[:300])
            continue
        chk.count("concurrent:observations", int(kv.get("obs", 0)))
        chk.count("concurrent:writer-processes-ok", int(kv.get("ok", 0)))
        chk.count("concurrent:writer-processes-killed", int(kv.get("aborted", 0)))
        chk.count("concurrent:max-distinct-contents-seen-by-a-reader", 0)
        chk.dist["concurrent:max-distinct-contents-seen-by-a-reader"] = max(
            chk.dist["concurrent:max-distinct-contents-seen-by-a-reader"], int(kv.get("distinct", 0)))
        if kv.get("bad") != "0":
            chk.fail("oracle", "atomic:partial-or-foreign-content", case,
                     f"a concurrent reader saw contents that are no writer's complete output: {kv.get('first_bad')} ({kv.get('bad')} times)")
        if kv.get("enoent_after") != "0":
            chk.fail("oracle", "atomic:target-vanished", case, "the output path did not exist at some instant after it had existed")
        if kv.get("final_ok") != "1":
            chk.fail("oracle", "atomic:partial-or-foreign-content", case, "final contents are no writer's complete output")
        if kv.get("weird") != "0" or kv.get("err", "0") != "0":
            chk.fail("oracle", "atomic:concurrent-writer-failed", case, o[:300])
        if kv.get("left_ok") != "1":
            chk.fail("correspondence", "corr:atomic-leftover", case,
                     f"temp files left: {kv.get('left')}, model: one per writer killed between creation and rename = {kv.get('expect_left')}")
    if outs:
        chk.sample({"line": lines[-1], "output": outs[-1], "meaning": "c <writers> <readers> <rounds/writer> <seed> <initial> <kill %>"})


def anchors(chk):
    """the call sites the model stands for are still the ones that write the output."""
    def src(p):
        return open(os.path.join(lib.REPO, p)).read()
    clvmc = src("src/classic/clvm_tools/clvmc.rs")
    m = re.search(r"pub fn compile_clvm\((.*?)\n}\n", clvmc, re.S)
    body = m.group(1) if m else ""
    if "gentle_overwrite(input_path, output_path, &target_data)" not in body or re.search(r"fs::write|File::create|OpenOptions", body):
        chk.fail("correspondence", "anchor:compile_clvm", {"file": "src/classic/clvm_tools/clvmc.rs"},
                 "compile_clvm no longer writes its output (only) through gentle_overwrite")
    api = src("src/py/api.rs")
    if "gentle_overwrite(&path_string, &output_file, &hex_text)" not in api or re.search(r"fs::write|File::create", api):
        chk.fail("correspondence", "anchor:py-api", {"file": "src/py/api.rs"},
                 "the python entry point no longer writes its output (only) through gentle_overwrite")
    util = src("src/util/mod.rs")
    pts = re.findall(r"verif_crash_point\((\d+)\)", util)
    if pts != ["1", "2", "3", "4", "10", "11", "12"]:
        chk.fail("correspondence", "anchor:hook", {"file": "src/util/mod.rs"}, f"crash-point hook calls found: {pts}")
    chk.count("anchors:checked", 3)


def run(chk):
    quick = chk.tier == "quick"
    lib.std_obligations(chk)
    chk.cov["rule"] = ("s-lines: one child process per entry {gentle_overwrite, atomic_write_file, compile_clvm} x new data "
                       "x previous state {absent, same, same up to trimming (ASCII / Unicode), different (prefix of new, "
                       "new is prefix, not UTF-8, empty, non-whitespace control char)} x mode {ok, read-only file, read-only "
                       "directory, missing directory, directory is a file, output path is a directory, RLIMIT_FSIZE} x crash "
                       "point {none,1,2,3,4,10,11,12}; strace lines; c-lines: N concurrent writer slots x rounds with readers. "
                       "distinct = distinct protocol lines, all non-trivial")
    ok, out = lib.build_harness()
    if not ok:
        chk.fail("proof", "harness-build", {}, out[-1500:])
        return
    anchors(chk)
    probe = lib.run_impl("atomic", ["p"], jobs=1)[0]
    env_info = dict(x.split("=") for x in probe.split() if "=" in x)
    srcs = SOURCES if not quick else SOURCES[:2]
    exp = lib.run_impl("atomic", ["e " + s.encode().hex() for s in srcs], jobs=1)
    expected = []
    for s, e in zip(srcs, exp):
        if e == "compile-failed" or e.startswith("panic"):
            chk.fail("correspondence", "corr:atomic-compile", {"src": s}, e)
        else:
            expected.append((s, bytes.fromhex(e)))
    if chk.replay_cases:
        c = chk.replay_cases.get("case", {})
        lines = [c["line"]] if "line" in c and c["line"].startswith("s ") else []
    else:
        lines = scenario_lines(chk, expected)
    for l in lines:
        chk.note_case(l)
        f = l.split()
        chk.count("scenario:entry:" + f[1])
        chk.count("scenario:mode:" + f[3].split(":")[0])
        chk.count("scenario:crash:" + f[6])

    def key(o):
        f = o.split()
        return " ".join(f[:3] + f[4:5]) if len(f) >= 5 else o

    mo, io = lib.correspond(chk, "atomic", lines, norm_model=key, norm_impl=key,
                            skip=lambda l, a, b: b == "skip-root", label="atomic-scenarios", jobs=lib.NCPU, timeout=1200)
    for l, o in zip(lines, io):
        oracle_scenario(chk, l, o)
    if lines:
        i = min(len(lines) - 1, 37)
        chk.sample({"line": lines[i][:160], "model": mo[i][:120], "impl": io[i][:120],
                    "meaning": "s <entry> <prev> <mode> <data> <cuts> <crash> -> result, final contents, crash points passed, ops, leftover temp files"})
    if not chk.replay_cases:
        strace_part(chk, expected, env_info)
        concurrent_part(chk)
    elif chk.replay_cases.get("case", {}).get("line", "").startswith("c "):
        concurrent_part(chk, only=[chk.replay_cases["case"]["line"]])
    unpriv = "unprivileged child (uid 65534) via setuid in the child" if env_info.get("drop") == "1" else (
        "checks run as root and privileges could NOT be dropped: read-only file/directory scenarios were skipped; directory "
        "failures were emulated by a missing directory / a regular file in place of the directory" if env_info.get("uid") == "0"
        else "checks run unprivileged")
    chk.cov["environment"] = {"uid": env_info.get("uid"), "read_only_modes": unpriv, "strace": env_info.get("strace", "not run")}
    chk.cov["modelled_not_verified"] = [
        "POSIX rename(2) replaces the destination entry in one step; an open descriptor keeps its inode (definitions of FS.rename / rstep)",
        "exclusive creation of the temporary name (O_CREAT|O_EXCL, part of FS.create; strace confirms the flags)",
        "partial writes inside write_all cannot be hooked; strace shows they go to the temporary file only (RLIMIT_FSIZE scenario forces one)",
        "durability across power loss (no fsync is issued) is not claimed by the property",
        "write_sym_output (symbol-table JSON of the `run` tool) uses fs::write and is not the compiled output file; outside this property",
        "output paths without a parent ('/' or ''): atomic_write_file returns Err before any file-system operation; not modelled",
    ]
    chk.assumptions += [
        "POSIX rename atomicity and O_EXCL temp creation (assumed by the model, see DESIGN §5)",
        "the crash-point hook of /repo (cfg chialisp_verif) sits where the model's phase boundaries are (checked by the crash-point sequence comparison)",
    ]
