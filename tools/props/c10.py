"""C10 — ill-scoped programs are rejected, never miscompiled and never loop the compiler.

Proof: lean/ChialispModel/Props/C10.lean over three models that mirror the anchored code —
Sys/Toposort.lean (`util::toposort` + the duplicate check of `handle_assign_form`),
Lang/Inline.lean (the visited-set discipline of `replace_inline_body`) and Lang/Scope.lean
(redefinition check + `Core.compileCore`, the byte-identical core compiler model of C01).
Tie: `cvh scope` / `modeld scope` on generated dependency graphs, binding lists, abstract inline call
graphs (rendered to real programs) and core programs with injected scope defects.
Oracle (implementation alone): well-scoped generated programs (tools/progen.py, every dialect) with
EXACTLY ONE injected defect must be rejected by `compile_file` with an error naming the identifier /
form, inside a supervised child process (hang / stack overflow / abort = violation), and the
repaired twin must compile.
"""
import random
import re

import gen
import lib
import progen
import scopegen as sg
from progen import S, I, L

LEVEL = "proof"
LIMIT = 20           # seconds of wall clock per compilation (child process), first pass
LIMIT2 = 300         # second pass: a compilation that exceeded LIMIT is re-run alone with this limit
# optimize flag per dialect (library derivation: optimize = flag || stepping > 22).  *strict-cl-21* with
# the flag set is left out: that configuration rejects nearly every program that uses `if`/`list`
# ("bad path 5 in 64", finding C01-F2), so there are no compiling twins to speak of.
FLAGS = {"cl21": ("0", "1"), "strict21": ("0",), "cl22": ("0", "1"), "cl23": ("0",), "cl23.1": ("0",), "cl24": ("0",)}


def run_scope(lines, limit=None, **kw):
    kw.setdefault("timeout", 6000)
    kw.setdefault("per_job", 8)
    # lib.run_lines hands every job a contiguous block; slow lines come in runs (one dialect, one
    # defect kind), so the lines are dealt out in a fixed shuffled order and the answers put back
    order = list(range(len(lines)))
    random.Random(len(lines)).shuffle(order)
    outs = lib.run_impl("scope", [lines[i] for i in order], args=[str(limit or LIMIT)], **kw)
    res = [""] * len(lines)
    for i, o in zip(order, outs):
        res[i] = o
    return res


def run_scope_patient(lines, patient=None, **kw):
    """like run_scope, but a line that ran into the first limit is run again with the long one
    (a slow compilation is not a hang).  `patient[i] = False` exempts a line (repaired twins: a
    twin that does not compile within the first limit just drops the pair)."""
    outs = run_scope(lines, **kw)
    slow = [i for i, o in enumerate(outs) if o == "timeout" and (patient is None or patient[i])]
    if slow:
        again = run_scope([lines[i] for i in slow], limit=LIMIT2, per_job=1)
        for i, o in zip(slow, again):
            outs[i] = o
    return outs, len(slow)


def _nest(n, base):
    return [[base + i, [base + 2 * i, base + 3 * i + 1], base + 7] for i in range(n)]


BEHAVIOUR_ENVS = [_nest(12, 1), _nest(12, 40), [[3], 5, 7, 9, 11, 13, 15, 17, 19, 21, 23, 25], []]


def _tree(x):
    if isinstance(x, list):
        t = b""
        for e in reversed(x):
            t = (_tree(e), t)
        return t
    return gen.int_atom(x) if hasattr(gen, "int_atom") else (bytes([x]) if 0 < x < 128 else b"")


def same_behaviour(o1, o2):
    """two `ok <hex>` answers run by clvmr on a few argument trees give the same results (value or failure)"""
    f1, f2 = o1.split(), o2.split()
    if len(f1) < 2 or len(f2) < 2:
        return False
    lines = []
    for e in BEHAVIOUR_ENVS:
        eh = gen.hexv(_tree(e))
        lines += [f"{f1[1]} {eh}", f"{f2[1]} {eh}"]
    outs = lib.run_impl("base", lines)
    return all(outs[i] == outs[i + 1] for i in range(0, len(outs), 2))


def norm_prog(o):
    """an `ok <hex>` answer with generated names (`X_$_123`, which cl22 leaks into its output and
    which carry a process-wide counter) reduced to their stem, for comparing two compilations."""
    f = o.split()
    if len(f) < 2 or f[0] != "ok":
        return o
    try:
        v = gen.unhex(f[1])
    except Exception:
        return o
    out = []
    stack = [v]
    while stack:
        x = stack.pop()
        if isinstance(x, tuple):
            out.append(b"(")
            stack.append(x[1])
            stack.append(x[0])
        else:
            out.append(re.sub(rb"_\$_[0-9]+", b"_$_", x) + b"|")
    return b"".join(out)


def crashed(o):
    return o == "timeout" or o == "panic" or o == "missing" or o.startswith("abort")


# ---------------------------------------------------------------------------------------------
# correspondences
# ---------------------------------------------------------------------------------------------

def topo_correspondence(chk, rng, n):
    cases = []
    for items in sg.small_dep_graphs():
        cases.append((items, ["small"]))
    cases.append(([], ["empty"]))
    for _ in range(n):
        cases.append(sg.rand_dep_graph(rng))
    lines = [sg.topo_line(it) for it, _ in cases]
    mo = lib.run_model("scope", lines)
    io = run_scope(lines, per_job=400)
    bad = 0
    for (items, tags), l, a, b in zip(cases, lines, mo, io):
        chk.note_case(l, nontrivial=len(items) > 1)
        for t in tags:
            chk.count("topo:class:" + t)
        chk.count("topo:impl:" + b.split()[0] if b else "topo:impl:none")
        if a.strip() != b.strip():
            bad += 1
            if bad <= 5:
                chk.fail("correspondence", "corr:toposort", {"line": l}, {"model": a[:300], "impl": b[:300]})
        why = sg.check_topo_output(items, b.strip())
        if why:
            chk.fail("oracle", "toposort:" + why.split()[0], {"line": l, "items": items}, why + " — " + b[:200])
    chk.count("topo:lines", len(lines))
    chk.count("topo:disagreements", bad)
    chk.sample({"toposort_case": lines[len(lines) // 2], "model": mo[len(lines) // 2], "impl": io[len(lines) // 2]})


def dup_correspondence(chk, rng, n):
    cases = []
    for _ in range(n):
        nb = rng.randint(1, 6)
        pats = []
        pool = list(range(rng.randint(2, 9)))
        for _ in range(nb):
            k = rng.choice([1, 1, 1, 2, 3])
            pats.append([rng.choice(pool) for _ in range(k)])
        cases.append(pats)
    cases += [[[1]], [[1], [1]], [[1, 1]], [[1, 1], [2]], [[1, 2], [3], [2, 1]], [[1], [2], [3], [1, 2, 3]]]
    lines = ["d " + ";".join(",".join(map(str, p)) for p in pats) for pats in cases]
    mo = lib.run_model("scope", lines)
    io = run_scope(lines, per_job=400)
    bad = 0
    for pats, l, a, b in zip(cases, lines, mo, io):
        chk.note_case(l, nontrivial=len(pats) > 1)
        af, bf = a.split(), b.split()
        agree = False
        if af and bf and af[0] == "ok" and bf[0] == "ok":
            agree = True
        elif len(af) == 3 and len(bf) == 3 and af[0] == "dup" and bf[0] == "dup":
            # the Rust loop reports whichever repeated name of the offending binding its hash order meets first
            agree = af[1] == bf[1] and bf[2] in af[2].split(",")
        chk.count("dup:impl:" + (bf[0] if bf else "none"))
        if not agree:
            bad += 1
            if bad <= 5:
                chk.fail("correspondence", "corr:assign-dup", {"line": l}, {"model": a, "impl": b})
        # oracle: rejected exactly when two DIFFERENT bindings share a name
        shared = any(set(pats[i]) & set(pats[j]) for i in range(len(pats)) for j in range(i + 1, len(pats)))
        if bf and (bf[0] == "dup") != shared:
            chk.fail("oracle", "assign-dup:" + ("missed" if shared else "spurious"), {"line": l}, b)
    chk.count("dup:lines", len(lines))
    chk.count("dup:disagreements", bad)


def inline_correspondence(chk, rng, n):
    # the model is replace_inline_body; the dialects whose pipeline reaches it unchanged are the
    # non-optimising ones.  cl23+ (common-subexpression elimination, deinlining run first) are
    # evaluated by the oracle only.
    exact = ("cl21", "strict21")
    dialects = ("cl21", "strict21", "cl21", "strict21", "cl23", "cl23.1", "cl24")
    cases = []
    for k in range(n):
        g = sg.rand_inline_graph(rng)
        d = dialects[k % len(dialects)]
        line, text = sg.inline_case(g, d)
        cases.append((g, d, line, text))
    lines = [c[2] for c in cases]
    mo = lib.run_model("scope", lines)
    io, _ = run_scope_patient(lines)
    bad = 0
    accepted = []
    for (g, d, l, text), a, b in zip(cases, mo, io):
        chk.note_case(l)
        a2 = a.strip()
        b2 = b.strip()
        if b2.startswith("err "):
            try:
                msg = bytes.fromhex(b2.split()[1]).decode("latin1")
            except Exception:
                msg = b2
            m = re.match(r"no such callable '(.*)'", msg)
            b2 = "err nosuch3000" if m and m.group(1) == "zzz_unknown" else "err " + msg[:60]
        chk.count(f"inline:{d}:model-{a2.split()[0]}/impl-{b2.split()[0]}")
        chk.count("inline:graph-" + ("acyclic" if g["acyclic"] else "random"))
        if crashed(b) and b == "timeout":
            # an expansion that is merely huge (the generator bounds it, but not tightly)
            chk.count(f"inline:{d}:no-answer-within-{LIMIT2}s")
            if not sg.py_inline_outcome(g):
                continue
        if d in exact and a2 != b2:
            bad += 1
            if bad <= 5:
                chk.fail("correspondence", "corr:inline-expansion", {"dialect": d, "program": text, "line": l.rsplit(" ", 1)[0]},
                         {"model": a2, "impl": b2})
        # oracle on the implementation alone: a cycle reachable from the entry must be rejected (and
        # the compiler must come back); without one the recursion error must not appear
        cyc = sg.py_inline_outcome(g)
        case = {"kind": "inline-cycle", "dialect": d, "optimize": "0", "defective": text}
        if crashed(b):
            if d in exact:
                chk.fail("oracle", "scope:inline-cycle:crash", case, b)
            else:
                chk.count(f"inline:{d}:compiler-crash(unattributed)")
        elif cyc and b2 == "ok":
            accepted.append((g, d, case))
        elif not cyc and b2.startswith("rec"):
            chk.fail("oracle", "scope:inline-cycle:spurious", case, b2)
    # accepted cycles: under cl23+ the known finding is "the optimiser passes hoist the call"; its
    # signature requires that the same program is rejected under *strict-cl-21*
    s21 = run_scope([sg.inline_case(g, "strict21")[0] for g, d, case in accepted]) if accepted else []
    for (g, d, case), o in zip(accepted, s21):
        sig = "scope:inline-cycle:accepted"
        if d in ("cl23", "cl23.1", "cl24") and o.startswith("rec"):
            sig += ":cl23-optimiser-hoists-the-call"
        chk.fail("oracle", sig, case, {"note": "a cycle of the inline call graph is reachable from the main expression, yet code "
                                       "is emitted", "same_program_under_strict_cl_21": o[:40]})
    chk.count("inline:lines", len(lines))
    chk.count("inline:disagreements", bad)
    if cases:
        chk.sample({"inline_case": cases[0][3][:400], "model": mo[0], "impl": io[0][:80]})


def evals_of_form(s):
    """the evaluated leaves (`E<rich>`) of a printed qq form, left to right."""
    return re.findall(r"E((?:[AIQ][^;]*;|N))", s)


def qq_correspondence(chk, rng, n):
    ts = [sg.rand_qq_template(rng) for _ in range(n)]
    fixed = ["(1 (unquote zork))", "(q (unquote zork))", "(7 (unquote zork))", "(113 (unquote zork))", "(\"q\" (unquote zork))",
             "(a (quote (unquote zork)))", "(unquote zork)", "(unquote)", "(unquote a b)", "(a . (unquote b))", "(a . b)", "((1) (unquote b))"]
    ts += [sg.parse(t) for t in fixed]
    lines = ["q " + progen.rich(t) for t in ts]
    mo = lib.run_model("scope", lines)
    io = run_scope(lines, per_job=400)
    bad = 0
    for t, l, a, b in zip(ts, lines, mo, io):
        chk.note_case(l, nontrivial=t[0] == "list")
        chk.count("qq:impl:" + (b[:1] if b[:1] in "QEC" else b.split()[0] if b else "none"))
        if a.strip() != b.strip():
            bad += 1
            if bad <= 5:
                chk.fail("correspondence", "corr:qq-to-expression", {"line": l, "template": progen.text(t)},
                         {"model": a[:300], "impl": b[:300]})
        # oracle (implementation alone): every unquote of the template is evaluated
        if b[:1] in "QEC":
            want = [progen.rich(x) for x in sg.qq_unquotes(t)]
            got = evals_of_form(b)
            if want != got:
                quoted_head = sg.qq_has_quote_head(t)
                chk.count("qq:unquote-not-evaluated" + (":under-quote-head" if quoted_head else ""))
                sig = "qq:unquote-not-evaluated:under-q-or-1-head" if quoted_head else "qq:unquote-not-evaluated"
                chk.fail("oracle", sig, {"line": l, "template": progen.text(t)},
                         {"unquoted operands": want, "evaluated by qq_to_expression": got})
    chk.count("qq:lines", len(lines))
    chk.count("qq:disagreements", bad)
    chk.sample({"qq_case": lines[0], "template": progen.text(ts[0]), "model": mo[0][:120], "impl": io[0][:120]})


def core_defects(rng, p):
    """variants of a core program: itself, an unbound variable (live / dead function, main),
    a duplicated function (live / dead)."""
    out = [("plain", p["tree"])]
    w = sg.Walk(p["tree"])
    vs = [s for s in w.sites if s.kind == "var"]
    live = [s for s in vs if w.reachable(s)]
    dead = [s for s in vs if not w.reachable(s)]
    if live:
        s = rng.choice(live)
        out.append(("unbound-live", sg.replace_at(p["tree"], s.path, S(sg.fresh_unbound(p["tree"], rng)))))
    if dead:
        s = rng.choice(dead)
        out.append(("unbound-dead", sg.replace_at(p["tree"], s.path, S(sg.fresh_unbound(p["tree"], rng)))))
    fns = [n for n, (i, kw, f) in w.helpers.items() if kw == "defun"]
    for n in fns:
        tag = "dup-live" if n in w.live else "dup-dead"
        if rng.random() < 0.8:
            out.append((tag, sg.mut_duplicate(w, rng, n, "defun", rng.choice(["before", "after"]))["bad"]))
    return out


def core_correspondence(chk, rng, n):
    import compilers
    for d in ("strict21", "cl23", "cl24"):
        progs = compilers.gen_programs(rng, d, n, nargs=0, features=compilers.CORE_FEATURES)
        cases = []
        for p in progs:
            for tag, tree in core_defects(rng, p):
                cases.append((tag, tree))
        lines = ["k " + progen.rich(t) + " " + progen.text(t).encode().hex() for _, t in cases]
        mo = lib.run_model("scope", lines, per_job=40)
        io = run_scope(lines)
        bad = 0
        for (tag, tree), l, a, b in zip(cases, lines, mo, io):
            af, bf = a.split(), b.split()
            if not af or af[0] == "notcore":
                chk.count(f"core:{d}:notcore")
                continue
            chk.note_case(("core", d, progen.text(tree)))
            if crashed(b):
                chk.count(f"core:{d}:compiler-crash(unattributed)")
                continue
            chk.count(f"core:{d}:{tag}:model-{af[0]}")
            same = bool(bf) and af[0] == bf[0] and (d != "strict21" or af[0] != "C" or af[1] == bf[1])
            if not same:
                bad += 1
                if bad <= 3:
                    chk.fail("correspondence", "corr:core-strict", {"dialect": d, "variant": tag, "program": progen.text(tree)},
                             {"model": a[:200], "impl": b[:200]})
        chk.count(f"core:{d}:lines", len(lines))
        chk.count(f"core:{d}:disagreements", bad)


# ---------------------------------------------------------------------------------------------
# the property's own oracle on the real compiler
# ---------------------------------------------------------------------------------------------

def decode_err(o):
    f = o.split()
    try:
        return {"file": f[1], "line": int(f[2]), "col": int(f[3]), "uline": int(f[4]), "ucol": int(f[5]),
                "msg": bytes.fromhex(f[6]).decode("latin1") if len(f) > 6 else ""}
    except Exception:
        return {"file": "?", "line": 0, "col": 0, "uline": 0, "ucol": 0, "msg": o}


def names_offender(m, err, text, spans, tree):
    """does the error name the offending identifier (in its message) or the offending form (by its
    location)?  returns 'message' | 'location' | None"""
    exp = m["expect"]
    for n in exp.get("names", ()):
        if re.search(r"(?<![A-Za-z0-9_$])" + re.escape(n) + r"(?![A-Za-z0-9_])", err["msg"]):
            return "message"
    if err["file"] == "0" and err["line"] == 1:
        off = err["col"] - 1
        forms = []
        if "form" in exp and exp["form"] in spans:
            forms.append(spans[exp["form"]])
        for fp in exp.get("forms", ()):
            if fp in spans:
                forms.append(spans[fp])
        w = None
        for h in exp.get("helpers", ()):
            w = w or sg.Walk(tree)
            if h in w.helpers:
                forms.append(spans[(w.helpers[h][0],)])
        for a, b in forms:
            if a <= off < b:
                return "location"
    return None


def make_mutants(rng, dialect, quick):
    """one generated program -> list of mutants (dicts of scopegen) tagged with the base text."""
    # `manyparams` (9..40 parameters) is left to C01: with that many parameters the inline expansion of
    # nested binding forms takes the real compiler tens of seconds per program
    feats = [f for f in progen.ProgGen.ALL_FEATURES if rng.random() < 0.7 and f != "manyparams"]
    g = progen.ProgGen(rng, dialect, feats)
    p = g.program()
    tree = p["tree"]
    muts = []
    # most generated helpers are never called: call them from the main expression so that their
    # bodies are reachable code (calls only go to functions made earlier, so this adds no cycle)
    for f in g.fns:
        w = sg.Walk(tree)
        if f["name"] not in w.live and rng.random() < 0.85:
            cands = [s for s in w.sites if s.kind == "expr" and s.helper is None and s.evaluated()]
            if cands:
                s = rng.choice(cands)
                tree = sg.replace_at(tree, s.path, sg.call_of(f, sg.get_at(tree, s.path), rng))
    p["tree"] = tree
    w = sg.Walk(tree)
    # unbound names (strict dialects)
    if dialect in sg.STRICT:
        sites = [s for s in w.sites if s.kind in ("var", "capture", "tmpl") and w.reachable(s)]
        by_cls = {}
        for s in sites:
            by_cls.setdefault(s.cls(), []).append(s)
        classes = sorted(by_cls)
        rng.shuffle(classes)
        for c in classes[:4]:
            m = sg.mut_unbound(w, rng, rng.choice(by_cls[c]))
            if m:
                muts.append(m)
        dead = [s for s in w.sites if s.kind == "var" and not w.reachable(s)]
        if dead and rng.random() < 0.3:
            m = sg.mut_unbound(w, rng, rng.choice(dead))
            if m:
                m["kind"] = "unbound-dead"
                muts.append(m)
    # redefinition
    fns = [(n, kw) for n, (i, kw, f) in w.helpers.items() if kw in ("defun", "defun-inline")]
    rng.shuffle(fns)
    for n, kw in fns[:2]:
        m = sg.mut_duplicate(w, rng, n, rng.choice(["defun", "defun-inline"]), rng.choice(["before", "after"]))
        if n not in w.live:
            m["kind"] = "redefine-dead"
        muts.append(m)
    # assign defects
    esites = [s for s in w.sites if s.kind == "expr" and w.reachable(s) and s.where != "macro"
              and "macro-arg" not in s.flags]
    if esites:
        by_cls = {}
        for s in esites:
            by_cls.setdefault(s.cls(), []).append(s)
        classes = sorted(by_cls)
        rng.shuffle(classes)
        for c, defect in zip(classes[:2] * 2, ["cycle", "dup", "dup", "cycle"][:2 if quick else 4]):
            muts.append(sg.mut_assign(w, rng, rng.choice(by_cls[c]), defect))
    # inline cycles
    k = rng.choice([1, 2, 3, 4, 4])
    r = sg.add_inline_chain(g, p, rng, k)
    if r:
        ctree, chain = r
        pairs = [(i, j) for j in range(k) for i in range(j + 1)]
        rng.shuffle(pairs)
        for i, j in pairs[:2]:
            m = sg.mut_backedge(ctree, chain, rng, i, j)
            if m:
                muts.append(m)
        if rng.random() < 0.4:
            i, j = rng.choice(pairs)
            m = sg.mut_backedge(ctree, chain, rng, i, j, weak=True)
            if m:
                muts.append(m)
    for m in muts:
        m["dialect"] = dialect
        m["features"] = sorted(g.used_features)
    return muts


HAND = [
    # kind, class, defective, repaired, names the error may name, helper forms the error may point into
    ("inline-cycle-macro", "len1@via-macro-template", None,
     "(mod (X Y) (include SIG) (defmacro mc (Q) (qq (fcyc (unquote Q)))) (defun-inline fcyc (A) (mc A)) (fcyc X))",
     "(mod (X Y) (include SIG) (defmacro mc (Q) (qq (+ 1 (unquote Q)))) (defun-inline fcyc (A) (mc A)) (fcyc X))",
     ["fcyc", "mc"], ["fcyc", "mc"]),
    ("inline-cycle-macro", "len2@via-macro-template", "thorough",
     "(mod (X Y) (include SIG) (defmacro mc (Q) (qq (gcyc (unquote Q) 1))) (defun-inline gcyc (A B) (fcyc (+ A B))) "
     "(defun-inline fcyc (A) (* 2 (mc A))) (fcyc X))",
     "(mod (X Y) (include SIG) (defmacro mc (Q) (qq (gcyc (unquote Q) 1))) (defun-inline gcyc (A B) (+ A B)) "
     "(defun-inline fcyc (A) (* 2 (mc A))) (fcyc X))",
     ["fcyc", "gcyc", "mc"], ["fcyc", "gcyc", "mc"]),
    ("redefine", "defun-inline+defun:after (body uses `if`)", None,
     "(mod (X Y) (include SIG) (defun-inline dupf (A B) (c (if A B B) A)) (defun dupf (A B) (c (if A B B) A)) (dupf X Y))",
     "(mod (X Y) (include SIG) (defun-inline dupf (A B) (c (if A B B) A)) (dupf X Y))",
     ["dupf"], ["dupf"]),
    ("inline-cycle", "len1@inline-body (common subexpression)", None,
     "(mod (X) (include SIG) (defun-inline fcse (A B) (if A (fcse (- A 1) (+ B (* A A))) (+ B (* A A)))) (fcse X 2))",
     "(mod (X) (include SIG) (defun-inline fcse (A B) (if A (+ B (* A A)) (+ B (* A A)))) (fcse X 2))",
     ["fcse"], ["fcse"]),
    ("unbound", "qq-head-1", "strict",
     "(mod (X Y) (include SIG) (qq (1 (unquote ZORK))))", "(mod (X Y) (include SIG) (qq (1 (unquote X))))", ["ZORK"], []),
    ("unbound", "qq-head-q", "strict",
     "(mod (X Y) (include SIG) (qq (q (unquote ZORK))))", "(mod (X Y) (include SIG) (qq (q (unquote X))))", ["ZORK"], []),
    ("unbound", "qq-unquote", "strict",
     "(mod (X Y) (include SIG) (qq (7 (unquote ZORK))))", "(mod (X Y) (include SIG) (qq (7 (unquote X))))", ["ZORK"], []),
    ("unbound", "macro-template-free-name", "strict",
     "(mod (X Y) (include SIG) (defmacro mt (Q) (qq (+ (unquote Q) ZORK))) (mt X))",
     "(mod (X Y) (include SIG) (defmacro mt (Q) (qq (+ (unquote Q) Y))) (mt X))", ["ZORK"], []),
    ("unbound", "macro-template-free-name", "strict",
     "(mod (X Y) (include SIG) (defmacro mt (Q) (qq (+ (unquote Q) ZORK))) (defun g (A B) (+ A (mt B))) (g X Y))",
     "(mod (X Y) (include SIG) (defmacro mt (Q) (qq (+ (unquote Q) 1))) (defun g (A B) (+ A (mt B))) (g X Y))", ["ZORK"], []),
]


def handwritten(dialect, quick):
    """fixed members of the quantifier's classes that the generator reaches rarely (and the
    witnesses of the open findings, so that every run re-checks them)."""
    out = []
    for kind, cls, only, bad, good, names, helpers in HAND:
        if only == "strict" and dialect not in sg.STRICT:
            continue
        if only == "thorough" and quick:
            continue          # the compiler needs about a minute to overflow its stack on this one
        sig = progen.SIGILS[dialect]
        m = {"kind": kind, "cls": cls, "dialect": dialect, "features": ["handwritten"],
             "bad": sg.parse(bad.replace("SIG", sig).replace("ZORK", "zork_1")),
             "good": sg.parse(good.replace("SIG", sig)),
             "expect": {"names": [n.replace("ZORK", "zork_1") for n in names], "helpers": helpers}}
        if kind == "unbound":
            m["bad2"] = sg.parse(bad.replace("SIG", sig).replace("ZORK", "zork_1q"))
        if kind == "inline-cycle":
            m["probes"] = []
        out.append(m)
    return out


def dialect_group(d):
    return "cl23+" if d in ("cl23", "cl23.1", "cl24") else d


def with_sigil(text, dialect):
    """the same program under another dialect's sigil."""
    return re.sub(r"\(include \*[a-z]+-cl-[0-9.]+\*\)", "(include " + progen.SIGILS[dialect] + ")", text, count=1)


def oracle(chk, rng, nprogs, quick):
    all_m = []
    for d in progen.MODERN:
        for _ in range(nprogs):
            all_m += make_mutants(rng, d, quick)
        all_m += handwritten(d, quick)
    evaluate_mutants(chk, all_m)


def mutant_of_case(c):
    """rebuild a mutant from a recorded failing case (replay)."""
    exp = dict(c.get("expect", {}))
    for k in ("form",):
        if k in exp:
            exp[k] = tuple(exp[k])
    if "forms" in exp:
        exp["forms"] = [tuple(x) for x in exp["forms"]]
    m = {"kind": c["kind"], "cls": c.get("class", "replay"), "dialect": c["dialect"], "features": ["replay"],
         "bad": sg.parse(c["defective"]), "good": sg.parse(c["repaired"]), "expect": exp, "only_flags": (c.get("optimize", "0"),)}
    if "defective2" in c:
        m["bad2"] = sg.parse(c["defective2"])
    if "probes" in c:
        m["probes"] = [sg.parse(t) for t in c["probes"]]
    return m


def evaluate_mutants(chk, all_m):
    lines = []
    index = []      # (mutant idx, flag, role)
    for k, m in enumerate(all_m):
        m["bad_text"], m["spans"] = sg.render(m["bad"])
        m["good_text"] = progen.text(m["good"])
        if "bad2" in m:
            m["bad2_text"] = progen.text(m["bad2"])
        for fl in m.get("only_flags", FLAGS[m["dialect"]]):
            for role in ("good", "bad", "bad2"):
                t = m.get(role + "_text")
                if t is None:
                    continue
                lines.append(f"c {fl} " + t.encode().hex())
                index.append((k, fl, role))
    outs, nslow = run_scope_patient(lines, patient=[role != "good" for _, _, role in index], per_job=6)
    chk.count("oracle:compilations", len(lines))
    chk.count("oracle:compilations-rerun-with-long-limit", nslow)
    res = {}
    for (k, fl, role), o in zip(index, outs):
        res[(k, fl, role)] = o
    # follow-ups for accepted inline cycles:
    #  (a) is the call that closes the cycle part of the emitted code?  two literal markers at its
    #      position must give different programs, otherwise the cycle is not reachable;
    #  (b) under cl23+: is the same text rejected by the pipeline without the cl23 optimiser passes
    #      (sigil *strict-cl-21*)?  then the acceptance is the optimiser's doing (known finding).
    plines, pindex = [], []
    for k, m in enumerate(all_m):
        if m["kind"] != "inline-cycle":
            continue
        for fl in m.get("only_flags", FLAGS[m["dialect"]]):
            if res[(k, fl, "bad")].startswith("ok") and res[(k, fl, "good")].startswith("ok"):
                for j, t in enumerate(m.get("probes", [])):
                    plines.append(f"c {fl} " + progen.text(t).encode().hex())
                    pindex.append((k, fl, j))
                if m["dialect"] in ("cl23", "cl23.1", "cl24"):
                    plines.append("c 0 " + with_sigil(m["bad_text"], "strict21").encode().hex())
                    pindex.append((k, fl, "s21"))
    pouts, _ = run_scope_patient(plines, per_job=4) if plines else ([], 0)
    probe = {}
    for key, o in zip(pindex, pouts):
        probe[key] = o
    for k, m in enumerate(all_m):
        d = m["dialect"]
        kind = m["kind"]
        for fl in m.get("only_flags", FLAGS[d]):
            good = res[(k, fl, "good")]
            bad = res[(k, fl, "bad")]
            key = f"oracle:{kind}:{d}:O{fl}"
            case = {"kind": kind, "class": m["cls"], "dialect": d, "optimize": fl, "defective": m["bad_text"],
                    "repaired": m["good_text"], "expect": m["expect"]}
            if "bad2_text" in m:
                case["defective2"] = m["bad2_text"]
            if m.get("probes"):
                case["probes"] = [progen.text(t) for t in m["probes"]]
            chk.note_case((m["bad_text"], fl))
            if not good.startswith("ok"):
                chk.count(key + ":skipped-twin-" + (good.split()[0] if good else "none"))
                if crashed(good):
                    chk.count("oracle:well-scoped-program-crashes-compiler(not C10)")
                continue
            chk.count(f"position:{kind}:{m['cls'].split('@')[-1]}")
            if crashed(bad):
                chk.count(key + ":NO-ANSWER")
                how = "hang" if bad == "timeout" else "crash"
                sig = f"scope:{kind}:{how}"
                if kind == "inline-cycle" and d == "cl22" and how == "hang":
                    sig = "scope:inline-cycle:cl22:hang"      # the evaluator's exponential search (finding C10-F4)
                if kind == "redefine":
                    kinds = m["cls"].split(":")[0].split(" ")[0].split("+")
                    sig = f"scope:redefine:{'mixed-inline-defun' if kinds[0] != kinds[1] else 'same-kind'}:{how}"
                chk.fail("oracle", sig, case, f"compile_file did not come back ({bad}); the repaired twin compiles")
                continue
            if bad.startswith("ok"):
                if kind in ("unbound", "unbound-dead"):
                    bad2 = res.get((k, fl, "bad2"), "")
                    if bad2.startswith("ok") and norm_prog(bad2) == norm_prog(bad):
                        # the position is not part of the emitted program at all (dropped before code
                        # generation: unused inline argument, dead branch, dead function): not "reachable code"
                        chk.count(key + ":accepted-position-not-in-output")
                        continue
                    leaked = m["expect"]["names"][0].encode().hex() in bad.split()[1]
                    if not leaked and bad2.startswith("ok") and same_behaviour(bad, bad2) and same_behaviour(bad, good):
                        # the name is not in the emitted code and the program behaves exactly like the one with another
                        # spelling and like the repaired twin: the position was dropped before code generation (unused
                        # inline argument), and the two emitted programs differ only by an ordering that depends on
                        # name hashes (cl23+ CSE, finding C05-cl23-cse-order) - not "reachable code"
                        chk.count(key + ":accepted-position-not-in-output(behaviourally)")
                        continue
                    chk.count(key + ":ACCEPTED")
                    sig = ("scope:unbound:accepted-" + ("as-constant" if leaked else "changes-output") + ":"
                           + m["cls"] + (":cl23+" if d in ("cl23", "cl23.1", "cl24") and m["cls"].startswith("macro-template") else ""))
                    chk.fail("oracle", sig, case, {"emitted": bad.split()[1][:300],
                                                   "note": "the unbound name reaches the emitted code; the strict dialect must reject it"})
                elif kind in ("redefine-dead", "inline-cycle-hoisted"):
                    chk.count(key + ":accepted")
                elif kind == "inline-cycle" and m.get("probes") and norm_prog(probe.get((k, fl, 0), "a")) == norm_prog(probe.get((k, fl, 1), "b")):
                    # the call that closes the cycle sits in code that is dropped (argument of an
                    # inline that ignores it, dead branch): the cycle is not reachable
                    chk.count(key + ":accepted-position-not-in-output")
                elif kind == "inline-cycle":
                    chk.count(key + ":ACCEPTED")
                    sig = "scope:inline-cycle:accepted"
                    s21 = probe.get((k, fl, "s21"), "")
                    if s21.startswith("err") and "recursive call to inline function" in decode_err(s21)["msg"]:
                        sig += ":cl23-optimiser-hoists-the-call"
                    chk.fail("oracle", sig, case, {"emitted": bad.split()[1][:300], "same_text_under_strict_cl_21": s21[:60]})
                else:
                    chk.count(key + ":ACCEPTED")
                    chk.fail("oracle", f"scope:{kind}:accepted", case, {"emitted": bad.split()[1][:300]})
                continue
            if not bad.startswith("err"):
                chk.count(key + ":" + bad.split()[0])
                chk.fail("oracle", f"scope:{kind}:unexpected-result", case, bad[:200])
                continue
            err = decode_err(bad)
            how = names_offender(m, err, m["bad_text"], m["spans"], m["bad"])
            chk.count(key + ":rejected-named-by-" + str(how))
            chk.count("message:" + re.sub(r"[A-Za-z]+_?[0-9]+[A-Za-z0-9_$]*|'[^']*'|\(.*", "_", err["msg"])[:60])
            if how is None and kind not in ("unbound-dead", "redefine-dead", "inline-cycle-hoisted"):
                sig = f"scope:{kind}:{dialect_group(d)}:error-does-not-name-offender:{msg_class(err['msg'])}"
                if d == "cl22" and kind in ("inline-cycle", "inline-cycle-macro"):
                    # cl22's evaluator meets the cycle first and reports whatever it runs into
                    # (finding C10-F4): one class, whatever the message
                    sig = f"scope:{kind}:cl22:error-does-not-name-offender"
                chk.fail("oracle", sig, case, {"error": err})
    for kind in ("unbound", "redefine", "inline-cycle", "assign-cycle", "assign-dup"):
        for m in all_m:
            if m["kind"] == kind and "handwritten" not in m["features"]:
                chk.sample({"kind": kind, "class": m["cls"], "dialect": m["dialect"], "defective": m["bad_text"][:500]}, limit=12)
                break


def msg_class(msg):
    return re.sub(r"[^a-z]+", "-", msg.lower())[:40].strip("-")


def unbound_sig(m):
    return m["cls"]


# ---------------------------------------------------------------------------------------------

def replay(chk, data):
    """re-run exactly the recorded cases: program mutants through the oracle, protocol lines through
    model and implementation."""
    if data.get("kind") == "failing-input":
        cases = [data["case"]] + [m["case"] for m in data.get("more", [])]
    else:
        cases = [x.get("first_case", {}) for x in data.get("no_longer_checks", [])]
    muts = [mutant_of_case(c) for c in cases if "defective" in c and "repaired" in c]
    if muts:
        evaluate_mutants(chk, muts)
    lines = [c["line"] for c in cases if "line" in c]
    # inline-correspondence cases carry the line without its last field (the source text)
    lines = [l if not l.startswith("i ") or len(l.split()) >= 6 else l + " " + c.get("program", "").encode().hex()
             for l, c in zip(lines, [c for c in cases if "line" in c])]
    if lines:
        mo = lib.run_model("scope", lines)
        io, _ = run_scope_patient(lines)
        for l, a, b in zip(lines, mo, io):
            chk.note_case(l)
            if a.strip().split()[:1] != b.strip().split()[:1] or (l[0] == "t" and a.strip() != b.strip()):
                chk.fail("correspondence", "corr:replay", {"line": l}, {"model": a[:300], "impl": b[:300]})
            if l.startswith("t "):
                items = [] if l == "t -" else [([int(x) for x in it.split("|")[0].split(",") if x],
                                                [int(x) for x in it.split("|")[1].split(",") if x]) for it in l[2:].split(";")]
                why = sg.check_topo_output(items, b.strip())
                if why:
                    chk.fail("oracle", "toposort:" + why.split()[0], {"line": l, "items": items}, why)


def run(chk):
    global LIMIT2
    rng = chk.rng
    quick = chk.tier == "quick"
    LIMIT2 = 120 if quick else 300
    import time as _t
    _t0 = _t.time()
    lib.std_obligations(chk)
    chk.cov["obligations_seconds"] = round(_t.time() - _t0, 1)
    chk.cov["rule"] = (
        "correspondence: t-lines = every dependency graph with <= 3 items over 3 keys + random graphs (hidden valid order, "
        "then cycles of length 1..4, self-needs, needs nobody provides, shared providers, repeated needs); d-lines = binding "
        "lists with names repeated inside / across patterns; i-lines = abstract inline call graphs (1..6 inlines, calls nested "
        "in arguments and &rest tails, macro / defun / primitive heads) rendered to real programs (exact for cl21 / strict-cl-21, "
        "oracle-only for cl23+); q-lines = qq templates (quote / unquote forms well- and ill-formed, heads q, 1, 113, \"q\", dotted "
        "tails) through compile_bodyform; k-lines = core programs with an unbound variable or a duplicated defun, live or dead "
        "(bytes for strict-cl-21, accept/reject for cl23, cl24). oracle: programs of tools/progen.py (random feature "
        "subsets) per dialect with exactly one injected defect per mutant, compile_file in a supervised child with a "
        f"{LIMIT}s limit, library option derivation without and with -O. distinct = distinct protocol lines / (defective text, "
        "flag); non-trivial = more than one item / binding, every program mutant")
    ok, out = lib.build_harness()
    if not ok:
        chk.fail("proof", "harness-build", {}, out[-1500:])
        return
    if chk.replay_cases:
        replay(chk, chk.replay_cases)
        return
    import time
    phases = {}

    def phase(name, f, *a):
        t0 = time.time()
        f(chk, rng, *a)
        phases[name] = round(time.time() - t0, 1)
    phase("toposort", topo_correspondence, 2500 if quick else 60000)
    phase("assign-dup", dup_correspondence, 500 if quick else 10000)
    phase("inline", inline_correspondence, 350 if quick else 6000)
    phase("qq", qq_correspondence, 1500 if quick else 40000)
    phase("core", core_correspondence, 40 if quick else 1000)
    phase("oracle", oracle, 10 if quick else 80, quick)
    chk.cov["phase_seconds"] = phases
    chk.cov["modelled_not_verified"] = [
        "the strictness / redefinition theorems are over the core language (Core.compileCore); positions reached only "
        "through macro expansion, let/assign hoisting, lambda desugaring, inlining or the cl23+ strategy optimiser are "
        "covered by the injected-defect oracle only",
        "Inl.expand abstracts arg_lookup errors (too few arguments) and the expression that is built; Let / Lambda / "
        "non-atom-head cases of replace_inline_body are modelled but cannot be reached through compile_file (lets are "
        "hoisted first), so they are not exercised by the correspondence",
        "qq_to_expression is modelled on templates whose unquoted operands are leaves (the operand itself goes through "
        "compile_bodyform, which is not modelled); macro expansion (defmacro / defmac, the cl23+ evaluator path of finding "
        "C10-F2) is not modelled",
        "toposort is modelled with the needs callback of toposort_assign_bindings (atoms ∩ possible); HashSet iteration "
        "order is irrelevant to its result (only membership is used)",
        "hangs / stack overflows are runtime phenomena: observed by the supervised child process, proved impossible only "
        "for the modelled loops (toposort, inline expansion)",
    ]
    chk.assumptions.append("a position whose replacement by two different fresh names yields byte-identical output is not "
                           "part of the reachable code (dropped before code generation) and is not counted as a violation")
