"""C08 — binary (de)serialisation is lossless, canonical and rejects malformed input.

model  : lean/ChialispModel/Clvm/Serde.lean  (sexp_to_stream / sexp_from_stream / atom_from_stream /
         int_from_bytes / get_u32 as written), spec lean/ChialispModel/Clvm/SerdeSpec.lean (clvmr)
impl   : harness/src/serde.rs  (classic serialiser, clvmr, hex_to_modern_sexp)
oracle : encode == clvmr bytes and reads back the same value; decode returns clvmr's value or an
         error, never a different value (and never a value where clvmr has none); no panics.
"""
import itertools

import os
import sys

import gen
import lib

sys.path.insert(0, os.path.dirname(os.path.dirname(os.path.abspath(__file__))))
import translate_c08  # noqa: E402

LEVEL = "proof"

SIG_U32 = "serde:u32-length-class"
SIG_7BYTE = "serde:7byte-prefix-accepted"


class Rep:
    """a long atom: n copies of one byte (kept symbolic so that protocol lines stay short)."""
    __slots__ = ("n", "b")

    def __init__(self, n, b):
        self.n, self.b = n, b

    def __len__(self):
        return self.n

    def __repr__(self):
        return f"Rep({self.n},{self.b:#x})"


def valspec(v):
    out = []
    stack = [v]
    while stack:
        x = stack.pop()
        if isinstance(x, tuple):
            out.append("P")
            stack.append(x[1])
            stack.append(x[0])
        elif isinstance(x, Rep):
            out.append(f"R{x.n}:{x.b:02x}")
        else:
            out.append("A" + x.hex())
    return ",".join(out)


def pieces_of_val(v):
    """consensus encoding as bytespec pieces [(kind, ...)] with long atoms symbolic."""
    out = []
    stack = [v]
    while stack:
        x = stack.pop()
        if isinstance(x, tuple):
            out.append(("x", b"\xff"))
            stack.append(x[1])
            stack.append(x[0])
        elif isinstance(x, Rep):
            out.append(("x", gen.size_prefix(x.n)))
            out.append(("r", x.n, x.b))
        else:
            out.append(("x", gen.ser(x)))
    return out


def bytespec(pieces):
    res = []
    acc = b""
    for p in pieces:
        if p[0] == "x":
            acc += p[1]
        else:
            res.append("x" + acc.hex())
            acc = b""
            res.append(f"r{p[1]}:{p[2]:02x}")
    if acc or not res:
        res.append("x" + acc.hex())
    return ",".join(res)


def spec_of_bytes(b):
    return "x" + b.hex()


def atom_lengths(v):
    out = []
    stack = [v]
    while stack:
        x = stack.pop()
        if isinstance(x, tuple):
            stack += [x[0], x[1]]
        else:
            out.append(len(x))
    return out


def concrete(v):
    """Rep atoms expanded (small values only)."""
    if isinstance(v, tuple):
        stack, out = [v], {}
        # iterative post-order rebuild
        order = []
        while stack:
            x = stack.pop()
            order.append(x)
            if isinstance(x, tuple):
                stack += [x[0], x[1]]
        for x in reversed(order):
            if isinstance(x, tuple):
                out[id(x)] = (out[id(x[0])], out[id(x[1])])
            else:
                out[id(x)] = bytes([x.b]) * x.n if isinstance(x, Rep) else x
        return out[id(v)]
    return bytes([v.b]) * v.n if isinstance(v, Rep) else v


def size_misread(n):
    """does the classic reader mis-read the length prefix the encoder writes for an n-byte atom?
    (4- and 5-byte classes: the low four size bytes are assembled in reverse order)"""
    if n < 0x100000:
        return False
    low = (n & 0xffffffff).to_bytes(4, "big")
    return low != low[::-1]


def length_class(n):
    for name, lim in (("0", 1), ("1..0x3f", 0x40), ("0x40..0x1fff", 0x2000), ("0x2000..0xfffff", 0x100000),
                      ("0x100000..0x7ffffff", 0x8000000)):
        if n < lim:
            return name
    return ">=0x8000000"


# ---- an independent (python) reading with the classic decoder's size arithmetic: used ONLY to
# ---- attribute an implementation-vs-clvmr difference to a known finding's input class ---------

def classic_headers(bs, limit=200000):
    """walk `bs` the way sexp_from_stream does when nothing fails; returns the list of
    (k, size read little-endian-groups, size big-endian) for every atom header met, or None
    if the walk fails."""
    pos = 0
    todo = 1
    heads = []
    steps = 0
    n = len(bs)
    while todo:
        steps += 1
        if steps > limit or pos >= n:
            return None
        c = bs[pos]
        pos += 1
        if c == 0xff:
            todo += 1
            continue
        todo -= 1
        if c <= 0x80:
            continue
        k = 0
        while c & (0x80 >> k):
            k += 1
        blob = bytes([c & (0xff >> k)]) + bs[pos:pos + k - 1]
        if len(blob) != k:
            return None
        pos += k - 1
        be = int.from_bytes(blob, "big")
        rem = k % 4
        le = 0
        order = 1
        for g in range(k // 4 - 1, -1, -1):
            le += int.from_bytes(blob[rem + 4 * g: rem + 4 * g + 4], "little") * order
            order <<= 32
        for i in range(rem - 1, -1, -1):
            le += blob[i] * order
            order <<= 8
        heads.append((k, le, be))
        if le >= 0x400000000 or pos + le > n:
            return None
        pos += le
    return heads


def classify_decode_failure(bs):
    heads = classic_headers(bs)
    if heads is None:
        return "serde:decode-differs"
    if any(4 <= k <= 6 and le != be for k, le, be in heads):
        return SIG_U32
    if any(k == 7 for k, le, be in heads):
        return SIG_7BYTE
    return "serde:decode-differs"


# ---- generators ------------------------------------------------------------------------------

def boundary_atoms(rng, quick):
    """atoms at every length-class boundary of the format."""
    out = [b"", b"\x00", b"\x01", b"\x7f", b"\x80", b"\x81", b"\xff", b"\x00\x00", b"\x7f\x7f", b"\x80\x00", b"\xff\xff"]
    for n in (2, 3, 0x3e, 0x3f, 0x40, 0x41, 0xff, 0x100, 0x101, 0x1ffe, 0x1fff, 0x2000, 0x2001):
        out.append(bytes(rng.randrange(256) for _ in range(n)))
        out.append(Rep(n, rng.choice([0x00, 0x61, 0x7f, 0x80, 0xff])))
    for n in (0xffff, 0x10000, 0xffffe, 0xfffff):
        out.append(Rep(n, rng.choice([0x00, 0x61, 0xff])))
    out.append(bytes(rng.randrange(256) for _ in range(0xfffff)))
    # 4-byte class (1 MiB and up): a handful; 0x101000 has a palindromic size field (f0 10 10 00)
    big = [0x100000, 0x100001, 0x101000, 0x1fffff] if quick else \
        [0x100000, 0x100001, 0x100100, 0x101000, 0x110011, 0x1fffff, 0x200000, 0x400000, 0x7f00ff]
    for n in big:
        out.append(Rep(n, rng.choice([0x00, 0x61, 0xff])))
    return out


def mutate_bytes(rng, b):
    """malformed stream: bit flips in (length) prefixes, deletions, insertions, trailing garbage."""
    if not b:
        return bytes([rng.randrange(256)])
    r = rng.random()
    b = bytearray(b)
    if r < 0.4:
        i = rng.randrange(min(len(b), 8)) if rng.random() < 0.7 else rng.randrange(len(b))
        b[i] ^= 1 << rng.randrange(8)
    elif r < 0.55:
        del b[rng.randrange(len(b))]
    elif r < 0.7:
        b.insert(rng.randrange(len(b) + 1), rng.choice([0xff, 0x80, 0x00, 0xc0, 0xe0, 0xf0, 0xf8, 0xfc, 0xfe, rng.randrange(256)]))
    elif r < 0.85:
        b += bytes(rng.randrange(256) for _ in range(rng.randint(1, 4)))
    else:
        i = rng.randrange(len(b))
        b[i] = rng.choice([0xff, 0x80, 0xbf, 0xc0, 0xdf, 0xe0, 0xef, 0xf0, 0xf7, 0xf8, 0xfb, 0xfc, 0xfd, 0xfe])
    return bytes(b)


def header_cases(rng, quick):
    """hand-built atom headers of every prefix width with size fields at the edges."""
    out = []
    fill = lambda n: bytes(rng.randrange(256) for _ in range(n))
    for first in range(0x80, 0xff):
        k = 0
        while first & (0x80 >> k):
            k += 1
        for tail in itertools.product([0, 1], repeat=min(k - 1, 6)):
            t = bytes(tail)
            for extra in (0, 1, 2, 300):
                out.append(bytes([first]) + t + fill(extra))
        for _ in range(6):
            t = bytes(rng.choice([0, 0, 0, 1, 2, 0x10, 0xff, rng.randrange(256)]) for _ in range(k - 1))
            out.append(bytes([first]) + t + fill(rng.choice([0, 1, 5, 70, 300, 5000])))
            out.append(bytes([first]) + t[: rng.randrange(k)])          # cut inside the prefix
    # exact-size bodies for small size fields in every width (canonical and over-long prefixes);
    # `be`: the size as clvmr reads it, `le`: a header whose size the classic reader takes for n
    for k in range(1, 8):
        cap = (7 - k) + 8 * (k - 1)
        lead = (0xff << (8 - k)) & 0xff
        for n in (0, 1, 2, 5, 0x3f, 0x40, 0x100, 0x101, 0x2000, 0x10000):
            hdrs = []
            if n < (1 << cap):
                blob = n.to_bytes(k, "big")
                hdrs.append(bytes([lead | blob[0]]) + blob[1:])
            if k >= 4:
                blob = bytes(k % 4) + n.to_bytes(4, "little")
                if blob[0] < (1 << (7 - k)) or (k == 7 and blob[0] == 0):
                    hdrs.append(bytes([lead | blob[0]]) + blob[1:])
            for hdr in hdrs:
                for body in {n, n + 1, max(0, n - 1)}:
                    out.append(hdr + fill(body))
                    out.append(b"\xff" + hdr + fill(body) + b"\x01")
                    out.append(b"\xff\x01" + hdr + fill(body))
    return out


def run(chk):
    rng = chk.rng
    quick = chk.tier == "quick"
    import time
    t0 = time.time()

    def lap(what):
        chk.dist["t:" + what] = round(time.time() - t0, 1)
    # the two source-level facts the model is parametric in, re-read from the sources
    try:
        cfg = translate_c08.main()
    except translate_c08.TranslateError as e:
        chk.fail("proof", "translator:unrecognised-source", {"file": "tools/translate_c08.py"}, str(e))
        cfg = None
    chk.cov["source_configuration"] = cfg
    if cfg is not None:
        chk.cov["theorems_applying_to_the_sources"] = (
            "full statements (decode_encode, decode_spec, decode_truncated)" if not cfg["u32LittleEndian"] and not cfg["accept7"]
            else "partial statements + defect witnesses (" + ", ".join(
                ([("little-endian get_u32: decode_encode_counterexample, decode_sound_counterexample_wide")] if cfg["u32LittleEndian"] else []) +
                ([("7-byte prefixes accepted: decode_sound_counterexample_7byte")] if cfg["accept7"] else [])) + ")")
    ok = lib.std_obligations(chk)
    lap("obligations")
    chk.cov["rule"] = (
        "e-lines: values (atoms at every length-class boundary 0/1/0x3f/0x40/0x1fff/0x2000/0xfffff/0x100000, 1 MiB+ "
        "atoms, exhaustive small trees, random trees, deep lists) through sexp_to_stream vs clvmr and read back; "
        "d-lines: byte strings as decoder input — every string of length <=2 (<=3 in thorough), sampled length 3, "
        "hand-built headers of every prefix width, valid encodings with truncation at every offset, bit flips in "
        "prefixes, deletions/insertions, trailing garbage. distinct = distinct protocol lines (of the thorough tier's "
        "exhaustive 3-byte sweep only every 97th line is entered in the distinct set; all are evaluated); "
        "non-trivial = not the empty string / empty atom")

    # ---------------- encoder side ----------------
    vals = []
    batoms = boundary_atoms(rng, quick)
    vals += batoms
    for a in batoms:
        if isinstance(a, Rep) and a.n >= 0x100000:
            vals.append((b"\x01", a))
            vals.append((a, b"\x02"))
        else:
            vals.append((a, b""))
            vals.append((b"foo", (a, b"\x80")))
    vals.append(gen.lst([a for a in batoms if len(a) < 0x100000 and not (isinstance(a, bytes) and len(a) > 0x3000)]))
    small = [b"", b"\x00", b"\x01", b"\x7f", b"\x80", b"\xff", b"ab", b"\x80\x00"]
    vals += gen.trees_upto(small, 5)
    for _ in range(3000 if quick else 60000):
        vals.append(gen.rand_tree(rng, rng.randint(1, 5)))
    for _ in range(300 if quick else 3000):
        vals.append(gen.rand_atom(rng))
    for n in ((40, 70, 200, 300, 9000) if quick else (40, 64, 70, 200, 300, 5000, 9000, 70000)):
        vals.append(bytes(rng.randrange(256) for _ in range(n)))
    deep = b""
    for i in range(1500):
        deep = (deep, bytes([i % 256]))
    vals.append(deep)
    vals.append(gen.lst([bytes([i % 256]) * (i % 5) for i in range(4000)]))
    if not quick:
        vals.append(Rep(0x1000001, 0x00))          # 16 MiB + 1: palindromic size field f1 00 00 01

    rng.shuffle(vals)          # spread the few expensive (MiB) lines over the worker processes
    elines = ["e " + valspec(v) for v in vals]
    for l, v in zip(elines, vals):
        chk.note_case(l, nontrivial=v != b"")
        for n in atom_lengths(v):
            chk.count("atom length class " + length_class(n))
    chk.sample({"line": next(l for l in elines if "P" in l and len(l) < 120), "meaning": "e <valspec>: value to serialise (A<hex> atom, R<len>:<byte> long atom, P pair)"})
    lap("gen-e")
    emo, eio = lib.correspond(chk, "serde", elines, label="serde-e", timeout=1200)
    lap("e")

    for l, v, o in zip(elines, vals, eio):
        case = {"line": l[:200]}
        f = o.split()
        if o == "panic" or len(f) != 3:
            chk.fail("oracle", "serde:panic" if o == "panic" else "serde:encode-error", case, o[:200])
            continue
        if f[0] != f[1]:
            chk.fail("oracle", "serde:encode-differs", case, f"sexp_to_stream {f[0][:80]} clvmr {f[1][:80]}")
        if f[2] != "same":
            known = any(size_misread(n) for n in atom_lengths(v))
            chk.fail("oracle", SIG_U32 if known else "serde:roundtrip", case,
                     f"sexp_from_stream(sexp_to_stream v) = {f[2][:100]}")
            chk.count("e: round trip failures in the 4-byte length class" if known else "e: OTHER round trip failures")
        else:
            chk.count("e: round trip ok")

    # 5-byte length class: implementation only (128 MiB as a Lean list is out of reach)
    if not quick:
        big5 = ["e R134217728:00"]
        out = lib.run_impl("serde", big5, timeout=1200)
        for l, o in zip(big5, out):
            chk.note_case(l)
            f = o.split()
            if len(f) != 3:
                chk.fail("oracle", "serde:panic" if o == "panic" else "serde:encode-error", {"line": l}, o[:200])
            else:
                if f[0] != f[1]:
                    chk.fail("oracle", "serde:encode-differs", {"line": l}, o[:200])
                if f[2] != "same":
                    chk.fail("oracle", SIG_U32, {"line": l}, f"round trip gives {f[2][:100]}")
        chk.count("e: 5-byte class (implementation only)", len(big5))

    # ---------------- decoder side ----------------
    dins = []                # (bytespec, raw bytes or None, deep?)

    def add(b, deep=False):
        dins.append((spec_of_bytes(b), b, deep))

    add(b"")
    for x in range(256):
        add(bytes([x]))
    for x in range(256):
        for y in range(256):
            add(bytes([x, y]))
    if quick:
        for _ in range(30000):
            add(bytes([rng.randrange(256), rng.randrange(256), rng.randrange(256)]))
        for x in (0xff, 0x80, 0x81, 0x82, 0xbf, 0xc0, 0xdf, 0xe0, 0xf0, 0xfe):
            for y in range(256):
                for z in (0, 1, 0x7f, 0x80, 0xff):
                    add(bytes([x, y, z]))
    for b in header_cases(rng, quick):
        add(b)
    # valid encodings, truncated at every offset / mutated / with trailing bytes
    encs = []
    for v in vals:
        if any(n > 0x3000 for n in atom_lengths(v)):
            continue
        encs.append(gen.ser(concrete(v)))
    rng.shuffle(encs)
    n_all_offsets = 0
    for e in encs[: (2500 if quick else 40000)]:
        deep_e = e.count(b"\xff") > 400
        add(e, deep_e)
        if len(e) <= 80:
            for i in range(len(e)):
                add(e[:i], deep_e)
            n_all_offsets += 1
        else:
            for i in set(list(range(0, 6)) + [len(e) - 1, len(e) - 2, len(e) // 2] + [rng.randrange(len(e)) for _ in range(6)]):
                add(e[:i], deep_e)
        for _ in range(6):
            add(mutate_bytes(rng, e), deep_e)
        add(e + bytes(rng.randrange(256) for _ in range(rng.randint(1, 3))), deep_e)
        add(e + e, deep_e)
    chk.count("d: encodings truncated at every offset", n_all_offsets)
    for _ in range(5000 if quick else 100000):
        b = bytes(rng.choice([0xff, 0xff, 0x80, 0x01, 0x81, 0x82, 0xc0, 0xe0, 0xf0, 0xf8, 0xfc, 0xfe, 0x00, 0x10,
                              rng.randrange(256)]) for _ in range(rng.randint(3, 14)))
        add(b)
    # 1 MiB+ atoms as decoder input (symbolic): intact, one byte short, cut in the prefix, trailing
    for a in batoms:
        if isinstance(a, Rep) and a.n >= 0xffff:
            pre = gen.size_prefix(a.n)
            dins.append((bytespec([("x", pre), ("r", a.n, a.b)]), None, False))
            dins.append((bytespec([("x", pre), ("r", a.n - 1, a.b)]), None, False))
            dins.append((bytespec([("x", pre), ("r", a.n, a.b), ("x", b"\x05")]), None, False))
            dins.append((bytespec([("x", b"\xff" + pre), ("r", a.n, a.b), ("x", b"\x05")]), None, False))
            dins.append((spec_of_bytes(pre[:-1]), pre[:-1], False))
    rng.shuffle(dins)
    dlines = [("D " if deep else "d ") + s for s, _, deep in dins]
    for l in dlines:
        chk.note_case(l, nontrivial=l != "d x")
    chk.sample({"line": dlines[700], "meaning": "d <bytespec>: decoder input (x<hex> literal, r<len>:<byte> run)"})
    chk.sample({"line": next(l for l in dlines if ",r1048576:" in l)[:100], "meaning": "a 1 MiB atom as decoder input"})
    lap("gen-d")
    check_decode(chk, dlines, dins)
    lap("d")

    if not quick:
        # every byte string of length 3, in chunks
        for x in range(256):
            chunk = [(spec_of_bytes(bytes([x, y, z])), bytes([x, y, z]), False) for y in range(256) for z in range(256)]
            cl = ["d " + s for s, _, _ in chunk]
            for l in cl[::97]:
                chk.note_case(l)
            chk.cov["evaluations"] += len(cl) - len(cl[::97])
            check_decode(chk, cl, chunk, sample_dist=False)
    chk.cov["exhaustive"] = {"decoder_inputs_len_0_2": True, "decoder_inputs_len_3": not quick}
    chk.cov["modelled_not_verified"] = [
        "Stream buffer management (re_allocate, seek arithmetic) is modelled as take/drop on the unread bytes and append on write",
        "to_sexp_type (the generic CastableType converter used by OpCons) is modelled as building the pair; allocator limits are not modelled",
        "atoms of 2^34 bytes and more (atom_size_blob's Err branch silently ends the iterator) are modelled but outside every theorem and every run",
        "the 5-byte length class (128 MiB and up) is covered by the theorems' hypotheses/witness mechanism but run on the implementation only (thorough tier)",
        "hex decoding in hex_to_modern_sexp / opd (Bytes::new_validated) is exercised, not modelled",
    ]
    chk.assumptions.append("byte strings and values travel on the line protocol as described in harness/src/serde.rs")


def check_decode(chk, dlines, dins, sample_dist=True):
    def drop_tag(s):
        return " ".join(s.split()[:3])
    dmo, dio = lib.correspond(chk, "serde", dlines, norm_model=drop_tag, label="serde-d", timeout=1200)
    bad_corr = []
    for l, (spec, raw, deep), m, o in zip(dlines, dins, dmo, dio):
        case = {"line": l[:200]}
        f = o.split()
        if drop_tag(m) != o:
            bad_corr.append((l, raw))
        if o == "panic" or len(f) != 3:
            chk.fail("oracle", "serde:panic" if o == "panic" else "serde:decode-error", case, o[:200])
            continue
        r1, r2, r3 = f
        if sample_dist:
            mt = m.split()
            chk.count("d: classic=%s clvmr=%s %s" % (r1[:2], r2[:2], mt[3] if len(mt) > 3 else "?"))
        if r3 != "-" and r3 != r1:
            chk.fail("oracle", "serde:entry-points-differ", case, f"sexp_from_stream {r1[:80]} hex_to_modern_sexp {r3[:80]}")
        if r1 != "err" and r1 != r2:
            bs = raw if raw is not None else expand(spec)
            chk.fail("oracle", classify_decode_failure(bs), case,
                     f"sexp_from_stream returns {r1[:80]} where clvmr returns {r2[:80]}")
    if bad_corr:
        widen(chk, bad_corr)


def expand(spec):
    out = b""
    for p in spec.split(","):
        if p[0] == "x":
            out += bytes.fromhex(p[1:])
        else:
            n, b = p[1:].split(":")
            out += bytes([int(b, 16)]) * int(n)
    return out


_widened = [False]


def widen(chk, bad):
    """model and implementation disagree on these inputs: evaluate the property oracle on the
    implementation alone over a neighbourhood of them (truncations, bit flips, nesting, trailing)."""
    if _widened[0]:
        return
    _widened[0] = True
    rng = chk.rng
    cand = []
    for l, raw in bad[:40]:
        if raw is None or len(raw) > 5000:
            continue
        for i in range(min(len(raw), 64) + 1):
            cand.append(raw[:i])
        for i in range(min(len(raw), 16)):
            for bit in range(8):
                b = bytearray(raw)
                b[i] ^= 1 << bit
                cand.append(bytes(b))
        cand += [b"\xff" + raw + b"\x80", b"\xff\x01" + raw, raw + b"\x00", raw + raw]
        for _ in range(50):
            cand.append(mutate_bytes(rng, raw))
    lines = ["d " + spec_of_bytes(b) for b in cand]
    out = lib.run_impl("serde", lines)
    chk.count("widened-search:lines", len(lines))
    for l, b, o in zip(lines, cand, out):
        f = o.split()
        if o == "panic" or len(f) != 3:
            chk.fail("oracle", "serde:panic", {"line": l[:200], "found-by": "widened search"}, o[:200])
        elif f[0] != "err" and f[0] != f[1]:
            chk.fail("oracle", classify_decode_failure(b), {"line": l[:200], "found-by": "widened search"},
                     f"sexp_from_stream returns {f[0][:80]} where clvmr returns {f[1][:80]}")
