"""C11 — every compile entry point produces the same program for the same source.

1. translator: tools/translate_c11.py regenerates Generated/Opts.lean from the current Rust sources
   (the option derivations of the library entry, `run`, `cldb`, the dependency scan; the dialect
   table; get_optimizer) — a shape it cannot read is a broken obligation;
2. theorems of Props/C11.lean re-checked over the regenerated derivations;
3. tie translator = runtime: `cvh entry` records what each entry point really hands to the
   compiler (recording CompilerOpts wrapper, opts objects, behavioural identification of the
   pipeline) and `modeld entry` prints the regenerated model's answer; hand model of
   detect_modern vs the real one on generated values;
4. the property's own oracle, end to end on the implementation alone: library bytes
   (`compile_clvm_text`, both flavours; `compile_clvm` file-to-file) vs `run -O` text re-assembled,
   `compile_modern` vs `run` with and without -O, `cldb` traces vs the traces of the program
   `run` printed — on generated and shipped programs x every dialect incl. classic x with and
   without include files found through -i.
"""
import glob
import os
import shutil
import sys
import tempfile
from concurrent.futures import ThreadPoolExecutor

import clgen
import gen
import lib
import translate_c11
from rustsrc import ExtractError

LEVEL = "proof"
GEN_PATH = os.path.join(lib.LEAN, "ChialispModel", "Generated", "Opts.lean")
STRATEGY_NAMES = {"Strategy23": "S23", "ExistingStrategy": "Existing"}
SITES = ["lib", "libopt", "py", "cli", "cldb", "deps"]
E2E_TIMEOUT = {"quick": 90, "thorough": 600}


# ------------------------------------------------------------------------------------------
# tie: translator output (through modeld) vs runtime (cvh)
# ------------------------------------------------------------------------------------------

def norm_model_line(line, out):
    k = line.split()[0]
    if k == "k":
        return ",".join(sorted(out.split(",")))
    if k == "g":
        return STRATEGY_NAMES.get(out, out)
    return out


def tie_lines(extracted):
    names = [n for n, _ in extracted["dialects"]["table"]] if extracted else list(filter(None, clgen.DIALECTS))
    lines = ["k", "d"]
    for s in ["-"] + [str(i) for i in range(15, 32)] + ["0", "-1", "100", "2147483647"]:
        for o in "01":
            lines.append(f"g {s} {o}")
    for site in SITES:
        for d in ["-"] + names:
            for flag in "01":
                for sp in "01":
                    lines.append(f"o {site} {d} {flag} {sp}")
    return lines


def detect_lines(rng, extracted, n):
    """values for detect_modern: program-shaped trees with sigils at many places, near misses"""
    names = [x.encode() for x, _ in extracted["dialects"]["table"]] if extracted else [d.encode() for d in clgen.DIALECTS if d]
    near = [b"*standard-cl-2*", b"*standard-cl-21", b"standard-cl-21*", b"*standard-cl-25*", b"*STANDARD-CL-21*", b"", b"*standard-cl-21*\x00"]
    inc = b"include"

    def sigil():
        r = rng.random()
        nm = rng.choice(names) if r < 0.7 else rng.choice(near)
        kw = inc if rng.random() < 0.85 else rng.choice([b"includ", b"Include", b"include ", b"embed-file"])
        k = rng.random()
        if k < 0.7:
            return gen.lst([kw, nm])
        if k < 0.8:
            return gen.lst([kw, nm, b"x"])          # length 3: not a dialect include
        if k < 0.88:
            return gen.lst([kw, nm], tail=b"t")     # improper
        if k < 0.94:
            return gen.lst([kw, gen.lst([nm])])     # name is a list
        return (kw, nm)                               # (include . name)

    def filler(depth):
        if depth <= 0 or rng.random() < 0.4:
            return rng.choice([b"", b"mod", b"X", b"\x01", b"defun", b"+", inc, rng.choice(names)])
        k = rng.randrange(4)
        items = [filler(depth - 1) for _ in range(rng.randrange(0, 4))]
        if rng.random() < 0.35:
            items.insert(rng.randrange(len(items) + 1), sigil())
        tail = b"" if k else rng.choice([b"", b"", b"z"])
        return gen.lst(items, tail=tail)

    lines = []
    vals = [b"", b"mod", gen.lst([]), gen.lst([inc, names[0]]), gen.lst([gen.lst([inc, names[0]])]),
            gen.lst([b"mod", b"", gen.lst([inc, names[-1]]), b"\x01"]),
            gen.lst([b"mod", b"", gen.lst([inc, names[0]]), gen.lst([inc, names[-1]])]),        # first wins
            gen.lst([b"mod", gen.lst([gen.lst([inc, names[1]])]), gen.lst([inc, names[2]])]),     # nested earlier wins
            gen.lst([b"mod", b"", gen.lst([inc, names[0]])], tail=b"x"),                          # improper program
            gen.lst([b"mod", gen.lst([b"a", gen.lst([inc, names[0]])], tail=b"q"), gen.lst([inc, names[3 % len(names)]])]),
            ]
    for nm in names + near:
        vals.append(gen.lst([b"mod", gen.lst([b"X"]), gen.lst([inc, nm]), gen.lst([b"+", b"X", b"\x01"])]))
    for _ in range(n):
        items = [b"mod", filler(1)]
        for _ in range(rng.randrange(0, 4)):
            items.append(filler(3))
        if rng.random() < 0.5:
            items.insert(rng.randrange(2, len(items) + 1), sigil())
        vals.append(gen.lst(items, tail=b"" if rng.random() < 0.93 else b"t"))
    for v in vals:
        lines.append("n " + gen.hexv(v))
    return lines


# ------------------------------------------------------------------------------------------
# end-to-end cases
# ------------------------------------------------------------------------------------------

SHIPPED_SP = ["resources/tests", "resources/tests/lib", "resources/tests/bridge-includes",
              "resources/tests/strict/includes", "resources/tests/strict", "resources/tests/game-referee-in-cl21",
              "resources/tests/game-referee-after-cl21", "resources/tests/game-referee-in-cl23",
              "resources/tests/gameref21", "resources/tests/bridgeref", "resources/tests/chia-gaming"]


def generated_cases(rng, per_cell, depth):
    cases = []
    sp_with = [["inc"], ["inc", "inc2"], ["inc2", "inc"], ["empty", "inc"]]
    sp_without = [[], ["inc"], ["empty"]]
    for d in clgen.DIALECTS:
        for use_inc in (False, True):
            for i in range(per_cell):
                g = clgen.ProgGen(rng, d, use_include=use_inc)
                src, pn = g.program(depth=depth - 1 if (clgen.stepping(d) or 0) >= 23 else depth)
                sp = (sp_with if use_inc else sp_without)[i % (4 if use_inc else 3)]
                cases.append({"origin": "generated", "dialect": d or "classic", "include": use_inc, "source": src,
                              "sp": sp, "args": g.args_for(pn), "features": sorted(g.features)})
                if i == 0:
                    for kind, bsrc in clgen.broken_variants(rng, src):
                        cases.append({"origin": "broken:" + kind, "dialect": d or "classic", "include": use_inc,
                                      "source": bsrc, "sp": sp, "args": "()", "features": []})
                if use_inc and i == 1:
                    # the include exists but is not on the search path: everyone must refuse
                    cases.append({"origin": "broken:not-on-path", "dialect": d or "classic", "include": True,
                                  "source": src, "sp": ["empty"], "args": "()", "features": []})
    # operators that exist only in the newer operator sets, applied to CONSTANTS so that compile-time folding runs them:
    # the entry points must agree on the operator-set version they hand to the compile-time evaluator (seed C11-1:
    # the library path, which never calls set_operators_version, fell back to the original operator set)
    for d in clgen.DIALECTS:
        inc = f"(include {d}) " if d else ""
        for op, operands in (("keccak256", '"abc"'), ("keccak256", '0x00 "z"'), ("modpow", "5 3 7"), ("%", "17 5"),
                             ("sha256", '"abc"')):
            for shape in ("direct", "inline", "macro"):
                if shape == "direct":
                    body = f"(c ({op} {operands}) X1)"
                    helper = ""
                elif shape == "inline":
                    helper = f"(defun-inline hh_1 (A1) (c ({op} {operands}) A1)) "
                    body = "(hh_1 X1)"
                else:
                    helper = f"(defmacro mm_1 (A1) (qq (c ({op} {operands}) (unquote A1)))) "
                    body = "(mm_1 X1)"
                cases.append({"origin": "targeted:operator-version", "dialect": d or "classic", "include": False,
                              "source": f"(mod (X1) {inc}{helper}{body})\n", "sp": [], "args": "(5)",
                              "features": ["operator-version", op, shape]})
    # the C05 finding that makes entry points disagree by chance (see known_findings.json)
    for d in ("*standard-cl-23*", "*standard-cl-23.1*", "*standard-cl-24*"):
        cases.append({"origin": "witness:nondeterministic-compile", "dialect": d, "include": False,
                      "source": f"(mod (X1) (include {d}) (defun G (A) (let ((P (+ A 3))) (let ((R (* P P))) (list P R R)))) (G X1))\n",
                      "sp": [], "args": "(5)", "features": []})
    return cases


def shipped_cases(rng, limit, max_bytes):
    files = []
    for ext in ("clsp", "clvm", "cl"):
        files += glob.glob(os.path.join(lib.REPO, "resources", "tests", "**", "*." + ext), recursive=True)
    files = sorted(f for f in files if os.path.getsize(f) <= max_bytes)
    rng.shuffle(files)
    if limit is not None:
        files = files[:limit]
    out = []
    for f in sorted(files):
        sp = [os.path.dirname(f)] + [os.path.join(lib.REPO, p) for p in SHIPPED_SP]
        out.append({"origin": "shipped", "path": f, "sp": sp, "args": "()", "features": []})
    return out


def materialise(case, root, idx):
    """write the case's files; returns the protocol line"""
    scratch = os.path.join(root, "scratch")
    os.makedirs(scratch, exist_ok=True)
    if case.get("path"):
        path, sp = case["path"], case["sp"]
    else:
        d = os.path.join(root, f"case{idx}")
        os.makedirs(os.path.join(d, "inc"), exist_ok=True)
        os.makedirs(os.path.join(d, "inc2"), exist_ok=True)
        os.makedirs(os.path.join(d, "empty"), exist_ok=True)
        with open(os.path.join(d, "inc", "gen_inc.clinc"), "w") as fh:
            fh.write(clgen.INCLUDE_FILE)
        with open(os.path.join(d, "inc2", "gen_inc.clinc"), "w") as fh:
            fh.write(clgen.INCLUDE_FILE_SHADOW)
        path = os.path.join(d, "prog.clsp")
        with open(path, "w") as fh:
            fh.write(case["source"])
        sp = [os.path.join(d, s) for s in case["sp"]]
    return " ".join(["e", scratch, case["args"].encode().hex() or "2829", path] + sp)


def run_each(cmd, lines, timeout):
    """one process per line (a compile cannot be interrupted in-process), `timeout` seconds each"""
    import subprocess

    def one(l):
        try:
            p = subprocess.run(cmd, input=l + "\n", stdout=subprocess.PIPE, stderr=subprocess.DEVNULL,
                               text=True, timeout=timeout)
            out = p.stdout.strip("\n")
            return out if out else f"abort rc={p.returncode}"
        except subprocess.TimeoutExpired:
            return "timeout"
    with ThreadPoolExecutor(max_workers=lib.NCPU) as ex:
        return list(ex.map(one, lines))


def unhex(s):
    try:
        return bytes.fromhex(s).decode("utf8", "replace")
    except ValueError:
        return s


def judge(case, out):
    """the property-level oracle on one end-to-end record. returns [(sig, detail)], tags"""
    f = dict(p.split("=", 1) for p in out.split(" ") if "=" in p)
    need = ["dialect", "lib0", "lib1", "f2f", "run1", "run0", "rt1", "rt0", "runm1", "runm0", "cm1", "cm0", "txt1", "txt0", "cldb1", "cldbx1", "cldb0", "cldbx0"]
    if any(k not in f for k in need):
        return [("entry:harness", f"incomplete record: {out[:200]}")], ["incomplete"]
    bad = []
    tags = []
    sigil = f["dialect"] not in ("-:0:0", "unassemblable")
    tags.append("sigil" if sigil else ("classic" if f["dialect"] == "-:0:0" else "unassemblable"))
    lib0 = f["lib0"]
    # (a) the library's own doors agree: python flavour, wasm/file flavour, file-to-file
    if sigil or not lib0.startswith("E:"):
        if f["lib1"] != lib0:
            bad.append(("entry:lib-flavours", f"compile_clvm_text classic_with_opts=true gives {f['lib1'][:120]} vs {lib0[:120]}"))
        if f["f2f"] != lib0:
            bad.append(("entry:lib-flavours", f"compile_clvm file-to-file gives {f['f2f'][:120]} vs {lib0[:120]}"))
    else:
        # classic errors: all must be errors (message wording differs between file readers)
        if not (f["lib1"].startswith("E:") and f["f2f"].startswith("E:")):
            bad.append(("entry:error-disagree", f"library flavours disagree on failure: lib1={f['lib1'][:80]} f2f={f['f2f'][:80]}"))
    # (b) library = `run -O`
    if lib0.startswith("E:"):
        tags.append("compile-error")
        msg = unhex(lib0[2:])
        rt = unhex(f["rt1"])
        if sigil:
            if rt != msg:
                bad.append(("entry:error-disagree", f"library refuses with {msg!r} but `run -O` prints {rt[:160]!r}"))
        else:
            if not rt.startswith("FAIL"):
                bad.append(("entry:error-disagree", f"library refuses with {msg!r} but `run -O` prints {rt[:160]!r}"))
    else:
        tags.append("compiled")
        if f["run1"] != lib0:
            if sigil and f["cm1"] == lib0 and f["runm1"] == lib0:
                # the CLI computed the library's program; only its TEXT, read by the classic
                # assembler, denotes something else (printing ambiguity)
                bad.append(("entry:cli-text-ambiguous", f"`run -O` prints {unhex(f['rt1'])[:160]!r}: the classic assembler reads it as {f['run1'][:120]}, the library emitted {lib0[:120]}"))
                tags.append("text-ambiguous")
            else:
                bad.append(("entry:lib-vs-cli", f"`run -O` gives {f['run1'][:160]} (text {unhex(f['rt1'])[:120]!r}), library {lib0[:160]}"))
    # (c) sigil programs: `run` prints compile_modern's result, for both flag settings (compared as text, and
    #     when the texts differ as the CLVM both texts denote under one reader: `txt` = equal / same-clvm / differ);
    #     the debugger's trace on the source = the trace of that program
    if sigil:
        for fl in "10":
            cm, rn = f["cm" + fl], f["run" + fl]
            if cm.startswith("E:"):
                if unhex(f["rt" + fl]) != unhex(cm[2:]):
                    bad.append(("entry:error-disagree", f"compile_modern(-O={fl}) refuses with {unhex(cm[2:])!r}, run prints {unhex(f['rt' + fl])[:120]!r}"))
                continue
            if f["txt" + fl] == "same-clvm":
                # the two texts are different SPELLINGS of one CLVM value (`()` / `0` for nil ...): the SExp variant the
                # modern compiler leaves in its result is not a function of the source (DESIGN.md section 11, C11 entry),
                # and the property speaks of the CLVM.  Counted, never a failure.
                tags.append("text-spelling-differs-same-clvm")
            elif f["txt" + fl] != "equal":
                bad.append(("entry:cli-vs-compile-modern", f"-O={fl}: `run` prints {unhex(f['rt' + fl])[:160]!r}, which neither is the printed form of what compile_modern (the debugger's compile) emitted {cm[:100]} nor reads back to the same CLVM"))
                continue
            if cm != rn:
                # same value, but its text read back by the classic assembler denotes other bytes:
                # bare symbols in quoted data (`+`, `q`, `sha256`) become opcodes, odd atoms print as `)` ...
                # That is C09's subject (print -> read); it only breaks C11 (1) if it happens with -O.
                if fl == "1" and (lib0.startswith("E:") or f["run1"] == lib0 or f["cm1"] == lib0):
                    if ("entry:cli-text-ambiguous", ) not in [(x[0],) for x in bad]:
                        bad.append(("entry:cli-text-ambiguous", f"-O=1: `run` prints {unhex(f['rt1'])[:160]!r}: the classic assembler reads it as {rn[:100]}, compile_modern emitted {cm[:100]}"))
                else:
                    tags.append("text-lossy-without-O(C09)" if f["runm" + fl] != cm else "text-ambiguous-without-O(C09)")
            a, b = f["cldb" + fl], f["cldbx" + fl]
            if a == b:
                tags.append("cldb-trace-equal")
            elif a.split("/")[1:] == b.split("/")[1:]:
                # same operator sequence, same number of rows, same ending; only the argument skeletons
                # differ: the debugger prints atoms such as 41 or "paren(" as the bare characters `)` /
                # `paren(` depending on how the program was loaded, which no tokenizer can undo
                tags.append("cldb-trace-equal-operators-only")
            else:
                bad.append(("entry:cldb-vs-cli", f"-O={fl}: trace of `cldb` on the source {a} differs from the trace of the program compile_modern emitted {b}"))
        if not lib0.startswith("E:") and not f["cm1"].startswith("E:") and f["cm1"] != lib0:
            bad.append(("entry:lib-vs-cli", f"compile_modern(-O) emitted {f['cm1'][:120]} but the library {lib0[:120]}"))
        if f["run1"] != f["run0"]:
            tags.append("flag-matters")
    return bad, tags


NONDET_SIGS = ("entry:lib-flavours", "entry:lib-vs-cli", "entry:cldb-vs-cli", "entry:cli-vs-compile-modern")


def nondeterminism(line, bad):
    """a disagreement between entry points on a sigil program: is the compiler itself giving
    different programs for IDENTICAL calls (C05's subject)?  `r` repeats the library call and
    compile_modern 8 times in one process."""
    parts = line.split(" ")
    # a variant that shows up in one call out of a hundred is as much a second program as one that shows up
    # every other call: repeat more often (8, 64, 512 identical calls) until a second program is seen
    f, nd = {}, {}
    for reps in ("8", "64", "512"):
        rline = " ".join(["r", reps] + parts[3:])
        out = run_each([lib.CVH, "entry"], [rline], 600)[0]
        f = dict(p.split("=", 1) for p in out.split(" ") if "=" in p)
        nd = {k: len(set(v.split(","))) > 1 for k, v in f.items()}
        shown = [((nd.get("lib") or nd.get("cm1")) if "-O=0" not in detail else nd.get("cm0"))
                 for sig, detail in bad if sig in NONDET_SIGS]
        if all(shown):
            break
    res = []
    for sig, detail in bad:
        if sig in NONDET_SIGS and ((nd.get("lib") or nd.get("cm1")) if "-O=0" not in detail else nd.get("cm0")):
            res.append(("entry:nondeterministic-compile",
                        f"identical calls of one entry point already yield {len(set(f.get('lib', '').split(',')))} / "
                        f"{len(set(f.get('cm1', '').split(',')))} / {len(set(f.get('cm0', '').split(',')))} different programs "
                        f"(library / compile_modern -O / compile_modern); observed as: {detail[:300]}"))
        else:
            res.append((sig, detail))
    return res


def hx(t):
    return t.encode().hex()


# (text printed by `run`, text of compile_modern's result, its CLVM hex, expected verdict)
TEXT_VERDICT_SELFTEST = [
    ("(4 (62 0 (1 . 122)) 2)", "(4 (62 0 (1 . 122)) 2)", "ff04ffff3eff80ffff017a80ff0280", "equal"),
    # the false alarm of 2026-09-24: nil spelled `()` by one compile and `0` by the other
    ("(4 (62 () (1 . 122)) 2)", "(4 (62 0 (1 . 122)) 2)", "ff04ffff3eff80ffff017a80ff0280", "same-clvm"),
    ("(4 (62 0 (1 . 122)) 2)", "(4 (62 () (1 . 122)) 2)", "ff04ffff3eff80ffff017a80ff0280", "same-clvm"),
    ('(4 (1 . "z") 2)', "(4 (1 . 122) 2)", "ff04ffff017aff0280", "same-clvm"),
    # really different programs, however slightly
    ("(4 (62 1 (1 . 122)) 2)", "(4 (62 0 (1 . 122)) 2)", "ff04ffff3eff80ffff017a80ff0280", "differ"),
    ("(4 (62 () (1 . 122)) 3)", "(4 (62 0 (1 . 122)) 2)", "ff04ffff3eff80ffff017a80ff0280", "differ"),
    ("(4 (62 0 (1 . 122)) 2", "(4 (62 0 (1 . 122)) 2)", "ff04ffff3eff80ffff017a80ff0280", "differ"),
    ("FAIL: something", "(4 (62 0 (1 . 122)) 2)", "ff04ffff3eff80ffff017a80ff0280", "differ"),
    ("(4 (62 0 (1 . 122)) 2) 5", "(4 (62 0 (1 . 122)) 2)", "ff04ffff3eff80ffff017a80ff0280", "differ"),
]


def text_verdict_selftest(chk):
    """the harness's `txt` verdict (equal / same-clvm / differ) on fixed texts: a verdict that
    accepts different programs, or refuses two spellings of one, makes the end-to-end oracle unusable"""
    lines = [f"s {hx(a)} {hx(b)} {c}" for a, b, c, _ in TEXT_VERDICT_SELFTEST]
    outs = lib.run_impl("entry", lines)
    for (a, b, c, want), got in zip(TEXT_VERDICT_SELFTEST, outs):
        chk.note_case(("txt-selftest", a, b))
        chk.count("txt-selftest:" + want)
        if got != want:
            chk.fail("proof", "harness-selftest:text-verdict", {"run_text": a, "compile_modern_text": b},
                     f"text verdict {got!r}, expected {want!r}")


def end_to_end(chk, cases):
    root = tempfile.mkdtemp(prefix="c11-")
    try:
        lines = [materialise(c, root, i) for i, c in enumerate(cases)]
        outs = run_each([lib.CVH, "entry"], lines, timeout=E2E_TIMEOUT[chk.tier])
        for c, l, o in zip(cases, lines, outs):
            chk.note_case(("e2e", c.get("source") or c.get("path"), tuple(c["sp"])), nontrivial=True)
            chk.count("e2e:" + c["origin"].split(":")[0])
            if o == "timeout":
                chk.count("e2e:timeout")    # too slow for this tier's per-case limit: not evaluated
                continue
            if o in ("missing", "panic") or o.startswith("abort"):
                chk.count("e2e:" + o.split()[0])
                if c["origin"] == "shipped":
                    continue          # e.g. a shipped negative test that overflows the stack (C14's subject)
                chk.fail("oracle", "entry:harness", case_of(c), f"harness result {o}")
                continue
            bad, tags = judge(c, o)
            for t in tags:
                chk.count("e2e:" + t)
            if "text-spelling-differs-same-clvm" in tags:
                ex = chk.cov.setdefault("text_spelling_differs_same_clvm_examples", [])
                if len(ex) < 3:
                    f = dict(p.split("=", 1) for p in o.split(" ") if "=" in p)
                    ex.append({"source": (c.get("source") or c.get("path"))[:300],
                               "run_text": [unhex(f["rt1"])[:200], unhex(f["rt0"])[:200]], "txt": [f["txt1"], f["txt0"]]})
            if "text-ambiguous-without-O(C09)" in tags or "text-lossy-without-O(C09)" in tags:
                ex = chk.cov.setdefault("cli_text_ambiguous_without_O_examples", [])
                if len(ex) < 3:
                    f = dict(p.split("=", 1) for p in o.split(" ") if "=" in p)
                    ex.append({"source": (c.get("source") or c.get("path"))[:300], "run_text": unhex(f["rt0"])[:200]})
            chk.count("e2e-dialect:" + (c.get("dialect") or o.split(" ")[0]))
            for feat in c.get("features", []):
                chk.count("feature:" + feat)
            if bad and "sigil" in tags and any(s_ in NONDET_SIGS for s_, _ in bad):
                bad = nondeterminism(l, bad)
            for sig, detail in bad:
                chk.fail("oracle", sig, case_of(c), detail)
            if not bad and c["origin"] == "generated":
                chk.sample({"dialect": c["dialect"], "sp": c["sp"], "source": c["source"][:400], "record": o[:300]}, limit=4)
    finally:
        shutil.rmtree(root, ignore_errors=True)


def case_of(c):
    return {k: c[k] for k in ("origin", "dialect", "include", "source", "sp", "args", "path") if k in c}


# ------------------------------------------------------------------------------------------

def run(chk):
    rng = chk.rng
    quick = chk.tier == "quick"
    chk.cov["rule"] = ("tie: every (site, dialect of the table + classic, -O flag, search path) combination, "
                       "get_optimizer on steppings 15..31 and outliers, detect_modern on generated program-shaped values; "
                       "end to end: generated programs stratified by dialect x include-file x search-path order, one-defect "
                       "mutants, shipped programs; distinct = distinct (source, search path); all non-trivial")
    # replay: only the recorded end-to-end case(s)
    if chk.replay_cases:
        lib.std_obligations(chk)
        ok, out = lib.build_harness()
        if not ok:
            chk.fail("proof", "harness-build", {}, out[-1500:])
            return
        rc = chk.replay_cases
        cs = [rc["case"]] + [m["case"] for m in rc.get("more", [])] if rc.get("kind") == "failing-input" else []
        end_to_end(chk, [c for c in cs if "sp" in c])
        return

    # 1. translator
    extracted = None
    try:
        extracted = translate_c11.translate(lib.REPO, GEN_PATH)
        chk.count("translator:ok")
    except ExtractError as e:
        chk.fail("translator", "translator:c11-shape", {"file": "tools/translate_c11.py"},
                 f"the option-derivation code no longer has a shape the extractor reads: {e}")
    # 2. theorems over the regenerated derivations
    ok = lib.std_obligations(chk)
    if not ok:
        lib.lake_build(["modeld"])
    hok, hout = lib.build_harness()
    if not hok:
        chk.fail("proof", "harness-build", {}, hout[-1500:])
        return
    # 3. tie
    tl = tie_lines(extracted)
    for l in tl:
        chk.note_case(l)
    mo = lib.run_model("entry", tl)
    io = lib.run_impl("entry", tl)
    nbad = 0
    for l, a, b in zip(tl, mo, io):
        a2 = norm_model_line(l, a)
        if a2 != b:
            nbad += 1
            if nbad <= 8:
                chk.fail("correspondence", "tie:" + l.split()[0] + (":" + l.split()[1] if l[0] == "o" else ""),
                         {"sub": "entry", "line": l}, {"model(translator)": a[:300], "runtime": b[:300]})
        if l[0] == "o" and (b.startswith("unidentified") or "error" in b):
            chk.fail("correspondence", "tie:unidentified", {"sub": "entry", "line": l}, {"runtime": b[:300]})
    chk.count("tie:lines", len(tl))
    chk.count("tie:disagreements", nbad)
    chk.cov["traces_validated_against_impl"] = len(tl) - nbad
    chk.sample({"line": tl[60], "model": mo[60] if len(mo) > 60 else None, "runtime": io[60] if len(io) > 60 else None})
    dl = detect_lines(rng, extracted, 1500 if quick else 40000)
    for l in dl:
        chk.note_case(l)
    dmo, dio = lib.correspond(chk, "entry", dl, label="detect")
    for o in dio:
        chk.count("detect:" + ("classic" if o.startswith("-") else "sigil"))

    text_verdict_selftest(chk)

    # 4. end to end; widened when an obligation or the tie is broken (search for a failing input)
    broken = bool(chk.failures)
    if quick and not broken:
        cases = generated_cases(rng, 3, 3) + shipped_cases(rng, 20, 5000)
    elif quick:
        cases = generated_cases(rng, 12, 3) + shipped_cases(rng, 60, 12000)
    else:
        cases = generated_cases(rng, 30, 4) + shipped_cases(rng, None, 200000)
    end_to_end(chk, cases)
    chk.cov["widened_search"] = broken
    chk.cov["exhaustive"] = False
    chk.cov["modelled_not_verified"] = [
        "that the compiler proper (compile_file, the classic stage-2 compiler) is a function of the derived options and the "
        "source only is C05's subject; the theorems take the compiler as an arbitrary function of the pipeline",
        "print -> re-assemble round trip of the text `run` prints is C09's subject (explicit hypothesis of cli_text_is_lib_bytes); "
        "the end-to-end oracle re-assembles the real text",
        "argument parsing of `run` / `cldb` (flags -> parsed_args keys) is exercised only end to end",
        "cldb's compiled program is observed through its execution trace compared with the trace of the program compile_modern "
        "emitted (operator sequence, row count and ending always; argument / value skeletons when the debugger's printing "
        "allows it), and in-process through compile_modern (full program identity; `run`'s text equal to the printed result, or "
        "both texts reading back to one CLVM when the compiler left a differently spelled but equal atom in its result)",
    ]
    chk.assumptions.append("every entry point is started with the fresh-name counter at 0 (history dependence is C05)")
