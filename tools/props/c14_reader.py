"""Reader part of C14 (front ends never crash) — a helper for the C14 check, not a check of
its own.  Call `run_reader_part(chk)` (and optionally `run_compile_part(chk)`) from
tools/props/c14.py.

Theorem side (already audited by the C15 obligations, restate/import in Props/C14.lean):
  C15.reader_result_or_located_error : for every text the modelled reader returns forms or
      an error whose location is a byte range of the text (totality is by construction: one
      total step per byte, `feed` is a structural fold);
  C15.err_loc_in_bounds              : the same location as byte offsets on tab-free texts.

Harness side: malformed streams (token soup, truncations at every offset, single-token
deletions / duplications / swaps, random bytes, nesting up to 200) through `cvh reader`
(whole parse AND byte-at-a-time push/finalize) and `modeld reader`; the model predicts
ok/err(+location+message) and the implementation must match; `panic`, an abort or a timeout
is a disagreement and, directly, a property failure.
"""
import lib
from props import c15

CRASH = ("panic", "timeout", "missing")


def is_crash(o):
    return o in CRASH or o.startswith("abort")


def malformed_texts(rng, quick):
    texts = []
    for _ in range(6000 if quick else 120000):
        n = rng.randrange(1, 16)
        texts.append((b"".join(rng.choice(c15.SOUP) for _ in range(n)), "soup"))
    for _ in range(1500 if quick else 30000):
        texts.append((bytes(rng.randrange(256) for _ in range(rng.randrange(1, 40))), "random-bytes"))
    progs = [c15.gen_program(rng, depth=rng.choice([2, 3, 4]))[0] for _ in range(300 if quick else 4000)]
    for t in progs[: (60 if quick else 600)]:
        for k in range(len(t) + 1):
            texts.append((t[:k], "truncation"))
    for t in progs:
        for m in c15.mutations(rng, t, 4):
            texts.append((m, "mutation"))
    ship = [open(f, "rb").read() for f in c15.shipped_sources()]
    for b in ship:
        for m in c15.mutations(rng, b, 2 if quick else 10):
            texts.append((m, "mutation-shipped"))
        for _ in range(3 if quick else 30):
            texts.append((b[:rng.randrange(len(b) + 1)], "truncation-shipped"))
    for d in (1, 2, 10, 50, 100, 150, 200):
        for inner in (b"a", b"", b"\"s", b"#", b". b", b"a . "):
            texts.append((b"(" * d + inner, "nesting"))
            texts.append((b"(" * d + inner + b")" * d, "nesting"))
            texts.append((b"(" * d + inner + b")" * (d + 1), "nesting"))
            texts.append((b"#(" * d + inner + b")" * d, "nesting"))
            texts.append((b"(a . " * d + inner + b")" * d, "nesting"))
    return texts


def run_reader_part(chk, sig_prefix="crash:reader"):
    """model predicts, implementation must match; crashes are oracle failures."""
    rng = chk.rng
    quick = chk.tier == "quick"
    ok, out = lib.build_harness()
    if not ok:
        chk.fail("proof", "harness-build", {}, out[-1500:])
        return
    texts = malformed_texts(rng, quick)
    lines = []
    for t, cls in texts:
        h = c15.hexarg(t)
        lines.append("w " + h)
        lines.append("s " + h)
        chk.count("reader-class:" + cls, 2)
    for l in lines:
        chk.note_case(l)
    mo, io = lib.correspond(chk, "reader", lines, label="c14-reader", timeout=1200,
                            sig=lambda l, a, b: (sig_prefix + ":" + b.split()[0]) if is_crash(b) else "corr:c14-reader")
    for (t, cls), l, o in zip([x for x in texts for _ in (0, 1)], lines, io):
        case = {"sub": "reader", "line": l, "class": cls}
        if is_crash(o):
            chk.fail("oracle", sig_prefix + ":" + o.split()[0], case, o)
            continue
        d = c15.dec_result(o)
        chk.count("reader-outcome:" + d[0])
        if d[0] == "err":
            c15.Oracle(chk, t, case).error_loc(d[2])
        elif d[0] == "other":
            chk.fail("oracle", sig_prefix + ":bad-output", case, o[:200])
    chk.sample({"line": lines[0][:160], "meaning": "w <hex text>: parse_sexp; s: push per byte + finalize"})


def run_compile_part(chk, sig_prefix="crash:compile"):
    """exploration (no model): erroneous programs of C15's compiler-error stream through
    `compile_file`; a panic/abort/timeout is a property failure of C14."""
    import os
    import shutil
    import tempfile
    rng = chk.rng
    quick = chk.tier == "quick"
    tmp = tempfile.mkdtemp(prefix="c14inc")
    try:
        for n, b in c15.INCLUDE_FILES.items():
            open(os.path.join(tmp, n), "wb").write(b)
        open(os.path.join(tmp, "empty.clinc"), "wb").write(b"")
        progs = []
        for sig in c15.SIGILS:
            for helpers, body in c15.BAD_BODIES + [("(include empty.clinc)", "X")]:
                for r in range(1 if quick else 6):
                    src = f"(mod (X) (include {sig}) {helpers} {body})"
                    progs.append(c15.relayout(rng, src) if r else src.encode())
        lines = ["e " + c15.hexarg(p) for p in progs]
        res = lib.run_impl("cerr", lines, args=[tmp], timeout=900)
        for p, l, o in zip(progs, lines, res):
            chk.note_case(l)
            chk.count("compile-outcome:" + o.split()[0])
            if is_crash(o):
                chk.fail("oracle", sig_prefix + ":" + o.split()[0], {"sub": "cerr", "line": l, "src": p.decode("latin-1")[:200]}, o)
    finally:
        shutil.rmtree(tmp, ignore_errors=True)
