"""Generators of rich values (compiler::sexp::SExp without locations) for the C02 pass
correspondence: exhaustive small trees, an exhaustive expression grammar over the shapes the
passes match on, random larger trees.  Rich values are python tuples
('N',) | ('I', int) | ('Q', quote byte, bytes) | ('A', bytes) | ('C', car, cdr)
and travel in the text encoding of harness/src/rich.rs / Drv/RichIO.lean."""

N = ("N",)


def I(n):
    return ("I", n)


def A(b):
    return ("A", bytes(b))


def Q(b, q=0x78):
    return ("Q", q, bytes(b))


def C(a, d):
    return ("C", a, d)


def L(*items, tail=N):
    r = tail
    for x in reversed(items):
        r = ("C", x, r)
    return r


def enc(r):
    out = []
    stack = [r]
    while stack:
        x = stack.pop()
        k = x[0]
        if k == "N":
            out.append("N")
        elif k == "I":
            out.append(f"I{x[1]};")
        elif k == "Q":
            out.append("Q%02x%s;" % (x[1], x[2].hex()))
        elif k == "A":
            out.append("A" + x[1].hex() + ";")
        else:
            out.append("C")
            stack.append(x[2])
            stack.append(x[1])
    return "".join(out)


def dec(s):
    """inverse of enc (recursive on the car only)."""
    pos = [0]

    def one():
        cells = []
        while True:
            c = s[pos[0]]
            pos[0] += 1
            if c == "C":
                cells.append(one())
                continue
            if c == "N":
                r = N
            else:
                j = s.index(";", pos[0])
                body = s[pos[0]:j]
                pos[0] = j + 1
                if c == "I":
                    r = ("I", int(body))
                elif c == "A":
                    r = ("A", bytes.fromhex(body))
                else:
                    b = bytes.fromhex(body)
                    r = ("Q", b[0], b[1:])
            for a in reversed(cells):
                r = ("C", a, r)
            return r
    return one()


def size(r):
    n = 0
    stack = [r]
    while stack:
        x = stack.pop()
        n += 1
        if x[0] == "C":
            stack.append(x[1])
            stack.append(x[2])
    return n


def show(r):
    """readable rendering (for samples / findings)."""
    k = r[0]
    if k == "N":
        return "()"
    if k == "I":
        return str(r[1])
    if k == "A":
        return "A:" + (r[1].hex() or "''")
    if k == "Q":
        return "Q:" + (r[2].hex() or "''")
    items = []
    while r[0] == "C":
        items.append(show(r[1]))
        r = r[2]
    if r[0] != "N":
        items += [".", show(r)]
    return "(" + " ".join(items) + ")"


# every rich spelling of the small numbers the passes look at
def spellings(n):
    b = bytes([n])
    return [I(n), A(b), Q(b)]


ZEROS = [N, I(0), A(b""), Q(b""), A(b"\x00"), Q(b"\x00"), A(b"\x00\x00")]
ONES = spellings(1)
QNAME = [A(b"q"), I(113), Q(b"q", 0x22)]
PATHS = [I(2), I(3), I(4), I(5), I(6), I(7), I(11), I(128), I(255), I(-1), I(-128), A(b"\x05"), A(b"\x80"), A(b"\x0b")]


def trees(leaves, nodes):
    memo = {}

    def go(n):
        if n in memo:
            return memo[n]
        res = []
        if n == 1:
            res = list(leaves)
        elif n >= 3:
            for k in range(1, n - 1):
                for a in go(k):
                    for d in go(n - 1 - k):
                        res.append(("C", a, d))
        memo[n] = res
        return res
    return go(nodes)


def trees_upto(leaves, nodes):
    out = []
    for n in range(1, nodes + 1):
        out.extend(trees(leaves, n))
    return out


def grammar(leaves, depth, tails=(N,), heads=None, limit=None):
    """all expressions of the given nesting depth over the forms the passes match:
    leaf | (q . E) | (f E) | (r E) | (a E E) | (a E E E) | (i E E E) | (i E E E E) | (c E E) | ((E) E)"""
    hd = heads or {"q": I(1), "a": I(2), "i": I(3), "c": I(4), "f": I(5), "r": I(6)}
    allp = list(leaves)
    for _ in range(depth):
        new = []
        for e in allp:
            new.append(C(hd["q"], e))
            for t in tails:
                new.append(L(hd["f"], e, tail=t))
                new.append(L(hd["r"], e, tail=t))
        for e1 in allp:
            for e2 in allp:
                for t in tails:
                    new.append(L(hd["a"], e1, e2, tail=t))
                new.append(L(hd["c"], e1, e2))
        seen = set(allp)
        for n in new:
            if n not in seen:
                seen.add(n)
                allp.append(n)
        if limit and len(allp) > limit:
            break
    return allp


def rand_leaf(rng):
    r = rng.random()
    if r < 0.25:
        return rng.choice(ZEROS)
    if r < 0.5:
        return rng.choice(ONES + spellings(2) + spellings(3) + spellings(5) + spellings(6))
    if r < 0.6:
        return rng.choice(QNAME)
    if r < 0.85:
        return rng.choice(PATHS)
    if r < 0.9:
        return I(rng.choice([rng.randint(-300, 70000), rng.randint(0, 1 << rng.randint(1, 70))]))
    if r < 0.95:
        return A(bytes(rng.randrange(256) for _ in range(rng.randint(0, 4))))
    return Q(bytes(rng.randrange(256) for _ in range(rng.randint(0, 3))), rng.choice([0x22, 0x27, 0x78]))


def rand_tail(rng):
    r = rng.random()
    if r < 0.88:
        return N
    if r < 0.94:
        return rng.choice(ZEROS)
    return rand_leaf(rng)


def rand_expr(rng, depth, wild=0.06):
    """random expression biased to the shapes the passes rewrite (and to their near misses)."""
    if depth <= 0 or rng.random() < 0.18:
        return rand_leaf(rng)
    r = rng.random()
    sub = lambda: rand_expr(rng, depth - 1, wild)
    sp = lambda n: rng.choice(spellings(n))
    if rng.random() < wild:
        # arbitrary tree
        return C(sub(), sub())
    if r < 0.14:
        return C(sp(1), sub())                                   # (q . X)
    if r < 0.30:
        env = rng.choice(ONES) if rng.random() < 0.6 else sub()
        items = [sp(2), C(sp(1), sub()) if rng.random() < 0.75 else sub(), env]
        if rng.random() < 0.08:
            items.append(sub())
        if rng.random() < 0.05:
            items.pop()
        return L(*items, tail=rand_tail(rng))                    # (a (q . X) 1) and near misses
    if r < 0.40:
        return L(sp(2), C(sp(1), C(sp(1), sub())), sub(), tail=rand_tail(rng))   # (a (q 1 . X) E)
    if r < 0.58:
        c = rng.random()
        if c < 0.35:
            cond = C(sp(1), rng.choice(ZEROS + ONES + [sub()]))
        elif c < 0.6:
            cond = rng.choice(ZEROS + ONES)
        else:
            cond = sub()
        items = [sp(3), cond, sub(), sub()]
        if rng.random() < 0.08:
            items.append(sub())
        return L(*items, tail=rand_tail(rng))                    # (i C A B)
    if r < 0.76:
        e = sub() if rng.random() < 0.5 else rng.choice(PATHS)
        for _ in range(rng.randint(1, 6)):
            e = L(sp(rng.choice([5, 6])), e, tail=rand_tail(rng))
        return e                                                 # f / r chains
    if r < 0.86:
        return L(sp(4), sub(), sub(), tail=rand_tail(rng))       # (c A B)
    if r < 0.92:
        return L(rng.choice(QNAME + ONES), tail=rand_tail(rng))  # (q) / ("q")
    if r < 0.96:
        return L(I(rng.choice([7, 9, 10, 11, 16, 17, 18, 20, 21, 23, 24, 32, 33])), *[sub() for _ in range(rng.randint(0, 3))],
                 tail=rand_tail(rng))
    return C(L(sp(rng.choice([1, 2, 4, 5]))), L(sub(), sub()))   # pair-headed ((op) A B)


def to_clvm_bytes_mode(r, mode):
    """toClvm as python value (bytes | (a, d)) for sizing environments; mirrors convert_to_clvm_rs."""
    k = r[0]
    if k == "N":
        return b""
    if k == "A":
        return r[1]
    if k == "Q":
        return r[2]
    if k == "I":
        n = r[1]
        if n == 0:
            return b"" if mode else b"\x00"
        ln = (n.bit_length() + 8) // 8 if n > 0 else ((-n - 1).bit_length() + 8) // 8
        return n.to_bytes(ln, "big", signed=True)
    return (to_clvm_bytes_mode(r[1], mode), to_clvm_bytes_mode(r[2], mode))
