#!/usr/bin/env python3
"""tools/seeded_table.py — print the markdown table of DESIGN.md §10 from seeded/*/meta.json"""
import glob
import json
import os

ROOT = os.path.dirname(os.path.dirname(os.path.abspath(__file__)))


def main():
    rows = []
    for mp in sorted(glob.glob(os.path.join(ROOT, "seeded", "*", "meta.json"))):
        m = json.load(open(mp))
        sid = m.get("seed_id", os.path.basename(os.path.dirname(mp)))
        res = m.get("confirmed", {}).get("results", {})
        checks = res.get("checks", {})
        caught = [k for k, v in checks.items() if v.get("caught")]
        missed = [k for k, v in checks.items() if not v.get("caught")]
        later = m.get("caught_after_strengthening", [])
        files = ", ".join(os.path.basename(f) for f in m.get("files", []))[:60]
        summ = (m.get("summary") or "").replace("|", "/").replace("\n", " ")[:170]
        rows.append(f"| {sid} | {m.get('property', '')} | {files} | {summ} | {', '.join(caught) or '—'} | "
                    f"{', '.join(missed) or '—'} | {', '.join(later) or ''} |")
    print("| seed | property | file(s) | change | caught by (quick) | ran, not caught | caught after strengthening |")
    print("|---|---|---|---|---|---|---|")
    print("\n".join(rows))


if __name__ == "__main__":
    main()
