"""C05, counter clause: the real compiler after ARGNAME_CTR.store(k) vs `Core2.compileCore2With k` (Lean).

For every generated core2 program (the generator strata C01 uses for Layer B2) and several start values k:
  * oracle (implementation alone): the emitted bytes and the number of names drawn are the same for every k;
  * correspondence: the names `rename` produced (parameters, let bindings, variable references, in source
    order — `cvh fresh` walks the frontend's output) are the names `Core2.renameProgWith` produces, and the
    model's bytes are the real bytes, for the same k.
The names drawn before the first user helper is renamed (prelude macros, macro expansions) are not modelled:
the model is started at k + D - drawsProg, D = the real total.
"""
import compilers
import gen
import lib

KS_FIXED = [0, 9, 99, 4294967295]
SIGILS = {"cl21": "*standard-cl-21*", "strict21": "*strict-cl-21*"}


def _toks(fields):
    return " ".join(fields)


def order_templates(d):
    """hand-shaped programs, one per decision about the ORDER in which `rename` draws names: binding names
    before binding expressions before the let body; binding expressions left to right; if: condition, then,
    else; call and operator arguments left to right; parameters before the body; helpers before main."""
    import progen

    def S(x):
        return ("sym", x)

    def L(*xs):
        return ("list", list(xs), None)

    def I(i):
        return ("int", i)

    def let(kw, binds, body):
        return L(S(kw), L(*[L(S(nm), e) for nm, e in binds]), body)
    inner = lambda nm, v: let("let", [(nm, I(v))], S(nm))  # noqa: E731
    bodies = [
        let("let", [("A", inner("B", 1))], let("let", [("C", I(2))], L(S("+"), S("A"), S("C")))),
        let("let", [("A", inner("B", 1)), ("D", inner("E", 3))], let("let", [("C", S("D"))], L(S("+"), S("A"), S("C")))),
        let("let*", [("A", inner("B", 1)), ("D", inner("A", 3))], let("let*", [("A", S("D")), ("C", S("A"))], L(S("+"), S("A"), S("C")))),
        L(S("if"), inner("A", 1), inner("B", 2), inner("C", 3)),
        L(S("+"), inner("A", 1), L(S("if"), S("X"), inner("B", 2), inner("A", 4)), inner("C", 3)),
        L(S("hf"), inner("A", 1), inner("B", 2)),
        L(S("hi"), inner("A", 1), L(S("hf"), inner("B", 2), S("X"))),
    ]
    out = []
    for b in bodies:
        tree = L(S("mod"), L(S("X")), L(S("include"), S(SIGILS[d])),
                 L(S("defun"), S("hf"), L(S("P"), L(S("Q"), S("R"))), let("let", [("Q", L(S("+"), S("P"), S("R")))], let("let", [("P", inner("R", 7))], L(S("+"), S("P"), S("Q"))))),
                 L(S("defun-inline"), S("hi"), L(S("P"), S("Q")), L(S("if"), S("P"), let("let", [("Q", inner("P", 5))], S("Q")), S("Q"))),
                 b)
        out.append({"text": progen.text(tree), "rich": progen.rich(tree)})
    return out


def fresh_tie(chk, rng, n, dialects=("cl21", "strict21")):
    for d in dialects:
        for label, feats in (("fresh-lets", compilers.CORE2_DENSE), ("fresh-inlines", compilers.CORE2_INLINES), ("fresh-order", None)):
            progs = compilers.gen_programs(rng, d, n, nargs=1, features=feats) if feats is not None else order_templates(d)
            pre = lib.run_model("fresh", ["0 0 " + p["rich"] for p in progs], per_job=20)
            sel = [i for i, a in enumerate(pre) if a.startswith("nocompile") or (a.startswith("K ") and len(a) <= compilers.CORE2_MAX_LINE)]
            for i, a in enumerate(pre):
                chk.count(f"{label}:{d}:model-{(a.split() or ['none'])[0]}")
            ks = KS_FIXED[:2] + [rng.randrange(1 << 20), rng.randrange(1 << 40)]
            ilines, idx = [], []
            for i in sel:
                for k in ks:
                    ilines.append(f"{k} {progs[i]['text'].encode().hex()}")
                    idx.append((i, k))
            io = lib.run_impl("fresh", ilines, per_job=8, timeout=120)
            by = {}
            for (i, k), o in zip(idx, io):
                by.setdefault(i, []).append((k, o))
            mlines, midx = [], []
            for i, outs in by.items():
                p = progs[i]
                case = {"dialect": d, "program": p["text"]}
                fs = [(k, o.split()) for k, o in outs]
                heads = {f[0] if f else "none" for _, f in fs}
                chk.note_case((label, d, p["text"]), True)
                if heads != {"K"}:
                    chk.count(f"{label}:{d}:impl-{'/'.join(sorted(heads))}")
                    if len(heads) > 1:
                        chk.fail("oracle", "purity:fresh-outcome-ctr", dict(case, counters=[k for k, _ in fs]),
                                 f"the compile outcome depends on the counter start value: {[(k, f[:1]) for k, f in fs]}")
                    elif pre[i].startswith("K "):
                        chk.fail("correspondence", "corr:fresh-impl-rejects", case, outs[0][1][:200])
                    continue
                # oracle: bytes and number of draws independent of k
                b0, d0 = fs[0][1][1], fs[0][1][2]
                for k, f in fs[1:]:
                    if f[1] != b0:
                        chk.count(f"{label}:{d}:IMPL-BYTES-DEPEND-ON-CTR")
                        chk.fail("oracle", "purity:fresh-bytes-ctr", dict(case, counters=[fs[0][0], k]),
                                 {"bytes_a": b0[:300], "bytes_b": f[1][:300]})
                    if f[2] != d0:
                        chk.fail("oracle", "purity:fresh-draws-ctr", dict(case, counters=[fs[0][0], k]),
                                 f"number of names drawn by the frontend differs: {d0} vs {f[2]}")
                chk.count(f"{label}:{d}:impl-bytes-equal-across-{len(fs)}-counters")
                for k, f in fs:
                    mlines.append(f"{k} {f[2]} {p['rich']}")
                    midx.append((i, k, f))
            mo = lib.run_model("fresh", mlines, per_job=20)
            for (i, k, f), m in zip(midx, mo):
                p = progs[i]
                case = {"dialect": d, "program": p["text"], "counter": k}
                mf = m.split()
                if not mf or mf[0] != "K":
                    chk.count(f"{label}:{d}:model-{mf[0] if mf else 'none'}-impl-K")
                    chk.fail("correspondence", "corr:fresh-model-rejects", case, m[:200])
                    continue
                chk.count(f"{label}:prelude-draws:{d}:{(int(f[2]) - int(mf[2])) // 50 * 50}+", 1)
                chk.count(f"{label}:user-draws:{min(int(mf[2]) // 5 * 5, 40)}+")
                if mf[3:] != f[3:]:
                    chk.count(f"{label}:{d}:NAMES-DIFFER")
                    j = next((x for x, (a, b) in enumerate(zip(mf[3:], f[3:])) if a != b), min(len(mf), len(f)) - 3)
                    chk.fail("correspondence", "corr:fresh-names", case,
                             {"first_difference_at": j, "model": _toks(mf[3 + j:8 + j]), "impl": _toks(f[3 + j:8 + j])})
                else:
                    chk.count(f"{label}:{d}:names-equal")
                    chk.count(f"{label}:names-compared", len(f) - 3)
                if mf[1] != f[1]:
                    chk.count(f"{label}:{d}:BYTES-DIFFER")
                    chk.fail("correspondence", "corr:fresh-bytes", case, {"model": mf[1][:300], "impl": f[1][:300]})
                else:
                    chk.count(f"{label}:{d}:bytes-equal")
            if midx:
                i, k, f = midx[-1]
                chk.sample({"fresh_program": progs[i]["text"][:300], "counter": k, "impl": " ".join(f[2:12])})




def fresh_looking_probe(chk, rng, dialects=("cl21", "strict21")):
    """User names that look like generated names: `(let ((A_$_<n> X)) (let ((A 5)) A))` where n is the
    counter value the inner A is given.  `rename` applies the outer renaming to the already renamed body,
    so the inner reference is captured: the bytes depend on the counter (finding C05-fresh-name-capture).
    The model mirrors this (`fresh_looking_user_name_breaks_independence`)."""
    import progen

    def S(x):
        return ("sym", x)

    def L(*xs):
        return ("list", list(xs), None)
    for d in dialects:
        for base, kw in ((b"A", "let"), (b"Vx", "let"), (b"A", "let*")):
            nm = base.decode()

            def tree(n):
                return L(S("mod"), L(S("X")), L(S("include"), S(SIGILS[d])),
                         L(S(kw), L(L(S(f"{nm}_$_{n}"), S("X"))), L(S(kw), L(L(S(nm), ("int", 5))), S(nm))))

            def prog(n):
                return progen.text(tree(n))
            o = lib.run_impl("fresh", ["0 " + prog(1).encode().hex()])[0].split()
            if not o or o[0] != "K":
                chk.count(f"fresh-looking:{d}:impl-{o[0] if o else 'none'}")
                continue
            total = int(o[2])
            k0 = rng.randrange(0, 50)
            src = prog(k0 + total)
            ks = [k0, k0 + 1, k0 + 1000]
            outs = [x.split() for x in lib.run_impl("fresh", [f"{k} {src.encode().hex()}" for k in ks])]
            chk.note_case(("fresh-looking", d, src), True)
            if any((not f) or f[0] != "K" for f in outs):
                chk.count(f"fresh-looking:{d}:impl-not-K")
                continue
            rich = progen.rich(tree(k0 + total))
            if outs[0][1] != outs[1][1] or outs[0][1] != outs[2][1]:
                chk.count(f"fresh-looking:{d}:bytes-depend-on-counter")
                chk.fail("oracle", "purity:fresh-looking-user-name", {"dialect": d, "program": src, "counters": ks},
                         {"bytes": [f[1] for f in outs], "names": [" ".join(f[3:]) for f in outs]})
            else:
                chk.count(f"fresh-looking:{d}:bytes-equal")
            if True:
                mo = lib.run_model("fresh", [f"{k} {f[2]} {rich}" for k, f in zip(ks, outs)])
                for k, f, m in zip(ks, outs, mo):
                    mf = m.split()
                    if mf[:2] != f[:2] or mf[3:] != f[3:]:
                        chk.fail("correspondence", "corr:fresh-looking", {"dialect": d, "program": src, "counter": k},
                                 {"model": m[:300], "impl": " ".join(f)[:300]})
                    else:
                        chk.count(f"fresh-looking:{d}:model-agrees")
