#!/bin/sh
# tools/mkwork.sh <name>: private working copy of /verif for one builder (never edits /verif itself)
set -e
d=/tmp/work_$1
rm -rf "$d"
mkdir -p "$d"
cd /verif
tar cf - --exclude=.git . | (cd "$d" && tar xf -)
echo "$d"
