#!/usr/bin/env python3
"""tools/mergehelp.py <work-dir> <ID> — merge a builder's DESIGN.md §4 section and new known findings into /verif
(sections are '### <ID> —' … up to the next '### ' heading; findings are merged by id)."""
import json
import re
import sys

w, pid = sys.argv[1], sys.argv[2]


def section(text, pid):
    m = re.search(r"^### %s\b.*?(?=^### |^## )" % re.escape(pid), text, re.S | re.M)
    return m


src = open(f"{w}/DESIGN.md").read()
dst = open("/verif/DESIGN.md").read()
a, b = section(src, pid), section(dst, pid)
if a and b and a.group(0) != b.group(0):
    dst = dst[:b.start()] + a.group(0) + dst[b.end():]
    open("/verif/DESIGN.md", "w").write(dst)
    print("DESIGN section", pid, "replaced")
elif a and not b:
    print("DESIGN: section missing in /verif; not merged")
kf_w = json.load(open(f"{w}/known_findings.json"))
kf = json.load(open("/verif/known_findings.json"))
ids = {e["id"]: i for i, e in enumerate(kf["findings"])}
for e in kf_w["findings"]:
    if e["id"] not in ids:
        kf["findings"].append(e)
        print("finding added:", e["id"])
    elif kf["findings"][ids[e["id"]]] != e:
        print("finding differs (kept /verif's unless listed next):", e["id"])
json.dump(kf, open("/verif/known_findings.json", "w"), indent=1)
