"""Small, purpose-built helpers for reading Rust source text (no general parser):
comment stripping, bracket matching, function bodies, call arguments, method chains.
Every helper raises ExtractError when the text does not have the expected shape; the
translators turn that into a broken proof obligation (never into a silent pass)."""
import re


class ExtractError(Exception):
    pass


def blank_comments(src):
    """replace // and /* */ comments by spaces (newlines kept, so offsets/lines are stable).
    String / char literals are left intact."""
    out = []
    i, n = 0, len(src)
    while i < n:
        c = src[i]
        if src.startswith("//", i):
            while i < n and src[i] != "\n":
                out.append(" ")
                i += 1
        elif src.startswith("/*", i):
            depth = 0
            while i < n:
                if src.startswith("/*", i):
                    depth += 1
                    out.append("  ")
                    i += 2
                elif src.startswith("*/", i):
                    depth -= 1
                    out.append("  ")
                    i += 2
                    if depth == 0:
                        break
                else:
                    out.append("\n" if src[i] == "\n" else " ")
                    i += 1
        elif c == '"':
            j = skip_string(src, i)
            out.append(src[i:j])
            i = j
        elif c == "r" and re.match(r'r#*"', src[i:i + 8]) and (i == 0 or not (src[i - 1].isalnum() or src[i - 1] == "_")):
            j = skip_raw_string(src, i)
            out.append(src[i:j])
            i = j
        elif c == "'":
            j = skip_char(src, i)
            out.append(src[i:j])
            i = j
        else:
            out.append(c)
            i += 1
    return "".join(out)


def skip_string(src, i):
    """src[i] == '"' -> index just after the closing quote"""
    j = i + 1
    n = len(src)
    while j < n and src[j] != '"':
        j += 2 if src[j] == "\\" else 1
    return min(j + 1, n)


def skip_raw_string(src, i):
    m = re.match(r'r(#*)"', src[i:])
    closer = '"' + m.group(1)
    j = src.find(closer, i + len(m.group(0)))
    return len(src) if j < 0 else j + len(closer)


def skip_char(src, i):
    """src[i] == "'": a char literal ('a', '\\n', '\\'') or a lifetime ('a). returns index after it"""
    m = re.match(r"'(\\.[^']*|[^'\\])'", src[i:])
    if m:
        return i + len(m.group(0))
    return i + 1      # lifetime tick


OPEN = {"(": ")", "[": "]", "{": "}"}


def match_bracket(src, i):
    """src[i] is an opening bracket -> index of the matching closing bracket"""
    if i >= len(src) or src[i] not in OPEN:
        raise ExtractError(f"no opening bracket at offset {i}")
    stack = []
    n = len(src)
    while i < n:
        c = src[i]
        if c == '"':
            i = skip_string(src, i)
            continue
        if c == "'":
            i = skip_char(src, i)
            continue
        if c == "r" and re.match(r'r#*"', src[i:i + 8]) and not (src[i - 1].isalnum() or src[i - 1] == "_"):
            i = skip_raw_string(src, i)
            continue
        if c in OPEN:
            stack.append(OPEN[c])
        elif c in ")]}":
            if not stack or stack[-1] != c:
                raise ExtractError(f"unbalanced bracket at offset {i}")
            stack.pop()
            if not stack:
                return i
        i += 1
    raise ExtractError("unterminated bracket")


def split_top(s, sep=","):
    """split at top-level separators (outside brackets / strings); empty trailing piece dropped"""
    parts = []
    depth = 0
    i, n, start = 0, len(s), 0
    while i < n:
        c = s[i]
        if c == '"':
            i = skip_string(s, i)
            continue
        if c == "'":
            i = skip_char(s, i)
            continue
        if c in OPEN:
            depth += 1
        elif c in ")]}":
            depth -= 1
        elif depth == 0 and s.startswith(sep, i):
            # do not split `||` when sep == '|' etc.; only ',' and ';' are used
            parts.append(s[start:i])
            start = i + len(sep)
            i += len(sep)
            continue
        i += 1
    last = s[start:]
    if last.strip():
        parts.append(last)
    return [p.strip() for p in parts]


def find_fn(src, name, start=0, end=None):
    """(sig_start, body_open, body_close) of `fn name`; src must be comment-blanked"""
    end = len(src) if end is None else end
    m = re.compile(r"\bfn\s+" + re.escape(name) + r"\b").search(src, start, end)
    if not m:
        raise ExtractError(f"fn {name} not found")
    i = m.end()
    # skip generics / params / return type up to the body's `{` at bracket depth 0
    n = len(src)
    while i < n:
        c = src[i]
        if c in "([":
            i = match_bracket(src, i) + 1
            continue
        if c == "<":
            # generic params: skip to matching '>' (no shifts occur in signatures we read)
            depth = 0
            while i < n:
                if src[i] == "<":
                    depth += 1
                elif src[i] == ">" and src[i - 1] != "-":
                    depth -= 1
                    if depth == 0:
                        break
                i += 1
            i += 1
            continue
        if c == "{":
            return m.start(), i, match_bracket(src, i)
        if c == ";":
            raise ExtractError(f"fn {name} has no body")
        i += 1
    raise ExtractError(f"fn {name}: body not found")


def fn_body(src, name, start=0, end=None):
    _, a, b = find_fn(src, name, start, end)
    return src[a + 1:b]


def find_impl(src, header_re):
    """body text range (open, close) of the first `impl ... {` whose header matches header_re"""
    for m in re.finditer(r"\bimpl\b[^{;]*\{", src):
        if re.search(header_re, m.group(0)):
            o = m.end() - 1
            return o, match_bracket(src, o)
    raise ExtractError(f"impl matching {header_re} not found")


def calls(src, fname):
    """all calls `fname(` in src -> list of (offset, [args])"""
    res = []
    for m in re.finditer(r"(?<![A-Za-z0-9_])" + re.escape(fname) + r"\s*\(", src):
        o = m.end() - 1
        c = match_bracket(src, o)
        res.append((m.start(), split_top(src[o + 1:c])))
    return res


def the_call(src, fname, what=""):
    cs = calls(src, fname)
    if len(cs) != 1:
        raise ExtractError(f"expected exactly one call of {fname} {what}, found {len(cs)}")
    return cs[0][1]


def method_chain(expr):
    """`head.m1(a).m2(b)` -> (head, [(m1, [args]), (m2, [args])]); the head may itself contain
    calls (e.g. `Rc::new(DefaultCompilerOpts::new(x))`)."""
    s = expr.strip()
    i, n = 0, len(s)
    depth_free_dots = []
    # walk to find top-level `.ident(` segments
    segs = []
    head_end = None
    while i < n:
        c = s[i]
        if c == '"':
            i = skip_string(s, i)
            continue
        if c in OPEN:
            i = match_bracket(s, i) + 1
            continue
        if c == ".":
            m = re.match(r"\.\s*([A-Za-z_][A-Za-z0-9_]*)\s*\(", s[i:])
            if m:
                if head_end is None:
                    head_end = i
                o = i + len(m.group(0)) - 1
                cl = match_bracket(s, o)
                segs.append((m.group(1), split_top(s[o + 1:cl])))
                i = cl + 1
                continue
            elif head_end is not None:
                raise ExtractError(f"field access after a method call in chain: {s[i:i + 30]!r}")
        elif not c.isspace() and head_end is not None:
            raise ExtractError(f"unexpected text in method chain: {s[i:i + 30]!r}")
        i += 1
    head = s if head_end is None else s[:head_end]
    return " ".join(head.split()), segs


def statements(body):
    """top-level `;`-separated statements of a block body (comment-blanked)"""
    return split_top(body, ";")


def if_let_blocks(body, pattern_re):
    """find `if let <pattern> = <expr> { then } [else { else }]` at any depth whose header matches
    pattern_re; returns list of (header, then_text, else_text_or_None, start_offset)"""
    res = []
    for m in re.finditer(r"\bif\s+let\s+", body):
        o = body.find("{", m.end())
        # header may contain brackets (calls) but not braces in the shapes we read
        if o < 0:
            continue
        header = body[m.end():o].strip()
        if not re.search(pattern_re, header):
            continue
        c = match_bracket(body, o)
        then = body[o + 1:c]
        els = None
        m2 = re.match(r"\s*else\s*\{", body[c + 1:])
        if m2:
            o2 = c + 1 + len(m2.group(0)) - 1
            c2 = match_bracket(body, o2)
            els = body[o2 + 1:c2]
        res.append((header, then, els, m.start()))
    return res


def squeeze(s):
    return " ".join(s.split())
