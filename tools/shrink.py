#!/usr/bin/env python3
"""Greedy tree shrinking of generated source programs (progen trees)."""


def subtrees(t, path=()):
    yield path, t
    if t[0] == "list":
        for i, x in enumerate(t[1]):
            yield from subtrees(x, path + (i,))
        if t[2] is not None:
            yield from subtrees(t[2], path + ("t",))


def replace(t, path, new):
    if not path:
        return new
    k = path[0]
    if k == "t":
        return ("list", t[1], replace(t[2], path[1:], new))
    items = list(t[1])
    items[k] = replace(items[k], path[1:], new)
    return ("list", items, t[2])


def delete(t, path):
    """delete list element at path"""
    if len(path) == 1:
        items = list(t[1])
        del items[path[0]]
        return ("list", items, t[2])
    k = path[0]
    if k == "t":
        return ("list", t[1], delete(t[2], path[1:]))
    items = list(t[1])
    items[k] = delete(items[k], path[1:])
    return ("list", items, t[2])


def size(t):
    return sum(1 for _ in subtrees(t))


def shrink(tree, still_fails, budget=400):
    """still_fails(tree) -> bool.  Returns a smaller tree that still fails."""
    cur = tree
    improved = True
    while improved and budget > 0:
        improved = False
        cands = []
        for path, sub in subtrees(cur):
            if not path:
                continue
            if sub[0] == "list":
                # replace a form by one of its sub-forms, or by a literal
                for x in sub[1][1:]:
                    cands.append(replace(cur, path, x))
                cands.append(replace(cur, path, ("int", 1)))
                # delete an element of this list
            if path[-1] != "t" and len(path) >= 1:
                cands.append(delete(cur, path))
        cands.sort(key=size)
        for c in cands:
            if size(c) >= size(cur):
                continue
            budget -= 1
            if budget <= 0:
                break
            try:
                if still_fails(c):
                    cur = c
                    improved = True
                    break
            except Exception:
                pass
    return cur
