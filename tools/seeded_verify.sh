#!/bin/sh
# tools/seeded_verify.sh <demo-dir> <name> <ID>...
# Confirms a seeded change (patch.diff + demo.sh in <demo-dir>) in a scratch worktree of /repo's HEAD:
#   demo passes on the clean tree, the patch applies and compiles, the pinned test suite passes with it,
#   the demo fails with it; then runs the listed checks (quick tier) against the patched worktree through a
#   private copy of /verif (so neither /repo nor /verif is touched).  Everything is removed afterwards.
# Output: one summary line per step on stdout; full logs in /var/tmp/sv_<name>.log
demo="$1"; name="$2"; shift 2
wt=/tmp/sv_$name; tgt=/var/tmp/sv_${name}_target; log=/var/tmp/sv_$name.log; sr=/tmp/seedrun_$name
export RUSTUP_TOOLCHAIN=stable-x86_64-unknown-linux-gnu CARGO_NET_OFFLINE=true
: > $log
cleanup() { git -C /repo worktree remove --force $wt >/dev/null 2>&1; rm -rf $wt $tgt $sr; git -C /repo worktree prune; }
cleanup
git -C /repo worktree add --detach $wt HEAD >>$log 2>&1 || { echo "worktree-failed"; exit 2; }
cp -r /repo/target $tgt
if [ -z "$SKIP_DEMO" ]; then
  (cd $demo && CARGO_TARGET_DIR=$tgt sh ./demo.sh $wt) >>$log 2>&1; echo "demo-clean rc=$? (want 0)"
fi
git -C $wt apply $demo/patch.diff >>$log 2>&1 || { echo "patch-does-not-apply"; cleanup; exit 2; }
if [ -z "$SKIP_TESTS" ]; then
  (cd $wt && CARGO_TARGET_DIR=$tgt cargo nextest run --workspace --no-fail-fast --test-threads 8 --offline) >>$log 2>&1
  echo "tests rc=$? $(grep -E '^\s+Summary' $log | tail -1)"
fi
if [ -z "$SKIP_DEMO" ]; then
  (cd $demo && CARGO_TARGET_DIR=$tgt sh ./demo.sh $wt) >>$log 2>&1; echo "demo-patched rc=$? (want non-zero)"
fi
mkdir -p $sr
(cd /verif && tar cf - --exclude=.git --exclude=replays --exclude=seeded . | (cd $sr && tar xf -))
sed -i "s#chialisp = { path = \"/repo\" }#chialisp = { path = \"$wt\" }#" $sr/harness/Cargo.toml
# the chialisp artifact carries no per-path hash: make sure the copy rebuilds it from the worktree
(cd $sr/harness && cargo clean --release -p chialisp --offline >/dev/null 2>&1 || true)
for id in "$@"; do
  out=$(cd $sr && VERIF_REPO=$wt ./check $id quick 2>&1); rc=$?
  echo "check $id rc=$rc $(echo "$out" | grep -v '^KNOWN-FINDING' | grep -E 'VIOLATION|quick:' | tr '\n' ' ' | cut -c1-400)"
  echo "==== check $id" >>$log; echo "$out" >>$log
  for f in $(echo "$out" | sed -n 's/.*replay=\(replays[^ ]*\).*/\1/p'); do cp $sr/$f /var/tmp/sv_${name}_$(basename $f) 2>/dev/null; done
done
cleanup
