#!/usr/bin/env python3
"""tools/mergekf.py <base-commit> <work-dir>... : JSON-aware merge of builders' known_findings.json into /verif's
(an entry a builder added or changed relative to <base-commit> replaces / is appended to the current one)."""
import json
import subprocess
import sys

base = json.loads(subprocess.run(["git", "-C", "/verif", "show", sys.argv[1] + ":known_findings.json"], capture_output=True, text=True).stdout)
cur = json.load(open("/verif/known_findings.json"))
bid = {e["id"]: e for e in base["findings"]}
for w in sys.argv[2:]:
    other = json.load(open(w + "/known_findings.json"))
    for e in other["findings"]:
        if e["id"] not in bid or bid[e["id"]] != e:
            idx = [i for i, c in enumerate(cur["findings"]) if c["id"] == e["id"]]
            if idx:
                cur["findings"][idx[0]] = e
                print("replaced", e["id"])
            else:
                cur["findings"].append(e)
                print("added", e["id"])
json.dump(cur, open("/verif/known_findings.json", "w"), indent=1, ensure_ascii=True)
