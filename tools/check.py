#!/usr/bin/env python3
"""Entry point: ./check <ID> quick|thorough [--replay file]"""
import importlib
import json
import os
import sys
import traceback

sys.path.insert(0, os.path.dirname(os.path.abspath(__file__)))
import lib  # noqa: E402


def main():
    if len(sys.argv) < 2:
        print("usage: check <ID> [quick|thorough] [--replay file]")
        return 2
    pid = sys.argv[1].upper()
    tier = os.environ.get("VERIF_TIER", "quick")
    replay = None
    args = sys.argv[2:]
    i = 0
    while i < len(args):
        if args[i] in ("quick", "thorough"):
            tier = args[i]
        elif args[i] == "--replay":
            replay = args[i + 1]
            i += 1
        i += 1
    seed = int(os.environ.get("VERIF_SEED", "20260923"))
    try:
        mod = importlib.import_module(f"props.{pid.lower()}")
    except ModuleNotFoundError:
        print(f"no check for {pid}")
        return 2
    chk = lib.Check(pid, tier, seed, level=getattr(mod, "LEVEL", "proof"))
    if replay:
        chk.replay_cases = json.load(open(replay))
    try:
        mod.run(chk)
    except Exception:
        traceback.print_exc()
        chk.fail("proof", "check-crashed", {}, traceback.format_exc()[-800:])
    return chk.finish()


if __name__ == "__main__":
    sys.exit(main())
