#!/usr/bin/env python3
"""Shared machinery of the /verif checks: building the Lean model and the Rust harness,
auditing proof obligations, running model and implementation on the same cases, verdicts,
known findings, evidence files.  Standard library only."""
import hashlib
import json
import os
import random
import re
import subprocess
import sys
import time
from concurrent.futures import ThreadPoolExecutor

ROOT = os.path.dirname(os.path.dirname(os.path.abspath(__file__)))
LEAN = os.path.join(ROOT, "lean")
HARNESS = os.path.join(ROOT, "harness")
REPO = os.environ.get("VERIF_REPO", "/repo")
MODELD = os.path.join(LEAN, ".lake", "build", "bin", "modeld")
CVH = os.path.join(HARNESS, "target", "release", "cvh")
NCPU = max(1, min(16, os.cpu_count() or 1))
ALLOWED_AXIOMS = {"propext", "Classical.choice", "Quot.sound"}
FORBIDDEN = re.compile(r"\b(sorry|admit|native_decide|bv_decide|implemented_by)\b|^\s*axiom\s|\bunsafe\s|maxHeartbeats\s+0\b")

CARGO_ENV = dict(os.environ)
CARGO_ENV.update({
    "RUSTUP_TOOLCHAIN": "stable-x86_64-unknown-linux-gnu",
    "CARGO_NET_OFFLINE": "true",
})


def sh(cmd, cwd=None, env=None, inp=None, timeout=None):
    p = subprocess.run(cmd, cwd=cwd, env=env, input=inp, stdout=subprocess.PIPE,
                       stderr=subprocess.STDOUT, text=True, timeout=timeout)
    return p.returncode, p.stdout


# ----------------------------------------------------------------------------------------
# Lean side
# ----------------------------------------------------------------------------------------

def lake_build(targets, timeout=3000):
    rc, out = sh(["lake", "build"] + list(targets), cwd=LEAN, timeout=timeout)
    return rc == 0, out


def strip_comments(src):
    # remove /- ... -/ (nested) and -- comments, and string literals
    out = []
    i, depth, n = 0, 0, len(src)
    while i < n:
        if src.startswith("/-", i):
            depth += 1
            i += 2
        elif depth and src.startswith("-/", i):
            depth -= 1
            i += 2
        elif depth:
            if src[i] == "\n":
                out.append("\n")
            i += 1
        elif src.startswith("--", i):
            while i < n and src[i] != "\n":
                i += 1
        elif src[i] == '"':
            i += 1
            while i < n and src[i] != '"':
                i += 2 if src[i] == "\\" else 1
            i += 1
            out.append('""')
        else:
            out.append(src[i])
            i += 1
    return "".join(out)


def module_path(mod):
    return os.path.join(LEAN, *mod.split(".")) + ".lean"


def transitive_imports(mod, seen=None):
    seen = seen if seen is not None else set()
    if mod in seen or not mod.startswith("ChialispModel"):
        return seen
    p = module_path(mod)
    if not os.path.exists(p):
        return seen
    seen.add(mod)
    for m in re.findall(r"^\s*(?:public\s+)?import\s+(\S+)", open(p).read(), re.M):
        transitive_imports(m, seen)
    return seen


def grep_forbidden(mods):
    hits = []
    for m in sorted(mods):
        src = strip_comments(open(module_path(m)).read())
        for ln, line in enumerate(src.split("\n"), 1):
            if FORBIDDEN.search(line):
                hits.append(f"{m}:{ln}: {line.strip()[:120]}")
    return hits


def theorem_names(mod):
    """(namespace-qualified) names of the theorems declared in a Props module."""
    src = strip_comments(open(module_path(mod)).read())
    names = []
    ns = []
    for line in src.split("\n"):
        m = re.match(r"\s*namespace\s+(\S+)", line)
        if m:
            ns.append(m.group(1))
            continue
        m = re.match(r"\s*end\s+(\S+)", line)
        if m and ns and ns[-1] == m.group(1):
            ns.pop()
            continue
        m = re.match(r"\s*(?:protected\s+|private\s+)?theorem\s+([^\s:({\[]+)", line)
        if m:
            names.append(".".join(ns + [m.group(1)]))
    return names


def audit_axioms(mod, names):
    """run `#print axioms` on every theorem; returns {name: [axioms]} and raw output."""
    os.makedirs(os.path.join(LEAN, ".audit"), exist_ok=True)
    f = os.path.join(LEAN, ".audit", mod.replace(".", "_") + ".lean")
    with open(f, "w") as fh:
        fh.write(f"import {mod}\n")
        for n in names:
            fh.write(f"#print axioms {n}\n")
    rc, out = sh(["lake", "env", "lean", f], cwd=LEAN, timeout=1200)
    res = {}
    cur = None
    # output: "'name' depends on axioms: [a, b]" or "'name' does not depend on any axioms"
    for m in re.finditer(r"'([^']+)' (does not depend on any axioms|depends on axioms: \[([^\]]*)\])", out):
        name = m.group(1)
        axs = [] if m.group(3) is None else [a.strip() for a in m.group(3).replace("\n", " ").split(",") if a.strip()]
        res[name] = axs
    return rc, res, out


class Obligations:
    """Proof obligations of one property: the theorems of Props/<ID>.lean."""

    def __init__(self, pid, extra_targets=()):
        self.pid = pid
        self.mod = f"ChialispModel.Props.{pid}"
        self.extra = list(extra_targets)
        self.names = []
        self.discharged = []
        self.failed = []          # (name or module, reason)
        self.axioms = {}
        self.build_log = ""
        self.checker_cmd = (f"cd lean && lake build {self.mod} modeld && "
                            f"lake env lean .audit/{self.mod.replace('.', '_')}.lean  # '#print axioms' per theorem")

    def check(self, leanchecker=False):
        if not os.path.exists(module_path(self.mod)):
            self.failed.append((self.mod, "property module missing"))
            return False
        self.names = theorem_names(self.mod)
        ok, log = lake_build([self.mod, "modeld"] + self.extra)
        self.build_log = log
        if not ok:
            # attribute the failure: which theorems are named in error lines
            bad = set()
            for m in re.finditer(r"error: ([^\n]*)", log):
                bad.add(m.group(1)[:200])
            failing_decl = set(re.findall(r"error:[^\n]*\n(?:[^\n]*\n){0,3}?[^\n]*theorem\s+(\S+)", log))
            self.failed.append((self.mod, "lake build failed: " + "; ".join(sorted(bad))[:1500]))
            for d in failing_decl:
                self.failed.append((d, "does not check"))
            return False
        mods = transitive_imports(self.mod)
        hits = grep_forbidden(mods)
        if hits:
            self.failed.append((self.mod, "forbidden construct: " + "; ".join(hits[:5])))
        rc, res, out = audit_axioms(self.mod, self.names)
        self.axioms = res
        for n in self.names:
            if n not in res:
                self.failed.append((n, "no #print axioms output: " + out[-300:]))
            elif not set(res[n]) <= ALLOWED_AXIOMS:
                self.failed.append((n, "axioms outside the allowed set: " + ",".join(res[n])))
            else:
                self.discharged.append(n)
        if leanchecker and not self.failed:
            rc, out = sh(["lake", "env", "leanchecker", self.mod], cwd=LEAN, timeout=3000)
            if rc != 0:
                self.failed.append((self.mod, "leanchecker: " + out[-500:]))
        return not self.failed

    def axioms_seen(self):
        s = set()
        for v in self.axioms.values():
            s |= set(v)
        return sorted(s)


# ----------------------------------------------------------------------------------------
# Harness side
# ----------------------------------------------------------------------------------------

_harness_built = False


def build_harness():
    global _harness_built
    if _harness_built:
        return True, ""
    lock_src = os.path.join(REPO, "Cargo.lock")
    lock_dst = os.path.join(HARNESS, "Cargo.lock")
    if not os.path.exists(lock_dst):
        import shutil
        shutil.copy(lock_src, lock_dst)
    rc, out = sh(["cargo", "build", "--release", "--offline"], cwd=HARNESS, env=CARGO_ENV, timeout=3000)
    _harness_built = rc == 0
    return rc == 0, out


def _run_chunk(cmd, lines, timeout, cwd=None, env=None):
    if not lines:
        return []
    inp = "\n".join(lines) + "\n"
    try:
        p = subprocess.run(cmd, input=inp, stdout=subprocess.PIPE, stderr=subprocess.PIPE,
                           text=True, timeout=timeout, cwd=cwd, env=env)
        out = p.stdout.split("\n")
        if out and out[-1] == "":
            out.pop()
        if len(out) != len(lines):
            # the process died in the middle (abort / stack overflow): find the culprit
            res = out[:]
            if len(out) < len(lines):
                res.append(f"abort rc={p.returncode}")
                rest = lines[len(out) + 1:]
                res.extend(_run_chunk(cmd, rest, timeout, cwd, env))
            return res[:len(lines)] + ["missing"] * max(0, len(lines) - len(res))
        return out
    except subprocess.TimeoutExpired:
        if len(lines) == 1:
            return ["timeout"]
        if len(lines) <= 6:
            # a small chunk: run its lines one by one (bisecting would pay the time limit once per level)
            res = []
            for l in lines:
                res.extend(_run_chunk(cmd, [l], timeout, cwd, env))
            return res
        mid = len(lines) // 2
        return _run_chunk(cmd, lines[:mid], timeout, cwd, env) + _run_chunk(cmd, lines[mid:], timeout, cwd, env)


def run_lines(cmd, lines, timeout=600, jobs=NCPU, cwd=None, env=None, per_job=200):
    """pipe the lines through `cmd` split over `jobs` processes; one output line per input line."""
    n = len(lines)
    if n == 0:
        return []
    # time limits are stated for an otherwise idle machine: stretch them when it is busy
    # (other checks, builds or tests running at the same time), so that load alone never
    # turns into a "timeout" outcome
    try:
        busy = os.getloadavg()[0] / NCPU
    except OSError:
        busy = 1.0
    timeout = timeout * min(12.0, max(1.0, busy))
    jobs = max(1, min(jobs, (n + per_job - 1) // per_job))
    size = (n + jobs - 1) // jobs
    chunks = [lines[i:i + size] for i in range(0, n, size)]
    with ThreadPoolExecutor(max_workers=jobs) as ex:
        outs = list(ex.map(lambda c: _run_chunk(cmd, c, timeout, cwd, env), chunks))
    res = []
    for o in outs:
        res.extend(o)
    return res


def run_model(sub, lines, args=(), **kw):
    return run_lines([MODELD, sub] + list(args), lines, **kw)


def run_impl(sub, lines, args=(), **kw):
    return run_lines([CVH, sub] + list(args), lines, **kw)


# ----------------------------------------------------------------------------------------
# Findings, verdicts, evidence
# ----------------------------------------------------------------------------------------

def load_known(pid):
    p = os.path.join(ROOT, "known_findings.json")
    if not os.path.exists(p):
        return []
    data = json.load(open(p))
    return [e for e in data.get("findings", [])
            if e.get("property") == pid or pid in e.get("properties", [])]


class Check:
    """One run of one property's check."""

    def __init__(self, pid, tier, seed, level="proof"):
        self.pid = pid
        self.tier = tier
        self.seed = seed
        self.level = level
        self.t0 = time.time()
        self.rng = random.Random(seed)
        self.failures = []        # dicts: kind (oracle|correspondence|proof|translator), sig, case, detail
        self.known = load_known(pid)
        self.known_hits = {}      # finding id -> example
        self.cov = {
            "evaluations": 0, "distinct_nontrivial": 0, "rule": "", "samples": [],
            "obligations": 0, "discharged": 0, "checker_cmd": "", "trusted_base": [],
        }
        self.assumptions = []
        self.distinct = set()
        self.dist = {}
        self.streams = {}
        self.replay_cases = None

    # --- bookkeeping
    def count(self, key, n=1):
        self.dist[key] = self.dist.get(key, 0) + n

    def note_case(self, case, nontrivial=True):
        self.cov["evaluations"] += 1
        if nontrivial:
            self.distinct.add(hashlib.sha1(repr(case).encode()).digest()[:8])

    def sample(self, obj, limit=6):
        if len(self.cov["samples"]) < limit:
            self.cov["samples"].append(obj)

    def fail(self, kind, sig, case, detail):
        """record a failure; `sig` is the signature used to match known findings."""
        self.failures.append({"kind": kind, "sig": sig, "case": case, "detail": detail})

    def obligations(self, ob, ok):
        self.cov["obligations"] += len(ob.names) if ob.names else 1
        self.cov["discharged"] += len(ob.discharged)
        self.cov["checker_cmd"] = ob.checker_cmd
        self.cov["theorems"] = ob.names
        self.cov["axioms_seen"] = ob.axioms_seen()
        if not ok:
            for name, why in ob.failed:
                self.fail("proof", "proof:" + name, {"theorem": name}, why)

    # --- verdict
    def finish(self):
        ev_dir = os.path.join(ROOT, "evidence")
        os.makedirs(ev_dir, exist_ok=True)
        os.makedirs(os.path.join(ROOT, "replays"), exist_ok=True)
        known_sigs = {}
        for e in self.known:
            if e.get("status", "open") == "open":
                for s in e.get("signatures", []):
                    known_sigs[s] = e
        new = []
        for f in self.failures:
            e = known_sigs.get(f["sig"])
            if e is not None and f["kind"] in ("oracle", "correspondence"):
                self.known_hits.setdefault(e["id"], (e, f))
            else:
                new.append(f)
        lines = []
        for fid, (e, f) in sorted(self.known_hits.items()):
            lines.append(f"KNOWN-FINDING: property={self.pid} {fid}: {e.get('what', '')} "
                         f"[e.g. {json.dumps(f['case'])[:160]}]")
        rc = 0
        if new:
            rc = 1
            oracle = [f for f in new if f["kind"] == "oracle"]
            other = [f for f in new if f["kind"] != "oracle"]
            if oracle:
                first = oracle[0]
                h = hashlib.sha1(json.dumps(first["case"], sort_keys=True).encode()).hexdigest()[:10]
                path = os.path.join("replays", f"{self.pid}-{h}.json")
                json.dump({"property": self.pid, "kind": "failing-input", "signature": first["sig"],
                           "case": first["case"], "detail": first["detail"],
                           "more": [{"sig": f["sig"], "case": f["case"], "detail": f["detail"]} for f in oracle[1:20]],
                           "broken_obligations": [{"sig": f["sig"], "detail": f["detail"]} for f in other[:20]]},
                          open(os.path.join(ROOT, path), "w"), indent=1)
                lines.append(f"VIOLATION property={self.pid} replay={path}")
            else:
                first = other[0]
                h = hashlib.sha1(json.dumps([f["sig"] for f in other], sort_keys=True).encode()).hexdigest()[:10]
                path = os.path.join("replays", f"{self.pid}-{h}.json")
                json.dump({"property": self.pid, "kind": "broken-obligation",
                           "no_longer_checks": [{"kind": f["kind"], "name": f["sig"], "first_case": f["case"],
                                                 "detail": f["detail"]} for f in other[:20]]},
                          open(os.path.join(ROOT, path), "w"), indent=1)
                lines.append(f"VIOLATION property={self.pid} replay={path} no-failing-input-found")
        self.cov["distinct_nontrivial"] = len(self.distinct)
        self.cov["distribution"] = self.dist
        self.cov["known_findings_reproduced"] = sorted(self.known_hits)
        self.cov["failures_new"] = len(new)
        # the evidence schema wants a boolean: a scoped statement ("all trees <= 9 nodes ...", per-stream flags)
        # goes to exhaustive_scope, and `exhaustive` is true only when every listed stream was enumerated completely
        ex = self.cov.get("exhaustive")
        if ex is not None and not isinstance(ex, bool):
            self.cov["exhaustive_scope"] = ex
            self.cov["exhaustive"] = all(ex.values()) if isinstance(ex, dict) else False
        ev = {
            "property_id": self.pid, "tier": self.tier, "seed": self.seed, "level": self.level,
            "coverage": self.cov, "assumptions": self.assumptions,
            "wall_s": round(time.time() - self.t0, 2), "violations": len(new),
        }
        json.dump(ev, open(os.path.join(ev_dir, f"{self.pid}.json"), "w"), indent=1, default=str)
        for l in lines:
            print(l)
        print(f"{self.pid} {self.tier}: obligations {self.cov['discharged']}/{self.cov['obligations']}, "
              f"cases {self.cov['evaluations']} (distinct non-trivial {len(self.distinct)}), "
              f"known findings reproduced {len(self.known_hits)}, new failures {len(new)}, "
              f"{ev['wall_s']}s")
        return rc


TRUSTED_BASE = [
    "Lean 4.33.0 kernel (axioms allowed: propext, Classical.choice, Quot.sound; audited with #print axioms)",
    "hand-written Lean models under lean/ChialispModel (tied to /repo by the correspondence runs of this check)",
    "tools/*.py (generators, diffing, verdict), harness/ (Rust crate cvh calling the real library in-process)",
    "clvmr 0.16.2 as the consensus oracle (evaluator, serialiser, tree hash)",
    "Lean compiler for the native model driver (proofs do not depend on compiled code)",
]


def correspond(chk, sub, lines, norm_model=None, norm_impl=None, skip=None, sig=None, label=None,
               max_report=5, **kw):
    """run model and implementation on the same lines; record disagreements.
    returns (model_out, impl_out)."""
    ok, out = build_harness()
    if not ok:
        chk.fail("proof", "harness-build", {}, out[-1500:])
        return [], []
    mo = run_model(sub, lines, **kw)
    io = run_impl(sub, lines, **kw)
    nbad = 0
    for l, a, b in zip(lines, mo, io):
        if skip and skip(l, a, b):
            chk.count(f"{label or sub}:skipped")
            continue
        a2 = norm_model(a) if norm_model else a
        b2 = norm_impl(b) if norm_impl else b
        if a2 != b2:
            nbad += 1
            if nbad <= max_report:
                s = sig(l, a, b) if sig else f"corr:{label or sub}"
                chk.fail("correspondence", s, {"sub": sub, "line": l}, {"model": a[:300], "impl": b[:300]})
    chk.count(f"{label or sub}:lines", len(lines))
    chk.count(f"{label or sub}:disagreements", nbad)
    chk.cov["traces_validated_against_impl"] = chk.cov.get("traces_validated_against_impl", 0) + len(lines) - nbad
    return mo, io


def std_obligations(chk, leanchecker=None):
    ob = Obligations(chk.pid)
    ok = ob.check(leanchecker=(chk.tier == "thorough") if leanchecker is None else leanchecker)
    chk.obligations(ob, ok)
    chk.cov["trusted_base"] = list(TRUSTED_BASE)
    return ok
