#!/bin/sh
# tools/seeded_design.sh : refresh the table of DESIGN.md §10 from seeded/*/meta.json
cd "$(dirname "$0")/.." && python3 - <<'PY'
import subprocess,re
t=subprocess.run(['python3','tools/seeded_table.py'],capture_output=True,text=True).stdout
p='DESIGN.md'; s=open(p).read()
s=re.sub(r'<!-- seeded-table-begin -->.*<!-- seeded-table-end -->', lambda m:'<!-- seeded-table-begin -->\n'+t+'<!-- seeded-table-end -->', s, flags=re.S)
open(p,'w').write(s)
PY
