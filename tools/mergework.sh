#!/bin/sh
# tools/mergework.sh <work-dir> : list files that differ between a builder's work copy and /verif (excluding build output)
w=$1
cd $w && find . -type f \( -path ./lean/.lake -o -path ./harness/target -o -path ./replays -o -path ./evidence -o -name __pycache__ -o -path ./lean/.audit -o -path ./.git -o -path ./tmp -o -path ./seeded \) -prune -o -type f -print | grep -v "__pycache__\|/\.lake/\|/target/\|^./replays/\|^./evidence/\|/\.audit/\|^./seeded/" | while read f; do
  if [ ! -e /verif/$f ]; then echo "NEW  $f"; elif ! cmp -s $f /verif/$f; then echo "DIFF $f"; fi
done
