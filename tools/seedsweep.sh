#!/bin/sh
# tools/seedsweep.sh <first-seed> <count> [ID...] — run the quick checks under several seeds (false-alarm hunt).
# Builds the framework where it stands (meant for `vp run`), prints one line per (seed, check).
cd "$(dirname "$0")/.." || exit 2
first=$1; count=$2; shift 2
ids="$*"; [ -n "$ids" ] || ids=$(python3 -c "import json;print(' '.join(c['property_id'] for c in json.load(open('MANIFEST.json'))['checks']))")
./setup.sh >/dev/null 2>&1 || { echo setup-failed; exit 2; }
s=$first; end=$((first+count))
while [ $s -lt $end ]; do
  for p in $ids; do
    out=$(VERIF_SEED=$s ./check $p quick 2>&1); rc=$?
    echo "seed=$s $p rc=$rc $(echo "$out" | grep -v '^KNOWN-FINDING' | tail -1)"
    if [ $rc -ne 0 ]; then echo "$out" | grep VIOLATION; for f in $(echo "$out" | sed -n 's/.*replay=\(replays[^ ]*\).*/\1/p'); do mkdir -p sweep_replays; cp "$f" "sweep_replays/seed$s-$(basename $f)"; done; fi
  done
  s=$((s+1))
done
