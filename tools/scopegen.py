#!/usr/bin/env python3
"""C10 machinery: a scope-aware walker over the source trees of tools/progen.py, the
one-defect mutators (unbound name, redefinition, inline back edge, cyclic / duplicate assign),
a renderer that records the source span of every node, and the generators of the model
correspondences (dependency graphs, abstract inline call graphs).

Source trees are those of progen: ('sym', n) | ('int', k) | ('str', b) | ('hex', b) | ('nil',) |
('list', [items], tail).  A PATH is a tuple of indices into `items` ('t' = the dotted tail).
"""
import progen
from progen import S, I, L, NILT

BINDING_KW = ("let", "let*", "assign", "assign-inline", "assign-lambda")
ASSIGN_KW = ("assign", "assign-inline", "assign-lambda")
STRICT = ("strict21", "cl23", "cl23.1", "cl24")


# ---- tree access -----------------------------------------------------------------------------

def get_at(t, path):
    for p in path:
        t = t[2] if p == "t" else t[1][p]
    return t


def replace_at(t, path, new):
    if not path:
        return new
    p = path[0]
    if p == "t":
        return ("list", t[1], replace_at(t[2], path[1:], new))
    items = list(t[1])
    items[p] = replace_at(items[p], path[1:], new)
    return ("list", items, t[2])


def subst_sym(t, old, new):
    """rename every occurrence of symbol `old` (binders and uses alike)."""
    if t[0] == "sym":
        return ("sym", new) if t[1] == old else t
    if t[0] == "list":
        return ("list", [subst_sym(x, old, new) for x in t[1]],
                subst_sym(t[2], old, new) if t[2] is not None else None)
    return t


def render(t):
    """text (one line) and {path: (start, end)} character spans (0-based, end exclusive)."""
    out = []
    spans = {}
    pos = 0

    def emit(s):
        nonlocal pos
        out.append(s)
        pos += len(s)

    def go(t, path):
        start = pos
        if t[0] == "list":
            emit("(")
            for i, x in enumerate(t[1]):
                if i:
                    emit(" ")
                go(x, path + (i,))
            if t[2] is not None:
                emit(" . ")
                go(t[2], path + ("t",))
            emit(")")
        else:
            emit(progen.text(t))
        spans[path] = (start, pos)
    go(t, ())
    return "".join(out), spans


def parse(txt):
    """reader for the subset of the source syntax progen.text prints (used for hand-written cases
    and replays)."""
    toks = []
    i = 0
    while i < len(txt):
        c = txt[i]
        if c in "()":
            toks.append(c)
            i += 1
        elif c.isspace():
            i += 1
        elif c == '"':
            j = txt.index('"', i + 1)
            toks.append(txt[i:j + 1])
            i = j + 1
        else:
            j = i
            while j < len(txt) and not txt[j].isspace() and txt[j] not in "()":
                j += 1
            toks.append(txt[i:j])
            i = j
    pos = 0

    def rd():
        nonlocal pos
        t = toks[pos]
        pos += 1
        if t == "(":
            items = []
            tail = None
            while toks[pos] != ")":
                if toks[pos] == ".":
                    pos += 1
                    tail = rd()
                else:
                    items.append(rd())
            pos += 1
            if not items and tail is None:
                return ("nil",)
            return ("list", items, tail)
        if t.startswith('"'):
            return ("str", t[1:-1].encode("latin1"))
        if t.startswith("0x"):
            return ("hex", bytes.fromhex(t[2:]))
        try:
            return ("int", int(t))
        except ValueError:
            return ("sym", t)
    return rd()


def pattern_names(p):
    if p[0] == "sym":
        return [] if p[1] in ("@", "&") else [p[1]]
    if p[0] == "list":
        r = []
        for x in p[1]:
            r += pattern_names(x)
        if p[2] is not None:
            r += pattern_names(p[2])
        return r
    return []


# ---- the walker --------------------------------------------------------------------------------

class Site:
    __slots__ = ("path", "kind", "where", "helper", "flags", "scope", "name")

    def __init__(self, path, kind, where, helper, flags, scope, name=None):
        self.path = path          # path of the node
        self.kind = kind          # 'var' (bound variable reference) | 'capture' | 'expr' (any expression node)
        self.where = where        # 'main' | 'defun' | 'inline' | 'macro'
        self.helper = helper      # helper name or None
        self.flags = flags        # frozenset of context tags (see walk_expr)
        self.scope = scope        # frozenset of variable names in scope
        self.name = name

    def cls(self):
        """position class used for stratification / the published distribution."""
        f = self.flags
        if self.kind == "capture":
            return "lambda-capture"
        if self.kind == "tmpl":
            return "macro-template-free-name"
        if self.where == "macro":
            return "macro-template"
        for tag, label in (("lambda-body", "lambda-body"), ("rest-tail", "rest-tail"),
                           ("assign-binding", "assign-binding"), ("assign-body", "assign-body"),
                           ("let-binding", "let-binding"), ("let-body", "let-body"),
                           ("macro-arg", "macro-arg"), ("qq-unquote", "qq-unquote")):
            if tag in f:
                return label
        return {"main": "main-body", "defun": "function-body", "inline": "inline-body"}[self.where]

    def direct(self):
        """not inside a let / assign / lambda (those are hoisted into functions of their own)."""
        return not (self.flags & {"lambda-body", "assign-binding", "assign-body", "let-binding", "let-body"})

    def evaluated(self):
        """direct, and not inside an argument of an inline function or of a macro (an inline that
        ignores a parameter drops the argument expression, so code there may never be compiled)."""
        return self.direct() and not (self.flags & {"inline-arg", "macro-arg"})


class Walk:
    def __init__(self, tree):
        self.tree = tree
        self.sites = []
        self.mentions = {}        # helper/None -> set of symbols mentioned at expression positions
        items = tree[1]
        self.params = items[1]
        self.helpers = {}         # name -> (index, kw, form)
        self.helper_order = []
        self.body_index = len(items) - 1
        self.macros = set()
        self.consts = set()
        for i in range(2, len(items) - 1):
            f = items[i]
            if f[0] != "list" or not f[1] or f[1][0][0] != "sym":
                continue
            kw = f[1][0][1]
            if kw == "include":
                continue
            name = f[1][1][1]
            self.helper_order.append((i, kw, name))
            self.helpers.setdefault(name, (i, kw, f))
            if kw in ("defmacro", "defmac"):
                self.macros.add(name)
            if kw in ("defconstant", "defconst"):
                self.consts.add(name)
        self.cur = None
        for i, kw, name in self.helper_order:
            f = items[i]
            self.cur = (i, name)
            self.mentions.setdefault(name, set())
            if kw in ("defun", "defun-inline"):
                sc = frozenset(pattern_names(f[1][2]))
                self.expr(f[1][3], (i, 3), "inline" if kw == "defun-inline" else "defun", name, frozenset(), sc)
            elif kw in ("defmacro", "defmac"):
                sc = frozenset(pattern_names(f[1][2]))
                self.expr(f[1][3], (i, 3), "macro", name, frozenset(), sc)
            elif kw in ("defconstant", "defconst"):
                self.mention_all(f[1][2], name)
        self.cur = (self.body_index, None)
        self.mentions.setdefault(None, set())
        self.expr(items[self.body_index], (self.body_index,), "main", None, frozenset(),
                  frozenset(pattern_names(self.params)))
        self.live = self.compute_live()

    def mention_all(self, t, helper):
        if t[0] == "sym":
            self.mentions[helper].add(t[1])
        elif t[0] == "list":
            for x in t[1]:
                self.mention_all(x, helper)

    def compute_live(self):
        live = set()
        work = set(self.mentions.get(None, ()))
        while work:
            n = work.pop()
            if n in self.helpers and n not in live:
                live.add(n)
                work |= self.mentions.get(n, set())
        return live

    def add(self, path, kind, where, helper, flags, scope, name=None):
        self.sites.append(Site(path, kind, where, helper, flags, scope, name))

    def expr(self, t, path, where, helper, flags, scope):
        k = t[0]
        self.add(path, "expr", where, helper, flags, scope)
        if k == "sym":
            self.mentions[helper].add(t[1])
            if t[1] in scope:
                self.add(path, "var", where, helper, flags, scope, t[1])
            return
        if k != "list" or not t[1]:
            return
        items = t[1]
        h = items[0]
        if h[0] != "sym":
            return
        hn = h[1]
        if hn == "q":
            return
        if hn == "qq":
            self.qq(items[1], path + (1,), where, helper, flags, scope)
            return
        if hn in ("let", "let*"):
            binds = items[1]
            cur = scope
            new = set()
            if binds[0] == "list":
                for j, b in enumerate(binds[1]):
                    nm = b[1][0][1]
                    self.expr(b[1][1], path + (1, j, 1), where, helper, flags | {"let-binding"},
                              cur if hn == "let*" else scope)
                    new.add(nm)
                    if hn == "let*":
                        cur = cur | {nm}
            self.expr(items[2], path + (2,), where, helper, flags | {"let-body"}, scope | new)
            return
        if hn in ASSIGN_KW:
            names = set()
            for j in range(1, len(items) - 1, 2):
                names |= set(pattern_names(items[j]))
            inner = scope | names
            for j in range(2, len(items) - 1, 2):
                self.expr(items[j], path + (j,), where, helper, flags | {"assign-binding"}, inner)
            self.expr(items[-1], path + (len(items) - 1,), where, helper, flags | {"assign-body"}, inner)
            return
        if hn == "lambda":
            params = items[1]
            caps = []
            own = []
            if params[0] == "list":
                for j, p in enumerate(params[1]):
                    if j == 0 and p[0] == "list" and p[1] and p[1][0] == ("sym", "&"):
                        for c, cs in enumerate(p[1][1:], 1):
                            if cs[0] == "sym":
                                caps.append(cs[1])
                                self.mentions[helper].add(cs[1])
                                if cs[1] in scope:
                                    self.add(path + (1, 0, c), "capture", where, helper, flags, scope, cs[1])
                    else:
                        own += pattern_names(p)
                if params[2] is not None:
                    own += pattern_names(params[2])
            self.expr(items[2], path + (2,), where, helper, flags | {"lambda-body"}, frozenset(caps) | frozenset(own))
            return
        self.mentions[helper].add(hn)
        macro = hn in self.macros
        inl = hn in self.helpers and self.helpers[hn][1] == "defun-inline"
        rest = False
        for j in range(1, len(items)):
            a = items[j]
            if a == ("sym", "&rest"):
                rest = True
                continue
            fl = flags
            if macro:
                fl = fl | {"macro-arg"}
            if inl:
                fl = fl | {"inline-arg"}
            if rest:
                fl = fl | {"rest-tail"}
            self.expr(a, path + (j,), where, helper, fl, scope)

    def qq(self, t, path, where, helper, flags, scope):
        if t[0] == "int" and where == "macro":
            # a literal of a macro template: a place where a free identifier of the expansion can stand
            self.add(path, "tmpl", where, helper, flags, scope)
        if t[0] != "list" or not t[1]:
            return
        items = t[1]
        if items[0] == ("sym", "unquote") and len(items) == 2:
            self.expr(items[1], path + (1,), where, helper, flags | {"qq-unquote"}, scope)
            return
        for j, x in enumerate(items):
            if j == 0 and x[0] == "int":
                continue          # an operator position
            self.qq(x, path + (j,), where, helper, flags, scope)

    # -- queries
    def reachable(self, s):
        return s.helper is None or s.helper in self.live


# ---- mutators ------------------------------------------------------------------------------------
# every mutator returns None or a dict: kind, cls, bad (tree), good (tree), expect (what the error
# must name), note

def fresh_unbound(tree, rng):
    used = progen_identifiers(tree)
    while True:
        n = "zork_%d" % rng.randint(100, 99999)
        if n not in used:
            return n


def progen_identifiers(tree, acc=None):
    acc = acc if acc is not None else set()
    if tree[0] == "sym":
        acc.add(tree[1])
    elif tree[0] == "list":
        for x in tree[1]:
            progen_identifiers(x, acc)
        if tree[2] is not None:
            progen_identifiers(tree[2], acc)
    return acc


def mut_unbound(w, rng, site):
    tree = w.tree
    name = fresh_unbound(tree, rng)
    other = name + "q"          # a second spelling, to tell dead code from a leaked constant
    if site.kind in ("var", "tmpl"):
        bad = replace_at(tree, site.path, S(name))
        bad2 = replace_at(tree, site.path, S(other))
    else:
        # a lambda capture: rename the capture and its uses inside the lambda body, so that the
        # ONLY unbound reference is the capture itself
        lam_path = site.path[:-3]
        lam = get_at(tree, lam_path)
        old = site.name

        def ren(new):
            caps = subst_sym(lam[1][1][1][0], old, new)
            params = ("list", [caps] + lam[1][1][1][1:], lam[1][1][2])
            body = subst_sym(lam[1][2], old, new)
            return replace_at(tree, lam_path, ("list", [lam[1][0], params, body], lam[2]))
        own = pattern_names(("list", lam[1][1][1][1:], lam[1][1][2]))
        if old in own:
            return None
        bad, bad2 = ren(name), ren(other)
    return {"kind": "unbound", "cls": site.cls(), "bad": bad, "bad2": bad2, "good": tree,
            "expect": {"names": [name]}, "helper": site.helper}


def clone_helper_form(w, name, kw):
    i, okw, f = w.helpers[name]
    return ("list", [S(kw), f[1][1], f[1][2], f[1][3]], None)


def mut_duplicate(w, rng, name, newkw, where):
    tree = w.tree
    i, okw, f = w.helpers[name]
    dup = clone_helper_form(w, name, newkw)
    items = list(tree[1])
    lo = 2
    while lo < len(items) - 1 and items[lo][0] == "list" and items[lo][1] and items[lo][1][0] == ("sym", "include"):
        lo += 1
    if where == "before":
        at = rng.randint(lo, i)
    else:
        at = rng.randint(i + 1, len(items) - 1)
    items.insert(at, dup)
    bad = ("list", items, None)
    orig_at = i + 1 if at <= i else i
    return {"kind": "redefine", "cls": f"{okw}+{newkw}:{where}", "bad": bad, "good": tree,
            "expect": {"names": [name], "forms": [(at,), (orig_at,)]}, "helper": name}


def call_of(fn, first, rng):
    """a call of generated function `fn` (progen fns record) passing `first` in its first leaf
    position and small literals elsewhere."""
    state = {"used": False}

    def arg(s):
        if s[0] == "leaf":
            if not state["used"]:
                state["used"] = True
                return first
            if s[2] == "ilist":
                return L(S("q"), tail=L(I(1), I(2)))
            if s[2] == "bytes":
                return ("str", b"ab")
            return I(rng.randint(1, 9))
        if s[0] == "cap":
            return arg(s[2])
        items = [arg(x) for x in s[1]]
        if s[2] is None:
            return L(S("list"), *items)
        res = arg(s[2])
        for it in reversed(items):
            res = L(S("c"), it, res)
        return res
    shape = fn["shape"]
    items = [arg(x) for x in shape[1]]
    if shape[2] is not None:
        return L(S(fn["name"]), *items, S("&rest"), arg(shape[2]))
    return L(S(fn["name"]), *items)


def assign_chain(rng, e, n, kw, names):
    """(kw N1 e N2 (c N1 ()) … body) whose value is e; returns (pairs, body)."""
    pairs = [(S(names[0]), e)]
    for k in range(1, n):
        prev = names[k - 1]
        if rng.random() < 0.3:
            a, b = names[k], names[k] + "b"
            pairs.append((L(S(a), S(b)), L(S("list"), S(prev), S(names[0]))))
        else:
            pairs.append((S(names[k]), L(S("c"), S(prev), NILT)))
    body = L(S("f"), L(S("c"), S(names[0]), S(names[n - 1])))
    return pairs, body


def assign_form(kw, pairs, body):
    forms = []
    for p, e in pairs:
        forms += [p, e]
    return L(S(kw), *forms, body)


def mut_assign(w, rng, site, defect):
    tree = w.tree
    e = get_at(tree, site.path)
    n = rng.randint(1, 4)
    kw = rng.choice(ASSIGN_KW)
    base = "AS%d_" % rng.randint(100, 99999)
    names = [base + str(k) for k in range(n)]
    pairs, body = assign_chain(rng, e, n, kw, names)
    order = list(range(n))
    if rng.random() < 0.5:
        rng.shuffle(order)
    good_pairs = [pairs[k] for k in order]
    good = replace_at(tree, site.path, assign_form(kw, good_pairs, body))
    if defect == "cycle":
        clen = rng.randint(1, n)
        # N1 now depends on N_clen, which depends on N1 through the chain
        dep = names[clen - 1]
        bad_first = (pairs[0][0], L(S("f"), L(S("c"), e, S(dep))))
        bp = [bad_first] + pairs[1:]
        bad_pairs = [bp[k] for k in order]
        cls = f"cycle{clen}/{n}:{kw}"
        expect = {"names": names, "form": site.path, "message": "deadlock"}
    else:
        victim = rng.choice(names)
        if rng.random() < 0.35:
            extra = (L(S(base + "x"), S(victim)), L(S("list"), I(1), I(2)))
            cls = f"dup-destructured/{n}:{kw}"
        else:
            extra = (S(victim), I(rng.randint(1, 9)))
            cls = f"dup/{n}:{kw}"
        bad_pairs = list(good_pairs)
        bad_pairs.insert(rng.randint(0, len(bad_pairs)), extra)
        expect = {"names": [victim], "form": site.path, "message": "Duplicate binding"}
    bad = replace_at(tree, site.path, assign_form(kw, bad_pairs, body))
    return {"kind": "assign-" + ("cycle" if defect == "cycle" else "dup"), "cls": cls + "@" + site.cls(),
            "bad": bad, "good": good, "expect": expect, "helper": site.helper}


# ---- inline chains ---------------------------------------------------------------------------------

def add_inline_chain(g, prog, rng, k):
    """extend generated program `prog` (made by ProgGen `g`) with inline functions c1 → c2 → … → ck
    (each calling the next at a DIRECT position of its body) and make the main expression call c1.
    returns (tree, [fn records c1..ck]) or None."""
    tree = prog["tree"]
    chain = []
    forms = []
    for _ in range(k):
        forms.append(g.make_function(True))
        chain.append(g.fns[-1])
    chain.reverse()           # c1 was made last and may call the later ones through progen's own calls
    forms.reverse()
    items = list(tree[1])
    body = items[-1]
    head = items[:-1]
    pos = rng.randint(3 if len(head) > 2 and head[2][1][0] == ("sym", "include") else 2, len(head))
    new_items = head[:pos] + forms + head[pos:] + [body]
    if rng.random() < 0.3:
        fixed = 3 if len(head) > 2 and head[2][1][0] == ("sym", "include") else 2
        hs = new_items[fixed:-1]
        rng.shuffle(hs)
        new_items = new_items[:fixed] + hs + [body]
    tree = ("list", new_items, None)
    # forward edges
    for a in range(-1, k - 1):
        w = Walk(tree)
        callee = chain[a + 1]
        helper = chain[a]["name"] if a >= 0 else None
        cands = [s for s in w.sites if s.kind == "expr" and s.helper == helper and s.evaluated()]
        if not cands:
            return None
        s = rng.choice(cands)
        tree = replace_at(tree, s.path, call_of(callee, get_at(tree, s.path), rng))
    return tree, chain


def mut_backedge(tree, chain, rng, i, j, weak=False):
    """add a call of chain[i] inside the body of chain[j] (i <= j): a cycle of length j-i+1."""
    w = Walk(tree)
    helper = chain[j]["name"]
    cands = [s for s in w.sites if s.kind == "expr" and s.helper == helper and "macro-arg" not in s.flags
             and "lambda-body" not in s.flags]
    cands = [s for s in cands if (not s.evaluated()) == weak]
    if not cands:
        return None
    s = rng.choice(cands)
    bad = replace_at(tree, s.path, call_of(chain[i], get_at(tree, s.path), rng))
    cyc = [c["name"] for c in chain[i:j + 1]]
    # two programs that differ only in a literal at the position of the back edge: if they
    # compile to the same bytes, that position never reaches the emitted code
    probes = [replace_at(tree, s.path, I(987654321)), replace_at(tree, s.path, I(123456789))]
    return {"kind": "inline-cycle" + ("-hoisted" if weak else ""), "cls": f"len{j - i + 1}@{s.cls()}", "bad": bad, "good": tree,
            "probes": probes,
            "expect": {"names": cyc, "helpers": cyc, "message": "recursive"}, "helper": helper}


# ---- dependency graphs (toposort correspondence) ------------------------------------------------

def topo_line(items):
    if not items:
        return "t -"
    return "t " + ";".join(",".join(map(str, n)) + "|" + ",".join(map(str, h)) for n, h in items)


def rand_dep_graph(rng):
    n = rng.choice([1, 2, 2, 3, 3, 4, 4, 5, 6, 8, 12])
    key = 0
    has = []
    for _ in range(n):
        k = rng.choice([1, 1, 1, 2, 3, 0])
        hs = list(range(key, key + k))
        key += k
        has.append(hs)
    order = list(range(n))
    rng.shuffle(order)          # a hidden valid order
    rank = {it: r for r, it in enumerate(order)}
    items = []
    for i in range(n):
        needs = []
        earlier = [j for j in range(n) if rank[j] < rank[i] and has[j]]
        for _ in range(rng.choice([0, 1, 1, 2, 3])):
            if earlier:
                needs.append(rng.choice(has[rng.choice(earlier)]))
        items.append((needs, list(has[i])))
    kind = rng.choice(["dag", "dag", "cycle", "self", "foreign", "dupprov", "dupneed", "mixed"])
    tags = [kind]
    if kind in ("cycle", "mixed") and n >= 1:
        ln = rng.randint(1, min(4, n))
        cyc = rng.sample(range(n), ln)
        if all(has[c] for c in cyc):
            for a in range(ln):
                items[cyc[a]][0].append(rng.choice(has[cyc[(a + 1) % ln]]))
            tags.append(f"cycle{ln}")
    if kind in ("self", "mixed"):
        c = rng.randrange(n)
        if has[c]:
            items[c][0].append(rng.choice(has[c]))
            tags.append("self")
    if kind in ("foreign", "mixed"):
        items[rng.randrange(n)][0].append(1000 + rng.randint(0, 5))
        tags.append("foreign")
    if kind in ("dupprov", "mixed") and key > 0:
        items[rng.randrange(n)][1].append(rng.randrange(key))
        tags.append("dupprov")
    if kind in ("dupneed", "mixed"):
        c = rng.randrange(n)
        if items[c][0]:
            items[c][0].append(items[c][0][0])
            tags.append("dupneed")
    return items, tags


def small_dep_graphs():
    """every graph with <= 3 items over keys {0,1,2}: has_i = {i} (or {} / {i, other}), needs ⊆ keys."""
    import itertools
    out = []
    subsets = [[], [0], [1], [2], [0, 1], [0, 2], [1, 2], [0, 1, 2]]
    for n in (1, 2, 3):
        keys = list(range(n))
        subs = [s for s in subsets if all(x < max(n, 2) for x in s)]
        for needs in itertools.product(subs, repeat=n):
            out.append([(list(needs[i]), [i]) for i in range(n)])
    # shared providers / empty providers
    for needs in itertools.product([[], [0], [1], [0, 1]], repeat=3):
        out.append([(list(needs[0]), [0]), (list(needs[1]), [0, 1]), (list(needs[2]), [])])
    return out


def valid_order_exists(items):
    """independent oracle (Kahn with 'some provider already placed'): can the items be ordered so
    that every need that anybody provides is provided by an earlier item?"""
    possible = set()
    for _, h in items:
        possible |= set(h)
    needs = [set(n) & possible for n, _ in items]
    placed = [False] * len(items)
    done = set()
    progress = True
    while progress:
        progress = False
        for i in range(len(items)):
            if not placed[i] and needs[i] <= done:
                # placing i first is always safe (greedy is complete: done only grows)
                placed[i] = True
                progress = True
                done |= set(items[i][1])
                break
    return all(placed)


def check_topo_output(items, out):
    """property-level oracle on the implementation's answer alone; returns None or a complaint."""
    possible = set()
    for _, h in items:
        possible |= set(h)
    if out == "deadlock":
        if valid_order_exists(items):
            return "deadlock reported although a valid order exists"
        return None
    if not out.startswith("ok"):
        return "unexpected output " + out[:80]
    body = out[2:].strip()
    got = [x for x in body.split(";") if x] if body else []
    if len(got) != len(items):
        return "result has a different number of items"
    seen = set()
    done = set()
    for g in got:
        idx, ns, hs = g.split(":")
        idx = int(idx)
        ns = set(map(int, ns.split(","))) if ns else set()
        hs = set(map(int, hs.split(","))) if hs else set()
        if idx in seen or idx >= len(items):
            return "not a permutation"
        seen.add(idx)
        if ns != set(items[idx][0]) & possible or hs != set(items[idx][1]):
            return f"item {idx} carries other needs/has than its element"
        if not ns <= done:
            return f"item {idx} placed before a need is provided"
        done |= hs
    if not valid_order_exists(items):
        return "ok although no valid order exists"
    return None


# ---- abstract inline call graphs (inline correspondence) ---------------------------------------

PLAIN = {1000: "+", 1001: "c", 1002: "gdef"}
MACRO = {2000: "mmac"}


def rand_inline_graph(rng):
    n = rng.choice([1, 2, 2, 3, 3, 4, 5, 6])
    acyclic = rng.random() < 0.45
    defs = {}
    unknown_used = False

    def expr(i, depth):
        nonlocal unknown_used
        r = rng.random()
        if depth <= 0 or r < 0.25:
            return ("a", rng.choice("AB")) if rng.random() < 0.8 else ("o",)
        heads = []
        if acyclic:
            heads += list(range(i + 1, n)) * 2
        else:
            heads += list(range(n))
        heads += [1000, 1000, 1001, 1002, 2000]
        if rng.random() < 0.02:
            heads.append(3000)
        h = rng.choice(heads)
        if h == 3000:
            unknown_used = True
        a1 = expr(i, depth - 1)
        if h < 1000 or h == 1002:
            if rng.random() < 0.25:
                return ("c", h, [a1], ("c", 1001, [expr(i, depth - 1), ("o",)], None))
        return ("c", h, [a1, expr(i, depth - 1)], None)
    for i in range(n):
        defs[i] = expr(i, rng.randint(1, 4))
    entry = rng.randrange(n) if not acyclic else 0
    g = {"n": n, "defs": defs, "entry": entry, "acyclic": acyclic}
    if inline_expansion_size(g) is None:
        return rand_inline_graph(rng)        # exponential expansion: draw again
    return g


def inline_expansion_size(g, cap=4000):
    """size of the expression replace_inline_body builds for the entry call (parameters replaced
    by the already expanded arguments, which are copied at every use); None when it exceeds `cap`
    (the real compiler needs minutes for such programs, cycle or not)."""
    class Big(Exception):
        pass

    def size(e, argsz, vis):
        if e[0] == "a":
            return argsz.get(e[1], 1)
        if e[0] == "o":
            return 1
        _, h, args, tail = e
        szs = [size(a, argsz, vis) for a in args]
        tsz = size(tail, argsz, vis) if tail is not None else 0
        total = 1 + sum(szs) + tsz
        if total > cap:
            raise Big()
        if h < 1000 and h not in vis and h in g["defs"]:
            a = szs[0] if szs else 1
            b = szs[1] if len(szs) > 1 else (tsz + 2)
            r = size(g["defs"][h], {"A": a, "B": b}, vis | {h})
            if r > cap:
                raise Big()
            return r
        return total
    try:
        return size(g["defs"][g["entry"]], {"A": 1, "B": 1}, {g["entry"]})
    except Big:
        return None


def inline_tokens(e):
    if e[0] == "a":
        return ["a"]
    if e[0] == "o":
        return ["o"]
    _, h, args, tail = e
    t = [f"c{h}", str(len(args))]
    for a in args:
        t += inline_tokens(a)
    if tail is None:
        t.append("n")
    else:
        t.append("s")
        t += inline_tokens(tail)
    return t


def inline_src(e):
    if e[0] == "a":
        return S(e[1])
    if e[0] == "o":
        return L(S("q"), tail=I(7))
    _, h, args, tail = e
    name = PLAIN.get(h) or MACRO.get(h) or ("zzz_unknown" if h == 3000 else f"f{h}")
    items = [S(name)] + [inline_src(a) for a in args]
    if tail is not None:
        items += [S("&rest"), inline_src(tail)]
    return ("list", items, None)


def inline_case(g, dialect):
    """(protocol line, source text)"""
    helpers = [L(S("defun"), S("gdef"), L(S("A"), S("B")), L(S("+"), S("A"), S("B"))),
               L(S("defmacro"), S("mmac"), L(S("Q"), S("R")),
                 L(S("qq"), L(S("+"), L(S("unquote"), S("Q")), L(S("unquote"), S("R")))))]
    for i in range(g["n"]):
        helpers.append(L(S("defun-inline"), S(f"f{i}"), L(S("A"), S("B")), inline_src(g["defs"][i])))
    tree = L(S("mod"), L(S("X"), S("Y")), L(S("include"), S(progen.SIGILS[dialect])), *helpers,
             L(S(f"f{g['entry']}"), S("X"), S("Y")))
    text = progen.text(tree)
    defs = ";".join(f"{i}=" + ",".join(inline_tokens(g["defs"][i])) for i in range(g["n"]))
    line = f"i {g['entry']} 2000 1000,1001,1002 {defs} {text.encode().hex()}"
    return line, text


def py_inline_outcome(g):
    """independent python re-statement of the property for abstract graphs: is a cycle of the
    inline call graph reachable from the entry?  (used as the oracle for `i` lines)"""
    def heads(e, acc):
        if e[0] == "c":
            for a in e[2]:
                heads(a, acc)
            if e[3] is not None:
                heads(e[3], acc)
            if e[1] < 1000:
                acc.add(e[1])
    adj = {}
    for i in range(g["n"]):
        s = set()
        heads(g["defs"][i], s)
        adj[i] = s
    # cycle reachable from entry?
    color = {}

    def dfs(u):
        color[u] = 1
        for v in adj[u]:
            if color.get(v) == 1:
                return True
            if v not in color and dfs(v):
                return True
        color[u] = 2
        return False
    return dfs(g["entry"])


# ---- qq templates (qq_to_expression correspondence) ------------------------------------------------

QQ_LEAVES = [S("q"), I(1), I(113), ("str", b"q"), ("str", b"1"), S("quote"), S("qq"), S("a"), S("bb"),
             I(7), I(0), ("str", b"s"), NILT, S("c"), ("hex", b"\x01"), I(-1), I(256)]


def rand_qq_template(rng, depth=4):
    r = rng.random()
    if depth <= 0 or r < 0.25:
        return rng.choice(QQ_LEAVES)
    if r < 0.45:
        # an unquote / quote form, well-formed or not; unquoted expressions are leaves (so the
        # BodyForm that compile_bodyform makes of them is a plain Value)
        kw = rng.choice(["unquote", "unquote", "unquote", "quote"])
        n = rng.choice([1, 1, 1, 1, 0, 2])
        args = [rng.choice([S("V1"), S("zork"), I(5), ("str", b"x"), S("q")]) if kw == "unquote"
                else rand_qq_template(rng, depth - 1) for _ in range(n)]
        return ("list", [S(kw)] + args, None)
    n = rng.choice([0, 1, 2, 2, 3, 4])
    items = [rand_qq_template(rng, depth - 1) for _ in range(n)]
    if items and rng.random() < 0.3:
        items[0] = rng.choice([S("q"), I(1), I(113), ("str", b"q"), S("quote"), I(7), S("f")])
    tail = None
    if items and rng.random() < 0.12:
        tail = rng.choice([S("t"), I(3), ("list", [S("unquote"), S("V2")], None), ("str", b"")])
    if not items:
        return NILT
    return ("list", items, tail)


def qq_unquotes(t):
    """python re-statement of textbook quasi-quotation (independent of the Lean model): the
    operands of the unquote forms reached through list structure, not through (quote _)."""
    def oper(h):
        if h[0] == "sym":
            return h[1].encode()
        if h[0] == "str":
            return h[1]
        return None

    def plist(t):
        if t[0] == "nil":
            return []
        if t[0] == "list" and t[2] is None:
            return t[1]
        if t[0] == "list" and t[2] in (("str", b""), ("int", 0)):
            return t[1]
        return None

    def go(t):
        if t[0] != "list" or not t[1]:
            return []
        f, rest = t[1][0], ("list", t[1][1:], t[2]) if len(t[1]) > 1 or t[2] is not None else NILT
        if len(t[1]) == 1 and t[2] is not None:
            rest = t[2]
        pl = plist(rest)
        if pl is not None and len(pl) == 1:
            if oper(f) == b"quote":
                return []
            if oper(f) == b"unquote":
                return [pl[0]]
        return go(f) + golist(rest)

    def golist(t):
        if t[0] != "list" or not t[1]:
            return []
        rest = ("list", t[1][1:], t[2]) if len(t[1]) > 1 else (t[2] if t[2] is not None else NILT)
        return go(t[1][0]) + golist(rest)
    return go(t)


def qq_has_quote_head(t):
    """some list on the way has a head spelling q or 1 (atom / string / integer 1 / integer 113)."""
    if t[0] != "list" or not t[1]:
        return False
    h = t[1][0]
    if h in (S("q"), I(1), I(113), ("str", b"q"), ("hex", b"\x01"), ("str", b"\x01")):
        return True
    return any(qq_has_quote_head(x) for x in t[1]) or (t[2] is not None and qq_has_quote_head(t[2]))
