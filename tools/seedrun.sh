#!/bin/sh
# tools/seedrun.sh <repo-worktree-with-a-seeded-change> <ID>...   — run checks against a modified copy of
# the repository WITHOUT touching /repo: a private copy of /verif whose harness points at the worktree.
set -e
wt="$1"; shift
d=/tmp/seedrun
if [ ! -d "$d" ]; then mkdir -p "$d"; fi
cd /verif && tar cf - --exclude=.git --exclude=replays . | (cd "$d" && tar xf -)
sed -i "s#chialisp = { path = \"/repo\" }#chialisp = { path = \"$wt\" }#" "$d/harness/Cargo.toml"
(cd "$d/harness" && RUSTUP_TOOLCHAIN=stable-x86_64-unknown-linux-gnu cargo clean --release -p chialisp --offline >/dev/null 2>&1 || true)
for id in "$@"; do
  (cd "$d" && VERIF_REPO="$wt" ./check "$id" quick 2>&1 | grep -v "^KNOWN-FINDING" | tail -3)
done
