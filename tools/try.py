#!/usr/bin/env python3
"""tools/try.py '<source>' '<args text>' [entries…] — compile a program with the real compilers under
several entries, run it on the arguments with clvmr, and show the Lean source interpreter's answer."""
import subprocess
import sys
import os
sys.path.insert(0, os.path.dirname(os.path.abspath(__file__)))
import lib


def cvh(sub, line):
    return subprocess.run([lib.CVH, sub], input=line + "\n", text=True, capture_output=True).stdout.strip()


def main():
    src, args = sys.argv[1], sys.argv[2]
    entries = sys.argv[3:] or ["text:O0", "text:O1"]
    ah = cvh("asm", args.encode().hex())
    for e in entries:
        out = cvh("compile", f"{e} {src.encode().hex()} {ah}")
        f = out.split()
        if f and f[0] == "C":
            print(e, "=>", f[2] if len(f) > 2 else "", (cvh("dis", f[2][1:]) if len(f) > 2 and f[2][0] == "V" else ""))
            print("    code:", cvh("dis", f[1])[:500])
        else:
            print(e, "=>", out[:300])


if __name__ == "__main__":
    main()
