#!/usr/bin/env python3
"""Writes /verif/MANIFEST.json from the table below (kept in one place so it stays valid)."""
import json
import os

ROOT = os.path.dirname(os.path.dirname(os.path.abspath(__file__)))

# id -> (technique, level text, level note, design ref)
CHECKS = {
    "C11": ("Lean 4 theorems over option derivations regenerated from the Rust sources on every run, a recorded-options tie, and an end-to-end differential of all entry points",
            "Kernel-checked over the regenerated derivations: for classic and every dialect (table-wise and for every dialect value) the library entry derives the same code-relevant pipeline as run -O; cldb derives the same as run for every dialect with a stepping, and provably not for sources without a sigil; detect_modern only returns table entries or classic, so this covers all programs; given the print->read round trip (C09) the re-assembled CLI text equals the library bytes under the stated integer-mode condition (witness that the condition is needed). Derivations, dialect table, defaults and get_optimizer thresholds are re-extracted from the sources on every run and compared with what the entry points hand to the compiler at runtime; the oracle compares all entry points' outputs (compile_clvm_text, compile_clvm file-to-file, run -O re-assembled, compile_modern, cldb) on generated and shipped programs x 7 dialects x include-path variants.",
            "The compiler body is an arbitrary function of the pipeline (C05); the print/read round trip is a hypothesis (C09); python and wasm bindings are covered through the translator only; one open finding caused by C05.",
            "DESIGN.md §4 C11"),
    "C05": ("Lean 4 theorems over a regenerated inventory of statics and unordered-iteration sites plus a guard state machine; multi-history, multi-thread, multi-process differential of real compiles",
            "Kernel-checked: the only mutable statics are the name counter and the integer-mode cell (inventory regenerated from the sources every run and cross-checked against the built binary's writable symbols); the RAII guard restores the mode on every exit path and nesting, observations depend only on the mode at entry, other threads are untouched; every discharged unordered-iteration consumer class is permutation-invariant for all inputs; the sites whose order-independence is not established are listed exactly as open obligations. The oracle repeats real compiles under counter, mode, history, thread and fresh-process (hash seed) variation and compares bytes and symbol entries. Partial: the compiler body itself is not proved pure.",
            "Two open findings (cl22 leaked generated names; cl23+ deinline hash-order nondeterminism with fix diff); the site inventory is syntactic; hash seeds are sampled, not enumerated.",
            "DESIGN.md §4 C05"),
    "C08": ("Lean 4 theorems over a hand model of the classic (de)serialiser (parametric in two facts re-read from the sources every run) against a clvmr spec model, plus an exhaustive differential run",
            "Proved for every configuration and all inputs: the encoder emits exactly clvmr's bytes (atoms < 2^34 bytes); the decoder that drops sub-read errors equals the error-propagating reading; it stops within 3|bs|+2 steps. Proved for the repaired configuration: decode after encode is the identity, decode = clvmr's on every input, every proper prefix is rejected. For the code as found the same under an explicit exclusion of 4+-byte length prefixes, with decide witnesses that the exclusion is necessary (get_u32 little-endian; 7-byte prefixes accepted). The two configuration facts are re-extracted from /repo on each run (translator) and the model is tied to the code by all inputs of length <= 2 (<= 3 thorough), every prefix width, truncation at every offset, bit flips, 1 MiB+ atoms; the clvmr oracle runs on the implementation alone.",
            "Lean kernel + the three standard axioms; stream buffer management and to_sexp_type are abstracted; the 5-byte length class is run on the implementation only; two open findings with fix diffs.",
            "DESIGN.md §4 C08"),
    "C20": ("exhaustive kernel evaluation (decide) over operator tables regenerated from /repo and the locked clvmr sources on every run, lifted to all names, atoms and versions; runtime table dump; one-operator programs",
            "Proved over the regenerated tables: name->opcode and opcode->name mutually inverse per version, versions only add names, modern prims = latest classic table, named <=> implemented for all 256 one-byte opcodes plus the 4-byte ones per version, hard-wired operators agree. The stepping-evaluator and disassembler gaps are characterised exactly with partial theorems and decide witnesses. The translator is tied to the runtime maps (keyword_from_atom, keyword_to_atom, prims, prim_map), and the oracle compiles and runs each operator through both compilers, every runner version, the stepping evaluator and compile-time evaluation against clvmr.",
            "Finite domain, so exhaustive evaluation is a proof; the purpose-built extractor errors on unrecognised source shapes; operator semantics are clvmr's; two open findings.",
            "DESIGN.md §4 C20"),
    "C09": ("Lean 4 theorems over hand models of both printers and both readers (atom, token-stream and tree level) plus exhaustive differential run and re-read oracle",
            "Kernel-checked for every CLVM value and every operator-set version, no size bounds: the classic disassembled text assembles to the identical value unless an atom is printed as a quoted string containing a backslash (the listed defect; the hypothesis is shown exact, witnessed by decide, and removed for the proposed one-line repair). In the fixed integer mode the modern print of the converted value is read by the modern reader as one form with the identical value and by the classic assembler to the identical value; the same for any compilation result without bare symbol atoms, so the CLI text denotes the library bytes (decide witness for the bareword case). The writer stack machine is proved equal to the recursive writer. Models and real code are run on every atom of length 0..2 (0..3 thorough) in seven positions x versions 0-3, special-character strings, keyword names, look-alikes, random trees, rich spellings, mutated text for both readers, and compiler outputs for literal-constant programs; printed text and re-read bytes are compared.",
            "Text is byte lists; UTF-8 validity and allocator limits are not modelled; keyword tables in the text model are hand-copied and compared with the runtime tables every run; legacy integer mode excluded as the property states; two open findings.",
            "DESIGN.md §4 C09"),
    "C04": ("Lean 4 proof over a rule-by-rule mirror of the classic optimiser (optimize_sexp, NodePath, pattern matcher) + output-equality correspondence + consensus oracle",
            "Every rewrite rule, sub_args, the path arithmetic (lookup_compose, the compose_paths loop, as_path/new) and the fixpoint driver are proved meaning-preserving and non-rejecting for arbitrary CLVM, any operator table with first/rest/cons, and all path byte patterns, on runs that avoid six decidable defect situations (strict-mode flags); each excluded situation is kernel-witnessed by a decide counterexample and replayed on the real code as an open finding: pair-headed forms, nil or top-bit path atoms under substitution, sign-extended and >=4-byte top-bit atoms in path_optimizer (get_u32 little-endian), very long path atoms (stack overflow). Memo transparency is proved; termination is not (fuel-bounded model). The model equals optimize_sexp / run_optimizer on 352k cases (quick: all trees <= 9 nodes over a reduced alphabet, grammar-exhaustive expressions, path atoms of 0..9 bytes in every class, f/r chains up to 80, re-rooting) and 1.47M (thorough); the oracle compares consensus values before and after optimisation.",
            "Operators are a parameter; the full unconditioned statement is false on the unchanged tree (six open findings with proposed fix diffs); model<->code tie is differential.",
            "DESIGN.md §4 C04"),
    "C19": ("Lean 4 invariant proof over a step model of the temp-file + rename protocol, plus kill-at-crash-point / strace / concurrent-process validation",
            "Kernel-checked, for every interleaving of any number of writers (atomic_write_file / gentle_overwrite as step programs over a names->inodes file system) and piecewise readers, every failing operation, every kill point, all data and write chunkings: the output path always holds its initial or some writer's complete contents; every reader assembles such a content; only a complete rename changes the target; a same-contents call returns Ok even if every later operation fails; an undisturbed fault-free call leaves exactly its data. Hypothesis: temp name != target name, shown necessary by a decide witness. The model is tied to the code by one child process per entry x previous state x directory mode x crash point (hook --cfg chialisp_verif) compared with the model (result, contents, hook sequence, leftovers), by strace traces mapped to the model's operation alphabet, and by 1-8 concurrent writer processes with polling readers.",
            "POSIX rename(2) atomicity, fd->inode binding and O_EXCL are assumptions built into the model; partial writes inside write_all are seen through strace and RLIMIT_FSIZE only; durability across power loss is not claimed; the model<->code tie is differential.",
            "DESIGN.md §4 C19"),
    "C18": ("Lean 4 proof over a writer model of the preprocessor traversal, plus recorded read_new_file correspondence",
            "Kernel-checked: every non-embed, non-nested-mod read is a pseudo-file or is listed; every listed name is the first match in search order and is a file actually read; the listing terminates on ranked (acyclic) include graphs without nested mods, a self-include exhausts every fuel. The full inclusion is refuted by decide witnesses: embed-file targets and includes inside a nested mod are not listed (open findings, fix diff proposed). The model is tied to the code by gather_dependencies versus recorded read_new_file calls on generated include graphs (depth 0-4, 4 dialects, up to 3 search directories, all orders) and by include-cycle cases.",
            "Forms are abstracted to include / embed / nested-mod / other; macro-generated includes are not modelled; reads are compared as sets; the classic compiler's reads are not observable through CompilerOpts; the termination theorem is restricted to nested-mod-free programs.",
            "DESIGN.md §4 C18"),
    "C06": ("Lean 4 simulation proofs (both directions) over a hand model of the RunStep machine + exhaustive and random correspondence with clvm::run and clvmr",
            "Kernel-checked, for every operator table agreeing with clvmr on i/c/f/r, both integer modes, any prim map: on every run that takes no flagged branch (executable predicate flagsOf = []) the stepping evaluator returns v iff consensus returns v, and fails iff consensus fails (soundness, completeness, both failure directions, fuel monotonicity). Each flagged class (((X)...) heads, operator by name, integer-is-name incl. opcodes 61/62, non-minimal operator atom, sign-padded path, zero path, legacy zero) is shown by a decide witness to break the unconditioned statement; each is an open finding. Model tied to clvm::run by all trees <= 7 nodes over the core alphabet x 3 environments, random typed programs over all modelled operators in every atom spelling, compiled programs, and deliberately flagged variants, including error classes and result spellings; the stepper-vs-clvmr oracle runs on the implementation alone.",
            "Operators are a parameter (clvmr's on both sides); cost / step limits and softfork are outside; BLS/secp/keccak/modpow/% cases are oracle-only; the nested run of ((X)...) is a parameter.",
            "DESIGN.md §4 C06"),
    "C12": ("Lean 4 invariants over a hand model of CldbRun::step on the C06 machine + row-text correspondence + clvmr re-evaluation oracle",
            "Kernel-checked for all inputs: rows are numbered by position and never Throw; the end row is exactly the step machine's result; every row of an operator other than a/i records one machine application of that operator to those arguments (in fixed mode, clvmr's apply_op on the converted operands). Partial: final = consensus and hex = source inherit C06's no-flag hypothesis; i/a rows can be false (decide witness, open finding cldb:i-row). Model tied to CldbRun by exact row texts on compiled, generated and exhaustive small programs, source- and hex-supplied; the oracle re-evaluates every operator row with clvmr and checks numbering, end row, and hex-vs-source.",
            "Locations, Function, Env* keys, Argument-Refs and the hierarchical -t view are not modelled; the printer lives in the driver.",
            "DESIGN.md §4 C12"),
    "C17": ("non-interference oracle on compiled programs for every parameter the real check reports unused; Lean theorem that a path reads only its own binding",
            "Programs with 1..8 lower-case parameters (flat, nested, dotted; each used directly, through helpers/inlines/lets/lambdas, under a condition, only in a failing branch, or not at all; plus explicit-path programs) are given to the real check_unused; for every reported parameter, pairs of argument trees differing only in it are run through the compiled program with clvmr and must behave identically (same value or both fail). Kernel-checked part: for all patterns and values, what a program reads through one parameter's path depends only on that parameter's binding (coincidence lemma from the C01 path theorem). The evaluator (mash_conditions / shrink_bodyform) is not modelled; three genuine defect classes are listed in known_findings.json.",
            "Differential and generator-bounded; the evaluator itself is not modelled.",
            "DESIGN.md §4 C17"),
    "C15": ("Lean 4 invariant proof over a state-for-state model of the byte-at-a-time reader + full located-tree correspondence + independent slice oracle",
            "Kernel-checked for ALL texts: streaming (any chunking through push/finalize) = whole parse; one invariant over parser states gives that every returned form is well-located (leaf location = exactly the token's bytes incl. quotes; every list node and everything below it inside that list's delimiters), stated strictly for forms without the recorded defect shapes (each witnessed by a decide theorem on the real witness text) and unconditionally with them admitted; reader error locations are non-empty in-bounds byte ranges (no exclusion); reader totality. Byte-offset statements assume tab-free text. Model tied to code by comparing the full located tree / error of parse_sexp and ParsePartialResult on generated re-laid-out programs of every token kind, all shipped sources, mutations, truncations at every offset, token soup; the oracle slices every leaf from the text independently; compiler-error locations are oracle-only over 6 dialect sigils.",
            "Open findings listed in known_findings.json; compiler error locations and Srcloc::overlap/len are not covered by theorems; model/code tie is differential.",
            "DESIGN.md §4 C15"),
    "C16": ("differential run of real REPL sessions against compiled code and the Lean source semantics; Lean theorem for argument capture",
            "REPL sessions (definitions then a closed or open expression from the program generator) are run on the real Repl; the printed residual is compiled back inside (mod PARAMS defs residual) and must agree with (mod PARAMS defs original) on every argument tree where the original returns a value, and with Lang.evalSrc. Kernel-checked part: names captured from a parameter pattern denote what source-level destructuring binds (shared path theorem). The reduction engine shrink_bodyform is not modelled; genuine defects found (free variables / let-bound names quoted inside compiled `if` fragments) are in known_findings.json.",
            "Differential and generator-bounded; Lang.evalSrc trusted as the meaning.",
            "DESIGN.md §4 C16"),
    "C03": ("differential run of the classic compiler against the Lean source semantics and against the modern cl21 build; Lean theorems for parameter path assignment (NodePath/optimiser theorems shared with C04)",
            "Classic-dialect programs from the generator (defun, defun-inline with destructuring, defmacro templates, defconstant, if/list/qq, 1..40 parameters) are compiled by the real classic compiler, run by clvmr and compared with Lang.evalSrc (Lean); the same text with the cl21 sigil is compiled by the modern compiler and both builds must agree. Kernel-checked: the parameter-path assignment is correct for all patterns and argument values (shared with C01); the classic optimiser's soundness is C04's theorem set.",
            "Differential and generator-bounded for the classic compiler's macro/com/opt machinery; Lean kernel for the path algebra; Lang.evalSrc trusted as the meaning.",
            "DESIGN.md §4 C03"),
    "C13": ("Lean 4 proof on the byte-tied core compiler model (symbol table, extraction and call through it) + correspondence of table, path and call program against the real compiler + oracle on real symbol tables",
            "Kernel-checked for all CLVM trees and any hash function: path_to_function is sound and complete. Kernel-checked for every well-formed program of the core language (mod, possibly recursive non-inline functions with arbitrary parameter patterns, operators, lazy if, calls) in non-optimising builds, for any hash function H: the table reported next to the emitted program (add_defun's <hash>, <hash>_arguments, <hash>_left_env, __chia__main_arguments) is true of it — (truth, assuming tree-hash injectivity, shown satisfiable) a tree whose hash is a key is exactly the compiled code of the named live function, occurs in the program, the recorded arguments are that function's, and the program compose_run_function builds (extract_program_and_env, path_to_function, rewrite_in_program) evaluates to v whenever the source-level call returns v; (presence) every live function's code occurs at the path the environment layout gives, path_to_function finds it and its three entries exist, its own unless another live function has the same code hash; (no dead entries) tree-shaken functions are never named. The model (table, emitted program, path, rewritten call program; H = sha256) must equal the real compile_file / CLI output and the real extraction chain on generated core programs with 0..8 functions, duplicated functions and hand-written witnesses. Everything else (all modern dialects, -O on/off, inlines, lets, lambdas, constants) is decided by the oracle on the implementation: hashes, names, argument lists and runs (code on (ENV . args) and the real rewrite_in_program output) against Lang.evalSrc. Open finding C13-F1: functions compiled to identical code share one key, so the earlier one has no entry (kernel-checked as identical_code_loses_an_entry).",
            "Theorems are partial: core language, non-optimising build; the truth clause assumes tree-hash injectivity; source_file is not modelled; extract_program_and_env / rewrite_in_program are modelled on the CLVM value and tied on compiled programs only; optimising builds and the classic compiler are oracle-only; Lang.evalSrc is trusted as the meaning for non-core programs.",
            "DESIGN.md §4 C13"),
    "C02": ("differential run of every option set / dialect of the real compiler against each other and against the Lean source semantics; Lean theorems for the shared path algebra (pass theorems staged)",
            "For generated programs of every dialect: all builds that differ only in optimisation (CLI -O, compile_file optimize x frontend_opt x classic post-optimiser) and, within a value-semantics group, in dialect sigil are compiled by the real compiler and run by clvmr; every pair of value-returning builds must agree, each must equal Lang.evalSrc (Lean) whenever that returns, and switching -O / the post-optimiser on must not turn a compiling value-returning build into a failing one. Kernel-checked part: the argument-addressing algebra shared by all builds (C01 Layer A); the CLVM-level pass soundness theorems (double-apply, null, brief path, classic optimiser via C04) are staged in Props/C02.lean as they are completed. Known genuine defects are listed in known_findings.json.",
            "Differential, generator-bounded for the optimisers themselves (CSE, de-inlining, fe_opt, strategy optimiser are not modelled); Lean kernel for the path algebra; Lang.evalSrc trusted as the language's meaning.",
            "DESIGN.md §4 C01/C02"),
    "C01": ("Lean 4 theorems for the code generator's environment/path algebra + differential run of the real compiler against a Lean source-semantics interpreter",
            "Proved for all parameter patterns (nested, dotted, (@ name pat) captures, any width) and all argument values: the path create_name_lookup_ computes selects exactly the value source-level destructuring binds to that name, unaddressable names are exactly the unbound ones, argument paths sit in the right half of the (functions . arguments) environment. The model of that function is tied to the code by comparing the paths the real compiler emits for (mod PAT NAME) over generated patterns of 1..40 names. The full property (compiled program returns v whenever the source meaning is v) is NOT proved for the whole compiler: it is decided differentially — programs from a scope-tracking generator (every dialect sigil x feature strata) are compiled by the real compiler (CLI path with and without -O), run by clvmr and compared with Lang.evalSrc, a call-by-value interpreter of the source tree written in Lean. Genuine defects found this way are listed in known_findings.json (cl22 leaked names, strict-cl-21 -O, signed paths in the classic optimiser) and one was repaired (fix: 3b659e6).",
            "Lean kernel + the three standard axioms for Layer A; for the rest the assurance is differential and generator-bounded; Lang.evalSrc is trusted as the statement of the language's meaning; clvmr is the evaluator oracle.",
            "DESIGN.md §4 C01"),
    "C07": ("Lean 4 theorems over a hand model of the converters/hashes/equality + exhaustive correspondence run",
            "Kernel-checked theorems for all values, both integer modes and any hash function: toClvm(fromClvm v)=v; rich tree hash = consensus tree hash of the CLVM form; symbol-table hash likewise on readable values; == is byte identity of fixed-mode encodings and equal values hash alike on readable values (reader/converter outputs, proved readable); the Readable hypothesis shown necessary by a decide witness. The hand model is tied to the code by running model and implementation on every atom of length 0..2 (0..3 thorough), small trees, boundary/random atoms in both modes, and the property oracle is evaluated on the implementation alone.",
            "Lean kernel + the three standard axioms; model<->code tie is differential (generator-bounded); SHA-256 abstract in theorems; std Hash compared through DefaultHasher outputs.",
            "DESIGN.md §4 C07"),
}

NOT_YET = {
}


def main():
    props = [json.loads(l) for l in open(os.path.join(ROOT, "properties.jsonl"))]
    checks = []
    na = []
    for p in props:
        pid = p["id"]
        if pid in CHECKS:
            tech, text, note, ref = CHECKS[pid]
            checks.append({
                "property_id": pid,
                "quick_cmd": f"./check {pid} quick",
                "thorough_cmd": f"./check {pid} thorough",
                "evidence_file": f"evidence/{pid}.json",
                "replay_cmd_template": f"./check {pid} quick --replay {{path}}",
                "engine": "lean4-model+cvh",
                "level_claimed": {"category": "proof", "text": text, "design_ref": ref},
                "level_note": note,
                "technique": tech,
            })
        else:
            na.append({"property_id": pid, "reason": NOT_YET.get(pid, "check not built yet (work in progress; see DESIGN.md §7 for the order of construction)")})
    man = {
        "version": 1,
        "setup_cmd": "./setup.sh",
        "hooks": {
            "guard": "--cfg chialisp_verif",
            "enable": "harness/.cargo/config.toml passes RUSTFLAGS '--cfg chialisp_verif' to every build of the cvh harness crate (path dependency on /repo)",
            "baseline_off_cmd": "cd /repo && RUSTUP_TOOLCHAIN=stable-x86_64-unknown-linux-gnu CARGO_NET_OFFLINE=true cargo test --workspace --no-fail-fast --offline",
            "source_commits": ["51db9dee1a63b05cabf878093b4794cebe1975ad"],
            "add_only": True,
        },
        "engines": [
            {"name": "lean4-model+cvh", "path": "lean/ + harness/ + tools/",
             "serves_properties": [c["property_id"] for c in checks],
             "kind_free_text": "Lean 4 model and kernel-checked theorems (lean/ChialispModel), native model driver modeld, Rust correspondence harness cvh calling the real library, python driver (tools/) that diffs them and evaluates the property-level oracle"},
        ],
        "checks": checks,
        "notes": "See DESIGN.md. Every check: (1) lake build of Props/<ID>.lean + '#print axioms' audit, (2) correspondence model vs implementation on generated cases, (3) property-level oracle on the implementation; known genuine defects are listed in known_findings.json.",
        "not_applicable": na,
    }
    json.dump(man, open(os.path.join(ROOT, "MANIFEST.json"), "w"), indent=1)


if __name__ == "__main__":
    main()
