#!/usr/bin/env python3
"""Writes /verif/MANIFEST.json from the table below (kept in one place so it stays valid)."""
import json
import os

ROOT = os.path.dirname(os.path.dirname(os.path.abspath(__file__)))

# id -> (technique, level text, level note, design ref)
CHECKS = {
}

NOT_YET = {
}


def main():
    props = [json.loads(l) for l in open(os.path.join(ROOT, "properties.jsonl"))]
    checks = []
    na = []
    for p in props:
        pid = p["id"]
        if pid in CHECKS:
            tech, text, note, ref = CHECKS[pid]
            checks.append({
                "property_id": pid,
                "quick_cmd": f"./check {pid} quick",
                "thorough_cmd": f"./check {pid} thorough",
                "evidence_file": f"evidence/{pid}.json",
                "replay_cmd_template": f"./check {pid} quick --replay {{path}}",
                "engine": "lean4-model+cvh",
                "level_claimed": {"category": "proof", "text": text, "design_ref": ref},
                "level_note": note,
                "technique": tech,
            })
        else:
            na.append({"property_id": pid, "reason": NOT_YET.get(pid, "check not built yet (work in progress; see DESIGN.md §7 for the order of construction)")})
    man = {
        "version": 1,
        "setup_cmd": "./setup.sh",
        "hooks": {
            "guard": "--cfg chialisp_verif",
            "enable": "harness/.cargo/config.toml passes RUSTFLAGS '--cfg chialisp_verif' to every build of the cvh harness crate (path dependency on /repo)",
            "baseline_off_cmd": "cd /repo && RUSTUP_TOOLCHAIN=stable-x86_64-unknown-linux-gnu CARGO_NET_OFFLINE=true cargo test --workspace --no-fail-fast --offline",
            "source_commits": [],
            "add_only": True,
        },
        "engines": [
            {"name": "lean4-model+cvh", "path": "lean/ + harness/ + tools/",
             "serves_properties": [c["property_id"] for c in checks],
             "kind_free_text": "Lean 4 model and kernel-checked theorems (lean/ChialispModel), native model driver modeld, Rust correspondence harness cvh calling the real library, python driver (tools/) that diffs them and evaluates the property-level oracle"},
        ],
        "checks": checks,
        "notes": "See DESIGN.md. Every check: (1) lake build of Props/<ID>.lean + '#print axioms' audit, (2) correspondence model vs implementation on generated cases, (3) property-level oracle on the implementation; known genuine defects are listed in known_findings.json.",
        "not_applicable": na,
    }
    json.dump(man, open(os.path.join(ROOT, "MANIFEST.json"), "w"), indent=1)


if __name__ == "__main__":
    main()
