#!/usr/bin/env python3
"""tools/seeded_adopt.py <demo-dir> <seed-id> <verify-output-file> [note]
Copies a confirmed seeded change into /verif/seeded/<seed-id>/ (patch.diff, the demonstration, meta.json with what
it breaks, what it needs to manifest, and what was run to confirm it / which checks caught it)."""
import json
import os
import re
import shutil
import sys

ROOT = os.path.dirname(os.path.dirname(os.path.abspath(__file__)))


def main():
    demo, sid, outf = sys.argv[1:4]
    note = sys.argv[4] if len(sys.argv) > 4 else ""
    dst = os.path.join(ROOT, "seeded", sid)
    if os.path.exists(dst):
        shutil.rmtree(dst)
    os.makedirs(dst)
    shutil.copy(os.path.join(demo, "patch.diff"), os.path.join(dst, "patch.diff"))
    ddst = os.path.join(dst, "demo")
    def ignore(d, names):
        return [n for n in names if n in ("target", "Cargo.lock", ".git") or n.endswith((".o", ".rlib"))]
    shutil.copytree(demo, ddst, ignore=ignore)
    for junk in ("patch.diff", "meta.json"):
        p = os.path.join(ddst, junk)
        if os.path.exists(p):
            os.remove(p)
    # drop anything large that slipped through
    for dp, dn, fn in os.walk(ddst):
        for f in fn:
            p = os.path.join(dp, f)
            if os.path.getsize(p) > 300_000:
                os.remove(p)
    meta = {}
    mp = os.path.join(demo, "meta.json")
    if os.path.exists(mp):
        try:
            meta = json.load(open(mp))
        except Exception:
            meta = {"raw_meta": open(mp).read()[:2000]}
    out = open(outf).read()
    ran = {"demo_clean_rc": None, "demo_patched_rc": None, "tests": None, "checks": {}}
    for line in out.split("\n"):
        m = re.match(r"demo-clean rc=(\d+)", line)
        if m:
            ran["demo_clean_rc"] = int(m.group(1))
        m = re.match(r"demo-patched rc=(\d+)", line)
        if m:
            ran["demo_patched_rc"] = int(m.group(1))
        m = re.match(r"tests rc=(\d+)\s*(.*)", line)
        if m:
            ran["tests"] = {"rc": int(m.group(1)), "summary": m.group(2).strip()}
        m = re.match(r"check (\S+) rc=(\d+) (.*)", line)
        if m:
            ran["checks"][m.group(1)] = {"rc": int(m.group(2)), "output": m.group(3).strip()[:400],
                                         "caught": int(m.group(2)) != 0 and "VIOLATION" in m.group(3)}
    meta["seed_id"] = sid
    import subprocess
    meta["base_commit"] = subprocess.run(["git", "-C", "/repo", "rev-parse", "HEAD"], capture_output=True, text=True).stdout.strip()
    meta["confirmed"] = {
        "how": "tools/seeded_verify.sh: scratch worktree of /repo HEAD; demo.sh on the clean tree; git apply patch.diff; "
               "cargo nextest run --workspace (pinned suite); demo.sh on the patched tree; ./check <ID> quick against the "
               "patched worktree through a private copy of /verif (VERIF_REPO); worktree and build output removed",
        "results": ran,
    }
    if note:
        meta["note"] = note
    json.dump(meta, open(os.path.join(dst, "meta.json"), "w"), indent=1)
    print(json.dumps(ran))


if __name__ == "__main__":
    main()
