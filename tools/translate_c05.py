#!/usr/bin/env python3
"""translate_c05.py — regenerate from the CURRENT Rust sources
  * lean/ChialispModel/Generated/Statics.lean: every item-level `static`, `lazy_static!`,
    `thread_local!` (and their types) under src/ (non-test), classified mutable / immutable;
  * lean/ChialispModel/Generated/IterSites.lean: every iteration over a HashMap/HashSet-typed
    binding, field, static or call result in src/compiler and src/classic/clvm_tools/stages/stage_2
    (`.iter()`, `.keys()`, `.values()`, `for .. in`, `.into_iter()`, `.drain()`, set algebra, retain),
    with file, enclosing fn, receiver and the syntactic consumer shape, merged with the
    hand-maintained classification table tools/c05_sites.json (key: file|fn|recv|method|shape).

Heuristic, purpose-built (regex + bracket matching); a shape it cannot read raises ExtractError."""
import json
import os
import re
import sys

sys.path.insert(0, os.path.dirname(os.path.abspath(__file__)))
from rustsrc import ExtractError, blank_comments, match_bracket, skip_string, split_top, squeeze  # noqa: E402

ROOT = os.path.dirname(os.path.dirname(os.path.abspath(__file__)))
TABLE = os.path.join(ROOT, "tools", "c05_sites.json")

INTERIOR = re.compile(r"\b(Atomic[A-Z]\w*|Mutex|RwLock|RefCell|Cell|OnceCell|OnceLock|UnsafeCell|LazyCell|LazyLock|Condvar)\b")
ITER_METHODS = ["iter", "iter_mut", "keys", "values", "values_mut", "into_iter", "drain", "into_keys", "into_values",
                "union", "intersection", "difference", "symmetric_difference", "retain"]
TRANSPARENT = {"borrow", "borrow_mut", "clone", "as_ref", "as_mut", "unwrap", "deref", "to_owned", "cloned", "lock"}


def rust_files(repo, sub):
    out = []
    base = os.path.join(repo, sub)
    for dp, dn, fn in os.walk(base):
        dn[:] = sorted(d for d in dn if d != "tests")
        for f in sorted(fn):
            if f.endswith(".rs") and not f.endswith("_test.rs") and f != "tests.rs":
                out.append(os.path.join(dp, f))
    return out


def strip_test_modules(src):
    """blank out `#[cfg(test)] mod x { ... }` and `#[test] fn ..{..}` bodies"""
    out = src
    for m in list(re.finditer(r"#\[cfg\(test\)\]\s*(?:pub\s+)?mod\s+\w+\s*\{", src)):
        o = m.end() - 1
        try:
            c = match_bracket(src, o)
        except ExtractError:
            continue
        out = out[:m.start()] + re.sub(r"[^\n]", " ", src[m.start():c + 1]) + out[c + 1:]
    for m in list(re.finditer(r"#\[(?:cfg\(test\)|test)\]\s*(?:pub\s+)?fn\s+\w+", out)):
        o = out.find("{", m.end())
        if o < 0:
            continue
        try:
            c = match_bracket(out, o)
        except ExtractError:
            continue
        out = out[:m.start()] + re.sub(r"[^\n]", " ", out[m.start():c + 1]) + out[c + 1:]
    return out


def line_of(src, off):
    return src.count("\n", 0, off) + 1


# ------------------------------------------------------------------------------------------
# statics
# ------------------------------------------------------------------------------------------

def depth_at(src, off):
    """brace depth of offset (item level == 0, or inside `mod x {` / macro blocks we opened)"""
    d = 0
    i = 0
    while i < off:
        c = src[i]
        if c == '"':
            i = skip_string(src, i)
            continue
        if c == "{":
            d += 1
        elif c == "}":
            d -= 1
        i += 1
    return d


def extract_statics(repo):
    items = []
    for path in rust_files(repo, "src"):
        rel = os.path.relpath(path, repo)
        src = strip_test_modules(blank_comments(open(path).read()))
        # macro blocks
        spans = []
        for m in re.finditer(r"\b(lazy_static|thread_local)!\s*\{", src):
            o = m.end() - 1
            c = match_bracket(src, o)
            spans.append((o, c))
            body = src[o + 1:c]
            found = 0
            for sm in re.finditer(r"(?:pub(?:\([^)]*\))?\s+)?static\s+(ref\s+|mut\s+)?(\w+)\s*:\s*", body):
                # type up to the `=` at depth 0
                j = sm.end()
                depth = 0
                while j < len(body):
                    ch = body[j]
                    if ch in "<([{":
                        depth += 1
                    elif ch in ">)]}":
                        depth -= 1
                    elif ch == "=" and depth <= 0 and body[j + 1] != "=":
                        break
                    j += 1
                ty = squeeze(body[sm.end():j])
                kind = m.group(1)
                mutable = bool(INTERIOR.search(ty)) or (sm.group(1) or "").strip() == "mut"
                items.append({"name": sm.group(2), "file": rel, "line": line_of(src, o + 1 + sm.start()),
                              "kind": kind, "ty": ty, "mutable": mutable})
                found += 1
            if not found:
                raise ExtractError(f"{rel}: {m.group(1)}! block without a readable `static` item")
        # plain statics (outside macro blocks, outside fn bodies is not checked: a `static` inside a
        # function is just as global)
        for sm in re.finditer(r"(?<![\w'])static\s+(mut\s+)?([A-Z_][A-Z0-9_]*)\s*:\s*([^=;]+?)\s*=", src):
            if any(o <= sm.start() <= c for o, c in spans):
                continue
            ty = squeeze(sm.group(3))
            mutable = bool(sm.group(1)) or bool(INTERIOR.search(ty))
            items.append({"name": sm.group(2), "file": rel, "line": line_of(src, sm.start()),
                          "kind": "static", "ty": ty, "mutable": mutable})
        # anything that smells like process-global state but was not read above
        for sm in re.finditer(r"\b(static\s+mut|lazy_static!|thread_local!|once_cell::|OnceLock|LazyLock)\b", src):
            if not any(o - 20 <= sm.start() <= c for o, c in spans) and "static mut" in sm.group(0):
                if not any(it["file"] == rel and it["line"] == line_of(src, sm.start()) for it in items):
                    raise ExtractError(f"{rel}:{line_of(src, sm.start())}: unread `static mut`")
    items.sort(key=lambda it: (it["file"], it["line"]))
    return items


# ------------------------------------------------------------------------------------------
# hash-typed names
# ------------------------------------------------------------------------------------------

HASHY = re.compile(r"\bHash(Map|Set)\s*(<|::)")


def kind_of_type(ty):
    m = re.search(r"\bHash(Map|Set)\b", ty)
    return ("map" if m.group(1) == "Map" else "set") if m else None


def global_hash_names(repo):
    """struct fields, statics and fn/method return types that are HashMap/HashSet (anywhere in src)"""
    names = {}
    btree = set()
    for path in rust_files(repo, "src"):
        src = strip_test_modules(blank_comments(open(path).read()))
        # struct fields
        for m in re.finditer(r"\bstruct\s+\w+(?:<[^{;]*>)?\s*\{", src):
            o = m.end() - 1
            c = match_bracket(src, o)
            for f in split_top(src[o + 1:c]):
                fm = re.match(r"(?:#\[[^\]]*\]\s*)*(?:pub(?:\([^)]*\))?\s+)?(\w+)\s*:\s*(.+)$", f, re.S)
                if not fm:
                    continue
                k = kind_of_type(fm.group(2))
                if k:
                    names.setdefault(fm.group(1), set()).add("field:" + k)
                elif re.search(r"\bBTree(Map|Set)\b", fm.group(2)):
                    btree.add(fm.group(1))
        # fn return types
        for m in re.finditer(r"\bfn\s+(\w+)\s*(?:<[^>]*>)?\s*\(", src):
            o = m.end() - 1
            try:
                c = match_bracket(src, o)
            except ExtractError:
                continue
            rest = src[c + 1:c + 300]
            rm = re.match(r"\s*->\s*([^{;]+?)\s*(\{|;|where\b)", rest, re.S)
            if rm:
                k = kind_of_type(rm.group(1))
                if k:
                    names.setdefault(m.group(1), set()).add("fn:" + k)
        # statics
        for m in re.finditer(r"static\s+(?:ref\s+)?(\w+)\s*:\s*([^=;]+?)\s*=", src):
            k = kind_of_type(m.group(2))
            if k:
                names.setdefault(m.group(1), set()).add("static:" + k)
    return names, btree


def struct_table(repo):
    """struct name -> {field: type text} over all of src/"""
    tbl = {}
    for path in rust_files(repo, "src"):
        src = strip_test_modules(blank_comments(open(path).read()))
        for m in re.finditer(r"\bstruct\s+(\w+)(?:<[^{;]*>)?\s*\{", src):
            o = m.end() - 1
            c = match_bracket(src, o)
            fields = {}
            for f in split_top(src[o + 1:c]):
                fm = re.match(r"(?:#\[[^\]]*\]\s*)*(?:pub(?:\([^)]*\))?\s+)?(\w+)\s*:\s*(.+)$", f, re.S)
                if fm:
                    fields[fm.group(1)] = squeeze(fm.group(2))
            tbl.setdefault(m.group(1), {}).update(fields)
    return tbl


def impl_ranges(src):
    out = []
    for m in re.finditer(r"\bimpl\b(?:\s*<[^>]*>)?\s*([^{;]*?)\{", src):
        hdr = m.group(1)
        ty = hdr.split(" for ")[-1].strip()
        tm = re.match(r"(?:&\s*)?(\w+)", ty)
        if not tm:
            continue
        o = m.end() - 1
        try:
            out.append((o, match_bracket(src, o), tm.group(1)))
        except ExtractError:
            pass
    return out


def struct_in_type(ty, structs):
    """the (first) known struct named inside a type expression such as `&Rc<LetData>`"""
    for w in re.findall(r"[A-Z]\w*", ty):
        if w in structs:
            return w
    return None


def resolve_receiver(recv, fn_text, impl_ty, structs):
    """type text of a dotted receiver `a.b.c` if it can be followed through declared types;
    returns (type text or None)"""
    segs = [x for x in re.split(r"\.", re.sub(r"\([^()]*\)", "()", recv)) if x]
    segs = [x for x in segs if x.replace("()", "") not in TRANSPARENT]
    if not segs or any(x.endswith("()") for x in segs):
        return None
    base = segs[0].strip("&* ")
    if base == "self":
        cur = impl_ty
    else:
        m = re.search(r"(?:\blet\s+(?:mut\s+)?|[(,]\s*(?:mut\s+)?)" + re.escape(base) + r"\s*:\s*([^=;,{)]+(?:<[^=;{]*>)?)", fn_text)
        if not m:
            # pattern-bound variables carry no annotation; accept a variable named after its struct
            # (`letdata` : LetData, `compileform` : CompileForm)
            cand = [sn for sn in structs if sn.lower() == base.replace("_", "").lower()]
            if len(cand) != 1 or len(segs) == 1:
                return None
            cur = cand[0]
        else:
            cur = struct_in_type(m.group(1), structs)
            if len(segs) == 1:
                return m.group(1)
    if cur is None:
        return None
    ty = None
    for f in segs[1:]:
        if cur not in structs or f not in structs[cur]:
            return None
        ty = structs[cur][f]
        cur = struct_in_type(ty, structs)
    return ty


def functions(src):
    """(name, body_open, body_close) for every fn with a body, innermost-first lookup later"""
    out = []
    for m in re.finditer(r"\bfn\s+(\w+)", src):
        i = m.end()
        n = len(src)
        # walk to the body `{` (skipping generics/params/return type/where clause) or `;`
        depth = 0
        while i < n:
            c = src[i]
            if c in "([":
                try:
                    i = match_bracket(src, i) + 1
                except ExtractError:
                    break
                continue
            if c == "<":
                depth += 1
            elif c == ">" and src[i - 1] != "-" and depth > 0:
                depth -= 1
            elif c == "{" and depth == 0:
                try:
                    out.append((m.group(1), m.start(), i, match_bracket(src, i)))
                except ExtractError:
                    pass
                break
            elif c == ";" and depth == 0:
                break
            i += 1
    return out


def local_hash_names(sig_and_body, globals_):
    """names bound in this fn (params, lets, closure/for patterns are ignored) that are hash-typed"""
    loc = {}
    # params and annotated lets:  name: ...HashMap<
    for m in re.finditer(r"(?:\blet\s+(?:mut\s+)?|[(,]\s*(?:mut\s+)?)(\w+)\s*:\s*([^=;{,()]*?\bHash(?:Map|Set)\b[^=;{),]*)", sig_and_body):
        loc[m.group(1)] = "local:" + kind_of_type(m.group(2))
    # let x = HashMap::new() / HashSet::new() / ::default() / ::from / with_capacity
    for m in re.finditer(r"\blet\s+(?:mut\s+)?(\w+)\s*=\s*(?:std::collections::)?Hash(Map|Set)\s*::\s*(?:<[^>]*>\s*::\s*)?\w+\s*\(", sig_and_body):
        loc[m.group(1)] = "local:" + ("map" if m.group(2) == "Map" else "set")
    # let x ... = ... .collect::<HashSet<..>>()
    for m in re.finditer(r"\blet\s+(?:mut\s+)?(\w+)\b[^;]*?collect\s*::\s*<\s*Hash(Map|Set)\b", sig_and_body):
        loc[m.group(1)] = "local:" + ("map" if m.group(2) == "Map" else "set")
    # `for (a, b) in X.iter()` where X : HashMap<K, V> is annotated and K / V are themselves hash collections
    for m in re.finditer(r"\bfor\s*\(\s*(\w+)\s*,\s*(\w+)\s*\)\s*in\s*&?\s*(\w+)(?:\.iter\(\)|\.iter_mut\(\))?\s*\{", sig_and_body):
        tm = re.search(r"\blet\s+(?:mut\s+)?" + re.escape(m.group(3)) + r"\s*:\s*HashMap\s*<(.*?)>\s*=", sig_and_body, re.S)
        if tm:
            parts = split_top(tm.group(1).replace("<", "(").replace(">", ")"))
            if len(parts) == 2:
                for nm, ty in ((m.group(1), parts[0]), (m.group(2), parts[1])):
                    if nm != "_" and re.match(r"\s*Hash(Map|Set)\b", ty):
                        loc[nm] = "local:" + kind_of_type(ty)
    # let x = <hash fn>(..) / y.clone() / self.field.clone() (one propagation round, twice)
    for _ in range(2):
        for m in re.finditer(r"\blet\s+(?:mut\s+)?(\w+)\s*=\s*&?\s*(?:mut\s+)?([\w\.:]+?)(\(\s*[^;]*?\))?\s*(?:\.clone\(\))?\s*;", sig_and_body):
            name, src_expr = m.group(1), m.group(2)
            last = re.split(r"\.|::", src_expr)[-1]
            if name in loc:
                continue
            if last in loc and not m.group(3):
                loc[name] = loc[last]
            elif last in globals_:
                kinds = globals_[last]
                if m.group(3) and any(k.startswith("fn:") for k in kinds):
                    loc[name] = "local:" + [k for k in kinds if k.startswith("fn:")][0][3:]
                elif not m.group(3) and any(k.startswith("field:") for k in kinds) and "." in src_expr:
                    loc[name] = "local:" + [k for k in kinds if k.startswith("field:")][0][6:]
    return loc


# ------------------------------------------------------------------------------------------
# iteration sites
# ------------------------------------------------------------------------------------------

def receiver_before(src, dot):
    """the receiver expression text ending just before offset `dot` (which is the '.')"""
    i = dot - 1
    while i >= 0 and src[i].isspace():
        i -= 1
    end = i + 1
    while i >= 0:
        c = src[i]
        if c == ")":
            # walk back to matching (
            depth = 0
            while i >= 0:
                if src[i] == ")":
                    depth += 1
                elif src[i] == "(":
                    depth -= 1
                    if depth == 0:
                        break
                i -= 1
            i -= 1
            continue
        if c == "]":
            depth = 0
            while i >= 0:
                if src[i] == "]":
                    depth += 1
                elif src[i] == "[":
                    depth -= 1
                    if depth == 0:
                        break
                i -= 1
            i -= 1
            continue
        if c.isalnum() or c in "_.:?":
            i -= 1
            continue
        if c.isspace():
            # allow line breaks inside a method chain: `foo\n   .bar()`
            j = i
            while j >= 0 and src[j].isspace():
                j -= 1
            if j >= 0 and (src[i + 1:i + 2] == "." or src[j] == "."):
                i = j
                continue
        break
    return squeeze(src[i + 1:end]).lstrip("&*")


def receiver_key(recv):
    """the last meaningful segment of a receiver expression"""
    segs = [s for s in re.split(r"\.|::", re.sub(r"\([^()]*\)", "()", re.sub(r"\([^()]*\)", "()", recv))) if s]
    for s in reversed(segs):
        nm = s.replace("()", "").replace("?", "").strip()
        if nm in TRANSPARENT or not nm:
            continue
        return nm, s.endswith("()")
    return None, False


def chain_after(src, close):
    """method names chained after offset `close` (the ')' of the iteration call), up to statement end"""
    names = []
    i = close + 1
    n = len(src)
    while i < n:
        m = re.match(r"\s*\.\s*(\w+)\s*(::\s*<)?", src[i:])
        if not m:
            break
        name = m.group(1)
        j = i + m.end()
        turbo = ""
        if m.group(2):
            # turbofish: find matching '>'
            depth = 1
            k = j
            while k < n and depth:
                if src[k] == "<":
                    depth += 1
                elif src[k] == ">" and src[k - 1] != "-":
                    depth -= 1
                k += 1
            tm = re.search(r"\b(Vec|HashSet|HashMap|BTreeMap|BTreeSet|String|Result|Option)\b", src[j:k])
            turbo = "<" + (tm.group(1) if tm else "?") + ">"
            j = k
        while j < n and src[j].isspace():
            j += 1
        if j < n and src[j] == "(":
            try:
                j = match_bracket(src, j) + 1
            except ExtractError:
                break
        names.append(name + turbo)
        i = j
        if src[i:i + 1] == "?":
            names.append("?")
            i += 1
    return names, i


def statement_start(src, off):
    i = off
    depth = 0
    while i > 0:
        c = src[i]
        if c in ")]}":
            depth += 1
        elif c in "([{":
            if depth == 0:
                return i + 1
            depth -= 1
        elif c == ";" and depth == 0:
            return i + 1
        i -= 1
    return 0


def body_tokens(body):
    toks = set()
    for pat, t in ((r"\.insert\(", "insert"), (r"\.remove\(", "remove"), (r"\.push\(", "push"), (r"\.push_str\(", "push"),
                   (r"\.extend\(", "extend"), (r"\breturn\b", "return"), (r"\bbreak\b", "break"), (r"\?\s*[;)\.]", "try"),
                   (r"\.append\(", "push"), (r"[^=!<>]=[^=]", "assign"), (r"\+=", "assign")):
        if re.search(pat, body):
            toks.add(t)
    return "+".join(sorted(toks)) or "pure"


def extract_sites(repo):
    globals_, btree = global_hash_names(repo)
    structs = struct_table(repo)
    sites = []
    subs = ["src/compiler", "src/classic/clvm_tools"]
    for sub in subs:
        for path in rust_files(repo, sub):
            rel = os.path.relpath(path, repo)
            src = strip_test_modules(blank_comments(open(path).read()))
            fns = functions(src)
            impls = impl_ranges(src)

            def impl_of(off):
                best = None
                for o, c, ty in impls:
                    if o < off < c and (best is None or o > best[0]):
                        best = (o, c, ty)
                return best[2] if best else None

            def enclosing(off):
                best = None
                for name, start, o, c in fns:
                    if o < off < c and (best is None or o > best[2]):
                        best = (name, start, o, c)
                return best

            seen = set()
            # explicit iteration methods
            for m in re.finditer(r"\.\s*(" + "|".join(ITER_METHODS) + r")\s*\(", src):
                fn = enclosing(m.start())
                if not fn:
                    continue
                recv = receiver_before(src, m.start())
                key, is_call = receiver_key(recv)
                if key is None:
                    continue
                locs = local_hash_names(src[fn[1]:fn[3]], globals_)
                kind = None
                bare = re.fullmatch(r"[\w]+(\(\))?((\.(borrow|borrow_mut|clone|as_ref|unwrap)\(\))*)", recv.replace(" ", "")) is not None
                if key in locs and bare:
                    kind = locs[key]
                elif key in globals_:
                    ks = sorted(globals_[key])
                    want = "fn:" if is_call else None
                    pick = [k for k in ks if (k.startswith("fn:") if want else not k.startswith("fn:"))]
                    if pick and ("." in recv or "::" in recv or pick[0].startswith("static:") or is_call):
                        kind = pick[0]
                if kind is None:
                    continue
                if kind.startswith("field:"):
                    rty = resolve_receiver(recv, src[fn[1]:fn[3]], impl_of(m.start()), structs)
                    if rty is not None:
                        if not kind_of_type(rty):
                            continue            # resolved to a non-hash type (Vec / BTreeMap homonym)
                    else:
                        kind += "?unresolved"
                close = match_bracket(src, m.end() - 1)
                chain, end = chain_after(src, close)
                st = statement_start(src, m.start())
                head = squeeze(src[st:m.start()])[:200]
                method = m.group(1)
                if re.match(r"for\s+.*\bin\b", head) and not chain or (re.match(r"for\s", head) and re.search(r"\bin\s+[&\w\.\(\)\*]*$", head)):
                    # `for pat in recv.iter()...{ body }`
                    ob = src.find("{", end)
                    body = src[ob:match_bracket(src, ob) + 1] if ob >= 0 else ""
                    shape = "for[" + "|".join(chain) + "]{" + body_tokens(body) + "}"
                else:
                    shape = "|".join(chain) if chain else "(bare)"
                    lm = re.match(r"let\s+(?:mut\s+)?\w+\s*:\s*([^=]+)=", head)
                    if lm and chain and chain[-1].startswith("collect") and "<" not in chain[-1]:
                        tm = re.search(r"\b(Vec|HashSet|HashMap|BTreeMap|BTreeSet|String)\b", lm.group(1))
                        shape += "<" + (tm.group(1) if tm else "?") + ">"
                sites.append({"file": rel, "fn": fn[0], "recv": recv[-60:], "method": method, "shape": shape,
                              "line": line_of(src, m.start()), "kind": kind})
                seen.add(line_of(src, m.start()))
            # implicit: `for pat in [&[mut ]]name {`
            for m in re.finditer(r"\bfor\s+[^{};]*?\bin\s+(&\s*(?:mut\s+)?)?([\w\.]+(?:\(\))?(?:\.clone\(\))?)\s*\{", src):
                fn = enclosing(m.start())
                if not fn or line_of(src, m.start()) in seen:
                    continue
                recv = m.group(2)
                key, is_call = receiver_key(recv)
                locs = local_hash_names(src[fn[1]:fn[3]], globals_)
                kind = locs.get(key) if "." not in recv.replace(".clone()", "") else None
                if kind is None and key in globals_ and ("." in recv or is_call):
                    ks = sorted(globals_[key])
                    pick = [k for k in ks if k.startswith("fn:") == is_call]
                    kind = pick[0] if pick else None
                if kind is None:
                    continue
                if kind.startswith("field:"):
                    rty = resolve_receiver(recv, src[fn[1]:fn[3]], impl_of(m.start()), structs)
                    if rty is not None:
                        if not kind_of_type(rty):
                            continue
                    else:
                        kind += "?unresolved"
                ob = m.end() - 1
                body = src[ob:match_bracket(src, ob) + 1]
                sites.append({"file": rel, "fn": fn[0], "recv": recv[-60:], "method": "for", "shape": "for[]{" + body_tokens(body) + "}",
                              "line": line_of(src, m.start()), "kind": kind})
    sites.sort(key=lambda s: (s["file"], s["line"]))
    # identical (file, fn, recv, method, shape) within a function are numbered in source order
    seen_keys = {}
    for s in sites:
        base = "|".join([s["file"], s["fn"], s["recv"], s["method"], s["shape"]])
        seen_keys[base] = seen_keys.get(base, 0) + 1
        s["ord"] = seen_keys[base]
    return sites


def site_key(s):
    return "|".join([s["file"], s["fn"], s["recv"], s["method"], s["shape"]]) + ("" if s.get("ord", 1) == 1 else f"#{s['ord']}")


# ------------------------------------------------------------------------------------------
# rendering
# ------------------------------------------------------------------------------------------

def lstr(s):
    return '"' + s.replace("\\", "\\\\").replace('"', '\\"') + '"'


CLASSES = ["insertAll", "anyAll", "sortThenUse", "count", "setAlgebra", "mapDistinctKeys", "maxMin",
           "perElementIndependent", "notHashCollection", "notOutputAffecting", "reachClosure", "orderSensitive",
           "unclassified"]


def render_statics(items):
    L = ["/-", "  Generated/Statics.lean — GENERATED by tools/translate_c05.py; do not edit.",
         "  every `static` / `lazy_static!` / `thread_local!` item under src/ (non-test).", "-/", "",
         "namespace Gen", "",
         "structure StaticItem where", "  name : String", "  file : String", "  kind : String", "  ty : String",
         "  isMutable : Bool", "  deriving Repr, DecidableEq", "",
         "def statics : List StaticItem := ["]
    rows = [f"  ⟨{lstr(i['name'])}, {lstr(i['file'])}, {lstr(i['kind'])}, {lstr(i['ty'][:80])}, {'true' if i['mutable'] else 'false'}⟩" for i in items]
    L.append(",\n".join(rows))
    L += ["]", "", "/-- names of the statics with interior or declared mutability, in source order -/",
          "def mutableStatics : List String := (statics.filter (·.isMutable)).map (·.name)", "", "end Gen", ""]
    return "\n".join(L)


def render_sites(sites, table):
    L = ["/-", "  Generated/IterSites.lean — GENERATED by tools/translate_c05.py; do not edit.",
         "  every iteration over a HashMap/HashSet in src/compiler and stage_2, merged with the",
         "  hand-maintained classification tools/c05_sites.json (key file|fn|recv|method|shape).", "-/",
         "import ChialispModel.Sys.Purity", "",
         "namespace Gen", "open Purity", "",
         "structure IterSite where", "  file : String", "  fn : String", "  recv : String", "  method : String",
         "  shape : String", "  line : Nat", "  cls : ConsumerClass", "  deriving Repr", "",
         "def iterSites : List IterSite := ["]
    rows = []
    for s in sites:
        cls = table.get(site_key(s), {}).get("class", "unclassified")
        if cls not in CLASSES:
            raise ExtractError(f"c05_sites.json: unknown class {cls!r} for {site_key(s)}")
        rows.append(f"  ⟨{lstr(s['file'])}, {lstr(s['fn'])}, {lstr(s['recv'])}, {lstr(s['method'])}, {lstr(s['shape'])}, {s['line']}, .{cls}⟩")
    L.append(",\n".join(rows))
    L += ["]", "", "end Gen", ""]
    return "\n".join(L)


def write_if_changed(path, text):
    os.makedirs(os.path.dirname(path), exist_ok=True)
    if not os.path.exists(path) or open(path).read() != text:
        with open(path, "w") as fh:
            fh.write(text)


def translate(repo, lean_dir):
    items = extract_statics(repo)
    sites = extract_sites(repo)
    table = json.load(open(TABLE)) if os.path.exists(TABLE) else {}
    write_if_changed(os.path.join(lean_dir, "Generated", "Statics.lean"), render_statics(items))
    write_if_changed(os.path.join(lean_dir, "Generated", "IterSites.lean"), render_sites(sites, table))
    stale = sorted(k for k in table if k not in {site_key(s) for s in sites} and not k.startswith("_"))
    return {"statics": items, "sites": sites, "table": table, "stale_table_keys": stale}


if __name__ == "__main__":
    repo = sys.argv[1] if len(sys.argv) > 1 else os.environ.get("VERIF_REPO", "/repo")
    try:
        if len(sys.argv) > 2 and sys.argv[2] == "dump":
            for s in extract_sites(repo):
                print(f"{s['file']}:{s['line']} fn={s['fn']} recv={s['recv']} .{s['method']} shape={s['shape']} [{s['kind']}]")
            for i in extract_statics(repo):
                print(i)
        else:
            r = translate(repo, os.path.join(ROOT, "lean", "ChialispModel"))
            print("ok", len(r["statics"]), "statics,", len(r["sites"]), "sites, stale table keys:", len(r["stale_table_keys"]))
    except ExtractError as e:
        print("translate_c05: EXTRACTION FAILED:", e)
        sys.exit(1)
