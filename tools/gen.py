#!/usr/bin/env python3
"""Generators for CLVM values / programs.  A value is `bytes` (atom) or a 2-tuple (pair)."""
import itertools
import random

NIL = b""


# ---- consensus serialisation (python copy, used only to write protocol lines) ------------

def size_prefix(n):
    if n < 0x40:
        return bytes([0x80 | n])
    if n < 0x2000:
        return bytes([0xC0 | (n >> 8), n & 0xff])
    if n < 0x100000:
        return bytes([0xE0 | (n >> 16), (n >> 8) & 0xff, n & 0xff])
    if n < 0x8000000:
        return bytes([0xF0 | (n >> 24), (n >> 16) & 0xff, (n >> 8) & 0xff, n & 0xff])
    return bytes([0xF8 | (n >> 32), (n >> 24) & 0xff, (n >> 16) & 0xff, (n >> 8) & 0xff, n & 0xff])


def ser(v):
    out = bytearray()
    stack = [v]
    while stack:
        x = stack.pop()
        if isinstance(x, tuple):
            out.append(0xff)
            stack.append(x[1])
            stack.append(x[0])
        elif len(x) == 0:
            out.append(0x80)
        elif len(x) == 1 and x[0] < 0x80:
            out.append(x[0])
        else:
            out += size_prefix(len(x)) + x
    return bytes(out)


def hexv(v):
    return ser(v).hex()


def deser(b):
    """returns value; raises on malformed.  Iterative (values may be nested thousands deep)."""
    pos = 0
    n_total = len(b)
    # stack of partially built pairs: each frame is a list of the children read so far
    stack = []
    while True:
        if pos >= n_total:
            raise ValueError("short")
        c = b[pos]
        pos += 1
        if c == 0xff:
            stack.append([])
            continue
        if c == 0x80:
            val = b""
        elif c < 0x80:
            val = bytes([c])
        else:
            k = 0
            while c & (0x80 >> k):
                k += 1
            first = c & (0xff >> k)
            szb = bytes([first]) + b[pos:pos + k - 1]
            pos += k - 1
            n = int.from_bytes(szb, "big")
            r = b[pos:pos + n]
            if len(r) != n:
                raise ValueError("short")
            pos += n
            val = bytes(r)
        # attach the finished value to the innermost open pair(s)
        while True:
            if not stack:
                return val
            stack[-1].append(val)
            if len(stack[-1]) == 2:
                a, d = stack.pop()
                val = (a, d)
                continue
            break


def unhex(h):
    return deser(bytes.fromhex(h))


def lst(items, tail=NIL):
    r = tail
    for x in reversed(items):
        r = (x, r)
    return r


def int_atom(n):
    if n == 0:
        return b""
    l = (n.bit_length() + 8) // 8 if n > 0 else ((-n - 1).bit_length() + 8) // 8
    return n.to_bytes(l, "big", signed=True)


def show(v, depth=60):
    """readable rendering for samples (depth-limited: deeper structure is shown as `…`, so
    a value nested thousands of levels deep can never exhaust the Python stack)."""
    if isinstance(v, tuple):
        if depth <= 0:
            return "…"
        items = []
        n = 0
        while isinstance(v, tuple):
            if n >= 400:
                items.append("…")
                v = b""
                break
            items.append(show(v[0], depth - 1))
            v = v[1]
            n += 1
        if v != b"":
            items += [".", show(v, depth - 1)]
        return "(" + " ".join(items) + ")"
    if v == b"":
        return "()"
    if len(v) <= 2:
        return str(int.from_bytes(v, "big", signed=True)) if v == int_atom(int.from_bytes(v, "big", signed=True)) else "0x" + v.hex()
    return "0x" + v.hex()


# ---- exhaustive small trees --------------------------------------------------------------

def trees(leaves, nodes):
    """all trees with exactly `nodes` nodes (atoms and pairs both count) over `leaves`."""
    memo = {}

    def go(n):
        if n in memo:
            return memo[n]
        res = []
        if n == 1:
            res = list(leaves)
        elif n >= 3:
            for k in range(1, n - 1):
                for a in go(k):
                    for d in go(n - 1 - k):
                        res.append((a, d))
        memo[n] = res
        return res
    return go(nodes)


def trees_upto(leaves, nodes):
    out = []
    for n in range(1, nodes + 1):
        out.extend(trees(leaves, n))
    return out


# ---- random values -----------------------------------------------------------------------

BOUNDARY_ATOMS = [
    b"", b"\x00", b"\x01", b"\x7f", b"\x80", b"\xff", b"\x00\x00", b"\x00\x01", b"\x00\x7f", b"\x00\x80",
    b"\x00\xff", b"\xff\xff", b"\xff\x7f", b"\xff\x80", b"\x80\x00", b"\x7f\xff", b"\x01\x00",
    b"\x00\x00\x01", b"\xff\xff\xff", b"\x00\x80\x00", b"hello", b"a\\b", b'say "hi"', b"it's", b"( . )",
    b";x", b"#t", b"0x12", b"123", b"-5", b"\x00hello", bytes(32), bytes(range(32)), b"\xff" * 32,
]


def rand_atom(rng, small=False):
    r = rng.random()
    if r < 0.25:
        return rng.choice(BOUNDARY_ATOMS)
    if r < 0.6 or small:
        return int_atom(rng.randint(-300, 300))
    if r < 0.75:
        return bytes(rng.randrange(256) for _ in range(rng.randint(1, 4)))
    if r < 0.85:
        return bytes(rng.choice(b"abcdefghijklmnopqrstuvwxyz _\\\"'()#;.0123456789") for _ in range(rng.randint(1, 10)))
    if r < 0.95:
        return int_atom(rng.randint(-2 ** 70, 2 ** 70))
    return bytes(rng.randrange(256) for _ in range(rng.randint(5, 40)))


def rand_tree(rng, depth=4, small=False):
    if depth <= 0 or rng.random() < 0.35:
        return rand_atom(rng, small)
    if rng.random() < 0.5:
        return lst([rand_tree(rng, depth - 1, small) for _ in range(rng.randint(0, 4))])
    return (rand_tree(rng, depth - 1, small), rand_tree(rng, depth - 1, small))


# operator arities for generating mostly-valid programs: (opcode, min args, max args)
OPS = {
    "i": (3, 3, 3), "c": (4, 2, 2), "f": (5, 1, 1), "r": (6, 1, 1), "l": (7, 1, 1), "x": (8, 0, 2),
    "=": (9, 2, 2), ">s": (10, 2, 2), "sha256": (11, 0, 3), "substr": (12, 2, 3), "strlen": (13, 1, 1),
    "concat": (14, 0, 3), "+": (16, 0, 4), "-": (17, 0, 3), "*": (18, 0, 3), "/": (19, 2, 2),
    "divmod": (20, 2, 2), ">": (21, 2, 2), "ash": (22, 2, 2), "lsh": (23, 2, 2), "logand": (24, 0, 3),
    "logior": (25, 0, 3), "logxor": (26, 0, 3), "lognot": (27, 1, 1), "not": (32, 1, 1), "any": (33, 0, 3),
    "all": (34, 0, 3),
}


def rand_prog(rng, depth=4, env_depth=3, ops=None, wild=0.05):
    """random mostly-valid CLVM program."""
    ops = ops or list(OPS)
    r = rng.random()
    if depth <= 0 or r < 0.2:
        # path or quoted constant
        if rng.random() < 0.55:
            p = rng.choice([1, 2, 3, 4, 5, 6, 7, 8, 9, 10, 11, 12, 13, 14, 15, 0, 23, 47])
            return int_atom(p) if p else b""
        return (b"\x01", rand_tree(rng, 2, small=True))
    if r < 0.2 + wild:
        return rand_tree(rng, 3)
    if r < 0.32:
        # apply
        return lst([b"\x02", rand_prog(rng, depth - 1, env_depth, ops, wild) if rng.random() < 0.5
                    else (b"\x01", rand_prog(rng, depth - 1, env_depth, ops, wild)),
                    rand_prog(rng, depth - 1, env_depth, ops, wild)])
    name = rng.choice(ops)
    code, lo, hi = OPS[name]
    n = rng.randint(lo, hi)
    if rng.random() < 0.04:
        n = max(0, n + rng.choice([-1, 1]))
    args = [rand_prog(rng, depth - 1, env_depth, ops, wild) for _ in range(n)]
    tail = NIL if rng.random() > 0.02 else rand_atom(rng)
    return (bytes([code]), lst(args, tail))


def rand_env(rng, depth=3):
    return rand_tree(rng, depth, small=rng.random() < 0.7)


# ---- type-directed programs (mostly value-returning) -------------------------------------

def env_paths(env, limit=64):
    """[(path int, value)] for every node of env (breadth first)."""
    out = []
    q = [(1, env, 0)]
    while q and len(out) < limit:
        p, v, d = q.pop(0)
        out.append((p, v))
        if isinstance(v, tuple):
            # path of first child: p with a 0 bit inserted below the top bit
            top = 1 << d
            q.append(((p & (top - 1)) | (top << 1), v[0], d + 1))
            q.append(((p & (top - 1)) | top | (top << 1), v[1], d + 1))
    return out


class TypedGen:
    """expressions of a wanted kind ('int','atom','pair','any','bool') over a known env."""

    def __init__(self, rng, env, ops=None, wild=0.03):
        self.rng = rng
        self.env = env
        self.paths = env_paths(env)
        self.atoms = [(p, v) for p, v in self.paths if not isinstance(v, tuple)]
        self.pairs = [(p, v) for p, v in self.paths if isinstance(v, tuple)]
        self.ops = set(ops) if ops else set(OPS)
        self.wild = wild

    def q(self, v):
        return (b"\x01", v)

    def op(self, name, args):
        return (bytes([OPS[name][0]]), lst(args))

    def pick(self, names):
        names = [n for n in names if n in self.ops]
        return self.rng.choice(names) if names else None

    def leaf(self, kind):
        rng = self.rng
        if kind in ("int", "atom", "bool"):
            if self.atoms and rng.random() < 0.5:
                return int_atom(rng.choice(self.atoms)[0])
            return self.q(rand_atom(rng, small=(kind == "int" or rng.random() < 0.6)))
        if kind == "pair":
            if self.pairs and rng.random() < 0.6:
                return int_atom(rng.choice(self.pairs)[0])
            return self.q((rand_tree(rng, 1, True), rand_tree(rng, 2, True)))
        if rng.random() < 0.5 and self.paths:
            return int_atom(rng.choice(self.paths)[0])
        return self.q(rand_tree(rng, 2, True))

    def gen(self, kind, depth):
        rng = self.rng
        if depth <= 0 or rng.random() < 0.15:
            return self.leaf(kind)
        if rng.random() < self.wild:
            return rand_prog(rng, 2)
        g = self.gen
        d = depth - 1
        r = rng.random()
        if r < 0.1:
            # (a (q . X) env') with a fresh sub-generator is hard to type; use same env: (a (q . e) 1)
            return lst([b"\x02", self.q(g(kind, d)), b"\x01"])
        if r < 0.2:
            return self.op("i", [g("any", d), g(kind, d), g(kind, d)]) if "i" in self.ops else self.leaf(kind)
        if r < 0.26 and "i" in self.ops:
            # lazy if idiom: (a (i c (q . A) (q . B)) 1)
            return lst([b"\x02", self.op("i", [g("any", d), self.q(g(kind, d)), self.q(g(kind, d))]), b"\x01"])
        if kind == "pair" or (kind == "any" and r < 0.45):
            n = self.pick(["c", "c", "divmod", "r"])
            if n == "c":
                return self.op("c", [g("any", d), g("any", d)])
            if n == "divmod":
                return self.op("divmod", [g("int", d), g("int", d)])
            if n == "r":
                return self.op("r", [self.op("c", [g("any", d), g("pair", d)])]) if "c" in self.ops else self.leaf(kind)
            return self.leaf(kind)
        if kind == "bool":
            n = self.pick(["=", ">", ">s", "l", "not", "any", "all"])
            if n in ("=", ">s"):
                return self.op(n, [g("atom", d), g("atom", d)])
            if n == ">":
                return self.op(n, [g("int", d), g("int", d)])
            if n == "l":
                return self.op(n, [g("any", d)])
            if n == "not":
                return self.op(n, [g("any", d)])
            if n in ("any", "all"):
                return self.op(n, [g("any", d) for _ in range(rng.randint(0, 3))])
            return self.leaf(kind)
        # int / atom / any
        n = self.pick(["+", "-", "*", "/", "f", "r", "strlen", "concat", "sha256", "substr", "ash", "lsh",
                       "logand", "logior", "logxor", "lognot", "=", ">", "not", "f"])
        if n in ("+", "-", "*", "logand", "logior", "logxor"):
            return self.op(n, [g("int", d) for _ in range(rng.randint(0, 3))])
        if n == "/":
            return self.op(n, [g("int", d), g("int", d)])
        if n == "f":
            return self.op("f", [self.op("c", [g(kind, d), g("any", d)])]) if "c" in self.ops and rng.random() < 0.6 else self.op("f", [g("pair", d)])
        if n == "r":
            return self.op("r", [self.op("c", [g("any", d), g(kind, d)])]) if "c" in self.ops and rng.random() < 0.6 else self.op("r", [g("pair", d)])
        if n == "strlen":
            return self.op(n, [g("atom", d)])
        if n in ("concat", "sha256"):
            return self.op(n, [g("atom", d) for _ in range(rng.randint(0, 3))])
        if n == "substr":
            return self.op(n, [g("atom", d), self.q(int_atom(rng.randint(0, 2)))] + ([self.q(int_atom(rng.randint(0, 4)))] if rng.random() < 0.5 else []))
        if n in ("ash", "lsh"):
            return self.op(n, [g("int", d), self.q(int_atom(rng.randint(-20, 20)))])
        if n == "lognot":
            return self.op(n, [g("int", d)])
        if n in ("=", ">"):
            return self.gen("bool", depth)
        if n == "not":
            return self.op(n, [g("any", d)])
        return self.leaf(kind)


def typed_case(rng, depth=4, ops=None):
    env = rand_env(rng, rng.randint(0, 3))
    tg = TypedGen(rng, env, ops)
    return tg.gen(rng.choice(["int", "atom", "pair", "any", "bool"]), depth), env
