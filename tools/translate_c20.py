#!/usr/bin/env python3
"""translate_c20.py — regenerate lean/ChialispModel/Generated/Tables.lean from the CURRENT sources.

Extracted (nothing is cached; every run re-reads the files):
  * /repo/src/classic/clvm/mod.rs      KW_PAIRS rows, OPERATORS_LATEST_VERSION, the filter of every
                                        KEYWORD_FROM_ATOM_n / KEYWORD_TO_ATOM_n, the `match version` arms
                                        of keyword_from_atom / keyword_to_atom
  * /repo/src/compiler/prims.rs        prims() rows, the opcode literals of primquote/primapply/primcons/primexc
  * /repo/src/classic/clvm_tools/stages/stage_0.rs
                                        `match op` arms of OriginalDialect::op, its length guard, quote/apply/
                                        softfork kw, the `match operators_version` arms of DefaultProgramRunner
  * clvmr (version locked in /repo/Cargo.lock, cargo registry source) src/chia_dialect.rs
                                        1-byte arms (with flag guards), 4-byte arms, flag constants, kw functions
  * /repo/src/compiler/clvm.rs         the operators_version the stepping evaluator passes to the runner

A construct the extractor does not recognise is an ERROR (TranslateError), never silently skipped:
every extraction is cross-checked by a count of a cruder pattern.
"""
import glob
import json
import os
import re
import sys

REPO = os.environ.get("VERIF_REPO", "/repo")
ROOT = os.path.dirname(os.path.dirname(os.path.abspath(__file__)))
OUT = os.path.join(ROOT, "lean", "ChialispModel", "Generated", "Tables.lean")


class TranslateError(Exception):
    pass


def need(cond, msg):
    if not cond:
        raise TranslateError(msg)


def strip_comments(src):
    """remove // and /* */ comments, keep string literals intact."""
    out = []
    i, n = 0, len(src)
    while i < n:
        c = src[i]
        if c == '"':
            j = i + 1
            while j < n and src[j] != '"':
                j += 2 if src[j] == "\\" else 1
            out.append(src[i:j + 1])
            i = j + 1
        elif src.startswith("//", i):
            while i < n and src[i] != "\n":
                i += 1
        elif src.startswith("/*", i):
            j = src.find("*/", i + 2)
            i = n if j < 0 else j + 2
        elif c == "'" and i + 2 < n and (src[i + 2] == "'" or (src[i + 1] == "\\" and src.find("'", i + 2) in (i + 3, i + 4))):
            j = src.find("'", i + 2 if src[i + 1] != "\\" else i + 3)
            out.append(src[i:j + 1])
            i = j + 1
        else:
            out.append(c)
            i += 1
    return "".join(out)


def block_after(src, start):
    """text of the brace/bracket/paren block whose opener is the first of `{[(` at or after `start`."""
    i = start
    while src[i] not in "{[(":
        i += 1
    opener = src[i]
    closer = {"{": "}", "[": "]", "(": ")"}[opener]
    depth = 0
    j = i
    n = len(src)
    while j < n:
        c = src[j]
        if c == '"':
            j += 1
            while src[j] != '"':
                j += 2 if src[j] == "\\" else 1
        elif c == opener:
            depth += 1
        elif c == closer:
            depth -= 1
            if depth == 0:
                return src[i + 1:j], j + 1
        j += 1
    raise TranslateError("unbalanced block")


def rust_str(lit):
    """value of a Rust string literal body (between the quotes) as bytes."""
    out = bytearray()
    i = 0
    while i < len(lit):
        c = lit[i]
        if c == "\\":
            e = lit[i + 1]
            if e == "x":
                out.append(int(lit[i + 2:i + 4], 16))
                i += 4
                continue
            m = {"n": 10, "t": 9, "r": 13, "0": 0, "\\": 92, '"': 34, "'": 39}
            need(e in m, f"unsupported escape \\{e}")
            out.append(m[e])
            i += 2
        else:
            out += c.encode("utf-8")
            i += 1
    return bytes(out)


def rust_int(lit):
    lit = lit.replace("_", "")
    lit = re.sub(r"(u|i)(8|16|32|64|128|size)$", "", lit)
    return int(lit, 16) if lit.lower().startswith("0x") else int(lit)


def int_literal(text):
    m = re.fullmatch(r"\s*(0x[0-9a-fA-F_]+|\d[\d_]*?)(?:_?(?:u|i)(?:8|16|32|64|128|size))?\s*", text)
    need(m, f"not an integer literal: {text!r}")
    return rust_int(m.group(1))


# ---------------------------------------------------------------------------------------------

def extract_mod_rs(path):
    src = strip_comments(open(path).read())
    m = re.search(r"const\s+OPERATORS_LATEST_VERSION\s*:\s*usize\s*=\s*([^;]+);", src)
    need(m, "OPERATORS_LATEST_VERSION not found")
    latest = int_literal(m.group(1))
    m = re.search(r"const\s+KW_PAIRS\s*:\s*\[\s*KwAtomPair\s*;\s*(\d+)\s*\]\s*=", src)
    need(m, "KW_PAIRS not found")
    declared = int(m.group(1))
    body, _ = block_after(src, m.end())
    rows = []
    pos = 0
    while True:
        k = body.find("KwAtomPair", pos)
        if k < 0:
            break
        inner, pos = block_after(body, k)
        fv = re.search(r"\bv\s*:\s*&\[([^\]]*)\]", inner)
        fn = re.search(r'\bn\s*:\s*"((?:[^"\\]|\\.)*)"', inner)
        fver = re.search(r"\bversion\s*:\s*([^,}]+)", inner)
        need(fv and fn and fver, f"unrecognised KwAtomPair row: {inner!r}")
        v = [int_literal(x) for x in fv.group(1).split(",") if x.strip()]
        need(all(0 <= x < 256 for x in v), "opcode byte out of range")
        rows.append({"opcode": v, "name": list(rust_str(fn.group(1))), "version": int_literal(fver.group(1))})
    need(len(rows) == body.count("KwAtomPair"), "KW_PAIRS rows missed")
    need(len(rows) == declared, f"KW_PAIRS declares {declared} rows, {len(rows)} extracted")

    tables = {"FROM": {}, "TO": {}}
    for m in re.finditer(r"static\s+ref\s+KEYWORD_(FROM|TO)_ATOM_(\d+)\s*:", src):
        kind, idx = m.group(1), int(m.group(2))
        b, _ = block_after(src, src.index("=", m.end()))
        f = re.search(r"KW_PAIRS\s*\.iter\(\)\s*\.filter\(\s*\|\s*p\s*\|\s*p\.version\s*(==|<=|<|>=|>)\s*([^)]+)\)", b)
        need(f, f"KEYWORD_{kind}_ATOM_{idx}: filter not recognised")
        if kind == "FROM":
            ok = re.search(r"insert\(\s*pair\.v\.to_vec\(\)\s*,\s*pair\.n\.to_string\(\)\s*\)", b)
        else:
            ok = re.search(r"insert\(\s*pair\.n\.to_string\(\)\s*,\s*pair\.v\.to_vec\(\)\s*\)", b)
        need(ok, f"KEYWORD_{kind}_ATOM_{idx}: insert not recognised")
        need(len(re.findall(r"\binsert\(", b)) == 1 and "remove" not in b, f"KEYWORD_{kind}_ATOM_{idx}: extra map operations")
        tables[kind][idx] = (f.group(1), int_literal(f.group(2)))
    need(tables["FROM"] and tables["TO"], "no keyword tables found")
    need(len(re.findall(r"static\s+ref\s+KEYWORD_", src)) == len(tables["FROM"]) + len(tables["TO"]), "keyword tables missed")

    selects = {}
    for kind, fn in (("FROM", "keyword_from_atom"), ("TO", "keyword_to_atom")):
        m = re.search(r"pub\s+fn\s+" + fn + r"\s*\(\s*version\s*:\s*usize\s*\)", src)
        need(m, f"{fn} not found")
        b, _ = block_after(src, src.index("{", m.end()))
        mm = re.search(r"match\s+version\s*", b)
        need(mm, f"{fn}: match version not found")
        arms_src, _ = block_after(b, mm.end())
        arms = re.findall(r"(\d+|_)\s*=>\s*&\s*KEYWORD_" + kind + r"_ATOM_(\d+)\s*,", arms_src)
        need(len(arms) == arms_src.count("=>") and arms and arms[-1][0] == "_", f"{fn}: arms not recognised")
        for pat, idx in arms:
            need(int(idx) in tables[kind], f"{fn}: unknown table {idx}")
        selects[kind] = [(None if p == "_" else int(p), int(i)) for p, i in arms]
    return {"latest": latest, "declared": declared, "rows": rows, "tables": tables, "selects": selects}


def extract_prims(path):
    src = strip_comments(open(path).read())
    m = re.search(r"pub\s+fn\s+prims\s*\(\s*\)", src)
    need(m, "prims() not found")
    body, _ = block_after(src, src.index("{", m.end()))
    mv = re.search(r"vec!\s*", body)
    need(mv, "prims(): vec! not found")
    vec, _ = block_after(body, mv.end())
    rows = []
    for mm in re.finditer(
            r'\(\s*"((?:[^"\\]|\\.)*)"\.as_bytes\(\)\.to_vec\(\)\s*,\s*SExp::Integer\(\s*primloc(?:\.clone\(\))?\s*,\s*'
            r'([0-9a-fA-Fx_ui]+?)\.to_bigint\(\)\.unwrap\(\)\s*,?\s*\)\s*,?\s*\)', vec):
        rows.append({"name": list(rust_str(mm.group(1))), "code": int_literal(mm.group(2))})
    need(len(rows) == vec.count(".as_bytes()") == vec.count("SExp::"), f"prims(): {len(rows)} rows extracted, "
         f"{vec.count('.as_bytes()')} names / {vec.count('SExp::')} values present")
    # prim_map: one insert per row
    m = re.search(r"pub\s+fn\s+prim_map\s*\(\s*\)", src)
    need(m, "prim_map() not found")
    pm, _ = block_after(src, src.index("{", m.end()))
    need(re.search(r"for\s+p\s+in\s+prims\(\)\s*\{\s*out_map\.insert\(\s*p\.0\s*,\s*Rc::new\(p\.1\)\s*\)", pm), "prim_map(): shape not recognised")
    lits = {}
    for fn in ("primquote", "primapply", "primcons", "primexc"):
        m = re.search(r"pub\s+fn\s+" + fn + r"\s*\(", src)
        need(m, f"{fn} not found")
        b, _ = block_after(src, src.index("{", m.end()))
        mm = re.search(r"SExp::Integer\(\s*l(?:\.clone\(\))?\s*,\s*(bi_one\(\)|[0-9a-fA-Fx_ui]+\.to_bigint\(\)\.unwrap\(\))", b)
        need(mm, f"{fn}: operator literal not recognised")
        lits[fn] = 1 if mm.group(1).startswith("bi_one") else int_literal(mm.group(1).split(".to_bigint")[0])
    return {"rows": rows, "lits": lits}


ARM = re.compile(r"(0x[0-9a-fA-F_]+|\d+)\s*(?:if\s*\(\s*flags\s*&\s*(\w+)\s*\)\s*!=\s*0\s*)?=>\s*(op_\w+)\s*,")


def kw_fns(block, what):
    out = {}
    for fn in ("quote_kw", "apply_kw", "softfork_kw"):
        m = re.search(r"fn\s+" + fn + r"\s*\(\s*&self\s*\)\s*->\s*u32\s*\{\s*([^}]+)\}", block)
        need(m, f"{what}: {fn} not found")
        out[fn] = int_literal(m.group(1))
    return out


def extract_stage0(path):
    src = strip_comments(open(path).read())
    m = re.search(r"impl\s+Dialect\s+for\s+OriginalDialect", src)
    need(m, "impl Dialect for OriginalDialect not found")
    impl, _ = block_after(src, m.end())
    m = re.search(r"fn\s+op\s*\(", impl)
    need(m, "OriginalDialect::op not found")
    _, after_params = block_after(impl, m.end() - 1)
    body, _ = block_after(impl, impl.index("{", after_params))
    g = re.search(r"if\s+op_len\s*>\s*(\d+)\s*\{\s*return\s+unknown_operator", body)
    need(g, "OriginalDialect::op: length guard not recognised")
    need(re.search(r"let\s+Some\(op\)\s*=\s*allocator\.small_number\(o\)\s*else\s*\{\s*return\s+unknown_operator", body),
         "OriginalDialect::op: small_number guard not recognised")
    mm = re.search(r"let\s+f\s*=\s*match\s+op\s*", body)
    need(mm, "OriginalDialect::op: match op not found")
    arms_src, _ = block_after(body, mm.end())
    arms = [(rust_int(a), flag, f) for a, flag, f in ARM.findall(arms_src)]
    need(len(arms) + 1 == arms_src.count("=>") and re.search(r"_\s*=>\s*\{\s*return\s+unknown_operator", arms_src),
         "OriginalDialect::op: arms not recognised")
    need(all(flag == "" for _, flag, _ in arms), "OriginalDialect::op: guarded arm")
    kws = kw_fns(impl, "OriginalDialect")

    m = re.search(r"impl\s+TRunProgram\s+for\s+DefaultProgramRunner", src)
    need(m, "impl TRunProgram for DefaultProgramRunner not found")
    impl2, _ = block_after(src, m.end())
    d = re.search(r"\.map\(\s*\|o\|\s*o\.operators_version\s*\)\s*\.unwrap_or\(\s*(\w+)\s*\)", impl2)
    need(d, "run_program: default operators_version not recognised")
    mm = re.search(r"match\s+operators_version\s*", impl2)
    need(mm, "run_program: match operators_version not found")
    arms_src2, _ = block_after(impl2, mm.end())
    sel = re.findall(r"(\d+|_)\s*=>\s*run_program_with_pre_eval_dialect\(\s*allocator\s*,\s*&\s*(\w+)::new\(([^)]*)\)", arms_src2)
    need(sel and len(sel) == len(re.findall(r"(?:\d+|_)\s*=>", arms_src2)) and sel[-1][0] == "_", "run_program: arms not recognised")
    return {"arms": [a for a, _, _ in arms], "fns": [(a, f) for a, _, f in arms], "max_len": int(g.group(1)), "kws": kws,
            "default_version": d.group(1),
            "select": [(None if p == "_" else int(p), dialect, [x.strip() for x in flags.split("|") if x.strip()])
                       for p, dialect, flags in sel]}


def locate_clvmr():
    lock = open(os.path.join(REPO, "Cargo.lock")).read()
    m = re.search(r'name = "clvmr"\s*\nversion = "([^"]+)"', lock)
    need(m, "clvmr not found in Cargo.lock")
    ver = m.group(1)
    home = os.environ.get("CARGO_HOME", os.path.expanduser("~/.cargo"))
    cands = sorted(glob.glob(os.path.join(home, "registry", "src", "*", f"clvmr-{ver}", "src", "chia_dialect.rs")))
    need(cands, f"clvmr-{ver} source not found in the cargo registry")
    return ver, cands[0]


def extract_chia(path):
    src = strip_comments(open(path).read())
    flags = {}
    for m in re.finditer(r"pub\s+const\s+(\w+)\s*:\s*u32\s*=\s*(0x[0-9a-fA-F_]+|\d+)\s*;", src):
        flags[m.group(1)] = rust_int(m.group(2))
    m = re.search(r"impl\s+Dialect\s+for\s+ChiaDialect", src)
    need(m, "impl Dialect for ChiaDialect not found")
    impl, _ = block_after(src, m.end())
    m = re.search(r"fn\s+op\s*\(", impl)
    need(m, "ChiaDialect::op not found")
    _, after_params = block_after(impl, m.end() - 1)
    body, _ = block_after(impl, impl.index("{", after_params))
    # extension flags: only ENABLE_KECCAK may be added by an extension
    ext = re.search(r"let\s+flags\s*=\s*self\.flags\s*\|\s*match\s+extension\s*", body)
    need(ext, "ChiaDialect::op: flags/extension not recognised")
    m4 = re.search(r"if\s+op_len\s*==\s*4\s*", body)
    need(m4, "ChiaDialect::op: 4-byte branch not found")
    b4, end4 = block_after(body, m4.end())
    need(re.search(r"u32::from_be_bytes", b4), "ChiaDialect::op: 4-byte opcode is not read big-endian")
    mm = re.search(r"let\s+f\s*=\s*match\s+opcode\s*", b4)
    need(mm, "ChiaDialect::op: match opcode not found")
    arms4_src, _ = block_after(b4, mm.end())
    arms4 = [(rust_int(a), flag, f) for a, flag, f in ARM.findall(arms4_src)]
    need(len(arms4) + 1 == arms4_src.count("=>") and all(fl == "" for _, fl, _ in arms4), "ChiaDialect::op: 4-byte arms not recognised")
    rest = body[end4:]
    need(re.search(r"if\s+op_len\s*!=\s*1\s*\{\s*return\s+unknown_operator", rest), "ChiaDialect::op: 1-byte guard not recognised")
    need(re.search(r"let\s+Some\(op\)\s*=\s*allocator\.small_number\(o\)\s*else\s*\{\s*return\s+unknown_operator", rest),
         "ChiaDialect::op: small_number guard not recognised")
    mm = re.search(r"let\s+f\s*=\s*match\s+op\s*", rest)
    need(mm, "ChiaDialect::op: match op not found")
    arms_src, _ = block_after(rest, mm.end())
    arms = [(rust_int(a), flag, f) for a, flag, f in ARM.findall(arms_src)]
    need(len(arms) + 1 == arms_src.count("=>"), "ChiaDialect::op: 1-byte arms not recognised")
    for _, fl, _ in arms:
        need(fl == "" or fl in flags, f"ChiaDialect::op: unknown flag {fl}")
    return {"flags": flags, "arms": [(a, fl) for a, fl, _ in arms], "fns": [(a, f) for a, _, f in arms],
            "arms4": [a for a, _, _ in arms4], "kws": kw_fns(impl, "ChiaDialect")}


def extract_disassembler(path):
    """ir_for_atom (binutils.rs): is the keyword table consulted for every atom, or only inside the
    branch for atoms of at most N bytes?  returns None (every atom) or N."""
    src = strip_comments(open(path).read())
    m = re.search(r"pub\s+fn\s+ir_for_atom\s*\(", src)
    need(m, "ir_for_atom not found")
    _, after_params = block_after(src, m.end() - 1)
    body, _ = block_after(src, src.index("{", after_params))
    need(len(re.findall(r"keyword_from_atom\.get\(", body)) == 1, "ir_for_atom: expected exactly one keyword lookup")
    kpos = body.index("keyword_from_atom.get(")
    g = re.search(r"if\s+atom\.length\(\)\s*>\s*(\d+)\s*", body)
    need(g, "ir_for_atom: length split not recognised")
    then_block, after_then = block_after(body, g.end())
    e = re.match(r"\s*else\s*", body[after_then:])
    need(e, "ir_for_atom: else branch not recognised")
    else_start = after_then + e.end()
    else_block, else_end = block_after(body, else_start)
    if kpos < g.start():
        # lookup before the split: must be guarded only by allow_keyword
        pre = body[:g.start()]
        need(re.search(r"if\s+allow_keyword\s*\{\s*if\s+let\s+Some\(kw\)\s*=\s*keyword_from_atom\.get\(atom\.data\(\)\)", pre),
             "ir_for_atom: keyword lookup shape not recognised")
        return None
    need(else_start <= kpos < else_end, "ir_for_atom: keyword lookup in an unexpected place")
    need(re.search(r"if\s+allow_keyword\s*\{\s*if\s+let\s+Some\(kw\)\s*=\s*keyword_from_atom\.get\(atom\.data\(\)\)", else_block),
         "ir_for_atom: keyword lookup shape not recognised")
    return int(g.group(1))


def extract_stepper(path):
    src = strip_comments(open(path).read())
    hits = re.findall(r"operators_version\s*:\s*(\w+)\s*,", src)
    need(len(hits) == 1, f"compiler/clvm.rs: expected one operators_version initialiser, found {len(hits)}")
    return hits[0]


# ---------------------------------------------------------------------------------------------

def lean_list(xs):
    return "[" + ", ".join(str(x) for x in xs) + "]"


CMP = {"==": ".eq", "<=": ".le", "<": ".lt", ">=": ".ge", ">": ".gt"}


def version_expr(tok, mod):
    if tok == "OPERATORS_LATEST_VERSION":
        return "latestVersion"
    return str(int_literal(tok))


def select_fn(name, arms, render):
    lines = [f"def {name} : Nat → {render[0]}"]
    for pat, val in arms:
        lines.append(f"  | {'_' if pat is None else pat} => {render[1](val)}")
    return "\n".join(lines)


def generate():
    mod = extract_mod_rs(os.path.join(REPO, "src/classic/clvm/mod.rs"))
    prims = extract_prims(os.path.join(REPO, "src/compiler/prims.rs"))
    st0 = extract_stage0(os.path.join(REPO, "src/classic/clvm_tools/stages/stage_0.rs"))
    ver, chia_path = locate_clvmr()
    chia = extract_chia(chia_path)
    stepper = extract_stepper(os.path.join(REPO, "src/compiler/clvm.rs"))
    dis_limit = extract_disassembler(os.path.join(REPO, "src/classic/clvm_tools/binutils.rs"))

    flagval = dict(chia["flags"])
    for _, dialect, fl in st0["select"]:
        need(dialect in ("OriginalDialect", "ChiaDialect"), f"unknown dialect {dialect}")
        for f in fl:
            need(f in flagval, f"unknown flag {f}")

    out = []
    w = out.append
    w("/-")
    w("  Generated/Tables.lean — GENERATED by tools/translate_c20.py on every run of ./check C20.")
    w("  DO NOT EDIT.  Operator tables as the sources state them; names and opcodes are byte lists")
    w("  (List Nat), so that `decide` evaluates them in the kernel.")
    w(f"  clvmr version (Cargo.lock): {ver}")
    w("-/")
    w("")
    w("namespace Tables")
    w("")
    w("structure KwRow where")
    w("  opcode : List Nat")
    w("  name : List Nat")
    w("  version : Nat")
    w("  deriving DecidableEq, Repr")
    w("")
    w("inductive Cmp where | eq | le | lt | ge | gt")
    w("  deriving DecidableEq, Repr")
    w("")
    w("inductive DialectKind where | original | chia")
    w("  deriving DecidableEq, Repr")
    w("")
    w("/-- `OPERATORS_LATEST_VERSION` (src/classic/clvm/mod.rs). -/")
    w(f"def latestVersion : Nat := {mod['latest']}")
    w("")
    w(f"/-- `KW_PAIRS` (declared length {mod['declared']}), in source order. -/")
    w("def kwPairs : List KwRow := [")
    rows = []
    for r in mod["rows"]:
        nm = bytes(r["name"]).decode("latin-1")
        rows.append(f"  ⟨{lean_list(r['opcode'])}, {lean_list(r['name'])}, {r['version']}⟩   -- {nm}")
    # comments must come after the comma: put the comma before the comment
    w(",\n".join(x.split("   -- ")[0] for x in rows) if False else
      "\n".join((x.split("   -- ")[0] + ("," if i + 1 < len(rows) else "") + "   -- " + x.split("   -- ")[1]) for i, x in enumerate(rows)))
    w("]")
    w("")
    w("/-- the `filter(|p| p.version ⋈ k)` of every `KEYWORD_FROM_ATOM_n` : (n, ⋈, k). -/")
    w("def fromTableFilters : List (Nat × Cmp × Nat) := [" +
      ", ".join(f"({i}, {CMP[c]}, {k})" for i, (c, k) in sorted(mod["tables"]["FROM"].items())) + "]")
    w("/-- … and of every `KEYWORD_TO_ATOM_n`. -/")
    w("def toTableFilters : List (Nat × Cmp × Nat) := [" +
      ", ".join(f"({i}, {CMP[c]}, {k})" for i, (c, k) in sorted(mod["tables"]["TO"].items())) + "]")
    w("")
    w("/-- `keyword_from_atom(version)`: which table a version selects. -/")
    w(select_fn("fromTableOf", mod["selects"]["FROM"], ("Nat", str)))
    w("")
    w("/-- `keyword_to_atom(version)`. -/")
    w(select_fn("toTableOf", mod["selects"]["TO"], ("Nat", str)))
    w("")
    w("/-- `prims()` (src/compiler/prims.rs), in source order: (name, integer). -/")
    w("def prims : List (List Nat × Nat) := [")
    pr = []
    for i, r in enumerate(prims["rows"]):
        nm = bytes(r["name"]).decode("latin-1")
        pr.append(f"  ({lean_list(r['name'])}, {r['code']})" + ("," if i + 1 < len(prims["rows"]) else "") + f"   -- {nm}")
    w("\n".join(pr))
    w("]")
    w("")
    w("/-- operator integers hard-wired in primquote / primapply / primcons / primexc. -/")
    for fn in ("primquote", "primapply", "primcons", "primexc"):
        w(f"def {fn}Op : Nat := {prims['lits'][fn]}")
    w("")
    w("/-- `OriginalDialect::op` (stage_0.rs): atoms longer than this are unknown operators … -/")
    w(f"def origMaxLen : Nat := {st0['max_len']}")
    w("/-- … and these are the arms of its `match op`. -/")
    w(f"def origOps : List Nat := {lean_list(st0['arms'])}")
    w("/-- … each arm with the name of the clvmr operator function it dispatches to (bytes of the Rust identifier). -/")
    w("def origFns : List (Nat × List Nat) := [" + ", ".join(f"({a}, {lean_list(list(f.encode()))})" for a, f in st0["fns"]) + "]")
    w(f"def origQuote : Nat := {st0['kws']['quote_kw']}")
    w(f"def origApply : Nat := {st0['kws']['apply_kw']}")
    w(f"def origSoftfork : Nat := {st0['kws']['softfork_kw']}")
    w("")
    w(f"/-- clvmr {ver} `ChiaDialect::op`: 1-byte arms as (opcode, flag mask that must be set; 0 = unguarded). -/")
    w("def chiaOps : List (Nat × Nat) := [" + ", ".join(f"({a}, {flagval[fl] if fl else 0})" for a, fl in chia["arms"]) + "]")
    w("/-- the same arms with the operator function each dispatches to. -/")
    w("def chiaFns : List (Nat × List Nat) := [" + ", ".join(f"({a}, {lean_list(list(f.encode()))})" for a, f in chia["fns"]) + "]")
    w("/-- 4-byte arms (`u32::from_be_bytes`). -/")
    w(f"def chiaOps4 : List Nat := {lean_list(chia['arms4'])}")
    w(f"def chiaQuote : Nat := {chia['kws']['quote_kw']}")
    w(f"def chiaApply : Nat := {chia['kws']['apply_kw']}")
    w(f"def chiaSoftfork : Nat := {chia['kws']['softfork_kw']}")
    w("")
    w("/-- `DefaultProgramRunner::run_program`: dialect and flags per `operators_version`. -/")
    w(select_fn("dialectOf", [(p, (d, fl)) for p, d, fl in st0["select"]],
                ("DialectKind × Nat", lambda v: f"({'.original' if v[0] == 'OriginalDialect' else '.chia'}, {sum(flagval[f] for f in set(v[1]))})")))
    w("")
    w("/-- `ir_for_atom` (binutils.rs): the keyword table is consulted only for atoms of at most this many")
    w("    bytes (`none`: for every atom). -/")
    w(f"def disasmKeywordMaxLen : Option Nat := {'none' if dis_limit is None else f'some {dis_limit}'}")
    w("")
    w("/-- the version `run_program` uses when no option is given. -/")
    w(f"def defaultVersion : Nat := {version_expr(st0['default_version'], mod)}")
    w("/-- the version the stepping evaluator (src/compiler/clvm.rs) passes when it applies an operator. -/")
    w(f"def stepperVersion : Nat := {version_expr(stepper, mod)}")
    w("")
    lits = [p for p, _ in mod["selects"]["FROM"] if p is not None] + [p for p, _ in mod["selects"]["TO"] if p is not None] + \
        [p for p, _, _ in st0["select"] if p is not None]
    K = max(lits) + 1 if lits else 0
    w("/-- one more than the largest version literal any of the three `match`es names: from here on")
    w("    every version behaves alike (the `_` arms). -/")
    w(f"def versionArms : Nat := {K}")
    w("")
    for fn in ("fromTableOf", "toTableOf", "dialectOf"):
        w(f"theorem {fn}_beyond : ∀ v, versionArms ≤ v → {fn} v = {fn} versionArms := by")
        w("  intro v h")
        w("  match v, h with")
        for i in range(K):
            w(f"  | {i}, h => exact absurd h (by decide)")
        w(f"  | _ + {K}, _ => rfl")
        w("")
    w("end Tables")
    text = "\n".join(out) + "\n"
    summary = {
        "latest": mod["latest"], "kw_rows": mod["rows"], "from_filters": {str(k): v for k, v in mod["tables"]["FROM"].items()},
        "to_filters": {str(k): v for k, v in mod["tables"]["TO"].items()}, "from_select": mod["selects"]["FROM"],
        "to_select": mod["selects"]["TO"], "prims": prims["rows"], "prim_lits": prims["lits"],
        "orig": st0, "chia": chia, "clvmr": ver, "stepper": stepper, "dis_limit": dis_limit,
    }
    return text, summary


def main(write=True):
    text, summary = generate()
    if write:
        os.makedirs(os.path.dirname(OUT), exist_ok=True)
        old = open(OUT).read() if os.path.exists(OUT) else None
        if old != text:
            with open(OUT, "w") as fh:
                fh.write(text)
    return text, summary


if __name__ == "__main__":
    try:
        t, s = main()
    except TranslateError as e:
        print("translate_c20: " + str(e))
        sys.exit(1)
    if "-v" in sys.argv:
        print(t)
    print(f"wrote {OUT}: {len(s['kw_rows'])} keyword rows, {len(s['prims'])} prims, "
          f"{len(s['orig']['arms'])} original arms, {len(s['chia']['arms'])}+{len(s['chia']['arms4'])} chia arms (clvmr {s['clvmr']})")
